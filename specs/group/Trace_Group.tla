-------------------------------- MODULE Trace_Group --------------------------------
(* Stateless validation of recorded results of numqi.group (code -> spec).  One event per TLC run section:
     table     : a Cayley table built by the library, its left-regular form (as permutations) and the group it claims to be
     classes   : the conjugacy classes reported by get_character_and_class = the classes computed from the table
     irrepmats : the irreducible blocks themselves, rounded to Gaussian integers at scale S: unitary and D(g) D(h) = D(gh) for ALL g, h
     irreps    : dimensions (and integer characters where all characters are rational) of the irreducible blocks
     pcount    : get_sym_group_num_irrep(N)
     partitions: get_sym_group_young_diagram(N)
     hook      : get_hook_length(shape)          hookbig : the same for hooks and two-row shapes of up to 33 boxes
     tableau   : one array returned by get_all_young_tableaux(shape) *)
EXTENDS Constructions, Partition, Young, Sets, Json, IOUtils
Events == JsonDeserialize(IOEnv.TRACE_FILE)
VARIABLE l
PT == PTable(60)
TableOK(e) == \E T \in {e.T} :
   /\ IsGroup(T)
   /\ \E inv \in {Invariants(T)} : \E ex \in {Expected(e.kind, e.n)} :
        /\ inv.order = ex.order /\ inv.profile = ex.profile /\ (Abelian(T) <=> ex.abelian)
   /\ LeftRegularOK(T, e.perm)
\* characters: chars[k][g] integers; rows = irreps
RowDot(T, x, y) == FoldLeft(LAMBDA a, g : a + x[g] * y[InvOf(T, g)], 0, [g \in 1..Len(T) |-> g])
IrrepsOK(e) == \E T \in {e.T} : \E nc \in {Cardinality(Classes(T))} :
   /\ FoldLeft(LAMBDA a, d : a + d * d, 0, e.dims) = Len(T)
   /\ Len(e.dims) = nc
   /\ AllRational(T) => /\ e.chars # <<>>
                        /\ \A k \in 1..Len(e.chars) : e.chars[k][IdOf(T)] = e.dims[k]
                        /\ \A k \in 1..Len(e.chars) : \A g, h \in 1..Len(T) : e.chars[k][Conj(T, h, g)] = e.chars[k][g]      \* class functions
                        /\ \A j, k \in 1..Len(e.chars) : RowDot(T, e.chars[j], e.chars[k]) = (IF j = k THEN Len(T) ELSE 0)
Valid(e) ==
  CASE e.op = "table" -> TableOK(e)
    [] e.op = "cayley" -> \E T \in {e.T} : IsGroup(T) /\ \E inv \in {Invariants(T)} : \E ex \in {Expected(e.kind, e.n)} :       \* a table as a repository test obtained it
                                /\ inv.order = ex.order /\ inv.profile = ex.profile /\ (Abelian(T) <=> ex.abelian)
    [] e.op = "regular" -> \E T \in {e.T} : IsGroup(T) /\ LeftRegularOK(T, e.perm)                                          \* a left-regular form of any table
    [] e.op = "irreps" -> IrrepsOK(e)
    [] e.op = "classes" -> \E T \in {e.T} : {{e.classes[i][k] : k \in 1..Len(e.classes[i])} : i \in 1..Len(e.classes)} = Classes(T)       \* get_character_and_class: the conjugacy classes
    [] e.op = "irrepmats" -> \E T \in {e.T} : \A k \in 1..Len(e.mats) : \E D \in {e.mats[k]} :                                     \* one irreducible block, rounded at scale e.S
                                /\ Len(D) = Len(T)
                                /\ \A g \in 1..Len(T) : CoIsoOK(D[g], e.S)                                                     \* unitary
                                /\ \A g, h \in 1..Len(T) : \A i, j \in 1..Len(D[1]) :                                          \* homomorphism D(g) D(h) = D(gh)
                                      Near(GSum([x \in 1..Len(D[1]) |-> GMul(D[g][i][x], D[h][x][j])]), GScale(e.S, D[T[g][h]][i][j]), Tol2(e.S))
    [] e.op = "pcount" -> e.p = PT[e.N + 1]
    [] e.op = "partitions" -> \E S \in {Parts(e.N, e.N)} : Len(e.rows) = Cardinality(S) /\ {StripZeros(e.rows[i]) : i \in 1..Len(e.rows)} = S /\ Cardinality(S) = PT[e.N + 1]
    [] e.op = "hook" -> e.f = F(e.shape)
    [] e.op = "hookbig" -> /\ SumSh(e.shape) <= 33 /\ (IsHookShape(e.shape) \/ Len(e.shape) = 2) /\ (SumSh(e.shape) <= 12 => FBig(e.shape) = F(e.shape))
                           /\ e.f = FBig(e.shape)                                   \* up to 33 boxes: hooks and two-row shapes by closed forms
    [] e.op = "tableau" -> IsSYT(e.rows) /\ Shape(e.rows) = e.shape
    [] OTHER -> FALSE
Verdict(i) == Valid(Events[i])
Init == l = 1 /\ TLCSet(1, 0)
Next == /\ l <= Len(Events)
        /\ IF Verdict(l) THEN TLCSet(1, TLCGet(1) + 1) ELSE PrintT(<<"REJECT", l, Events[l].op>>)
        /\ l' = l + 1
Spec == Init /\ [][Next]_l
Post == PrintT(<<"ACCEPTED", TLCGet(1), Len(Events)>>)
=============================================================================
