CONSTANTS NMax = 10
SPECIFICATION Spec
INVARIANT Branching
INVARIANT Standard
INVARIANT HookExact
