-------------------------------- MODULE FiniteGroup --------------------------------
(* Finite groups given by a Cayley table T (sequence of rows, entries 1..n; T[a][b] = a*b).  Group axioms, derived
   structure (identity, inverses, element orders, conjugacy classes, centre) and isomorphism invariants used to pin down
   WHICH group a table is without demanding a particular labelling of the elements. *)
EXTENDS Naturals, Sequences, FiniteSets, SequencesExt, FiniteSetsExt, TLC
Ord(T) == Len(T)
Els(T) == 1..Len(T)
Closed(T) == \A a \in Els(T) : Len(T[a]) = Len(T) /\ \A b \in Els(T) : T[a][b] \in Els(T)
Assoc(T) == \A a, b, c \in Els(T) : T[T[a][b]][c] = T[a][T[b][c]]
Identities(T) == {e \in Els(T) : \A a \in Els(T) : T[e][a] = a /\ T[a][e] = a}
HasInverses(T, e) == \A a \in Els(T) : \E b \in Els(T) : T[a][b] = e /\ T[b][a] = e
IsGroup(T) == Closed(T) /\ Cardinality(Identities(T)) = 1 /\ Assoc(T) /\ HasInverses(T, CHOOSE e \in Identities(T) : TRUE)
IdOf(T) == CHOOSE e \in Identities(T) : TRUE
InvOf(T, a) == CHOOSE b \in Els(T) : T[a][b] = IdOf(T)
RECURSIVE PowOrder(_, _, _, _)
PowOrder(T, a, cur, k) == IF cur = IdOf(T) THEN k ELSE PowOrder(T, a, T[cur][a], k + 1)
OrderOf(T, a) == PowOrder(T, a, a, 1)
\* multiset of element orders as a function order |-> count
OrderProfile(T) == LET os == [a \in Els(T) |-> OrderOf(T, a)] IN
                   [k \in {os[a] : a \in Els(T)} |-> Cardinality({a \in Els(T) : os[a] = k})]
Conj(T, g, a) == T[T[g][a]][InvOf(T, g)]
ClassOf(T, a) == {Conj(T, g, a) : g \in Els(T)}
Classes(T) == {ClassOf(T, a) : a \in Els(T)}
Centre(T) == {a \in Els(T) : \A b \in Els(T) : T[a][b] = T[b][a]}
Abelian(T) == Centre(T) = Els(T)
Invariants(T) == [order |-> Ord(T), profile |-> OrderProfile(T), centre |-> Cardinality(Centre(T)), classes |-> Cardinality(Classes(T))]
\* powers
RECURSIVE Power(_, _, _)
Power(T, a, k) == IF k = 0 THEN IdOf(T) ELSE T[Power(T, a, k - 1)][a]
RECURSIVE Gcd(_, _)
Gcd(a, b) == IF b = 0 THEN a ELSE Gcd(b, a % b)
\* all complex characters are rational (integers) iff every g is conjugate to g^k for every k coprime to its order
AllRational(T) == \A g \in Els(T) : \A k \in 1..OrderOf(T, g) : Gcd(OrderOf(T, g), k) = 1 => Power(T, g, k) \in ClassOf(T, g)
\* left regular representation as permutations: L(a) maps b |-> a*b; the library stores the permutation matrices
\* L[a][T[a][b]][b] = 1.  `perm[a][b]` = row of the single 1 in column b of L[a].
LeftRegularOK(T, perm) == /\ \A a, b \in Els(T) : perm[a][b] = T[a][b]
                          /\ \A a, b, c \in Els(T) : perm[a][perm[b][c]] = perm[T[a][b]][c]       \* L(a) L(b) = L(ab)
                          /\ \A a, b \in Els(T) : a # b => perm[a] # perm[b]                      \* faithful
=============================================================================
