-------------------------------- MODULE Partition --------------------------------
(* Integer partitions: the counting function by Euler's pentagonal number recurrence
       p(n) = sum_{k>=1} (-1)^(k+1) [ p(n - k(3k-1)/2) + p(n - k(3k+1)/2) ]
   and the set of partitions by explicit enumeration (non-increasing sequences of positive parts). *)
EXTENDS Integers, Sequences, FiniteSets, SequencesExt
PentTerm(tab, n) == LET Sgn(k) == IF k % 2 = 1 THEN 1 ELSE -1
                        At(m) == IF m < 0 THEN 0 ELSE tab[m + 1]
                    IN FoldLeft(LAMBDA acc, k : acc + Sgn(k) * (At(n - (k * (3 * k - 1)) \div 2) + At(n - (k * (3 * k + 1)) \div 2)), 0,
                                [k \in 1..n |-> k])
\* table <<p(0), ..., p(N)>> built bottom-up
PTable(N) == FoldLeft(LAMBDA tab, n : Append(tab, PentTerm(tab, n)), <<1>>, [n \in 1..N |-> n])
RECURSIVE Parts(_, _)
Parts(n, m) == IF n = 0 THEN {<<>>} ELSE UNION {{<<k>> \o r : r \in Parts(n - k, k)} : k \in 1..(IF n < m THEN n ELSE m)}
StripZeros(row) == SelectSeq(row, LAMBDA x : x # 0)
=============================================================================
