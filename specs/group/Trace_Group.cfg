SPECIFICATION Spec
POSTCONDITION Post
