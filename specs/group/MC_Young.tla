-------------------------------- MODULE MC_Young --------------------------------
EXTENDS Young, TLC
CONSTANT NMax
VARIABLES tab
Init == tab = <<>>
Next == Size(tab) < NMax /\ (tab' = NewRow(tab) \/ \E r \in 1..Len(tab) : CanAddToRow(tab, r) /\ tab' = AddToRow(tab, r))
Spec == Init /\ [][Next]_tab
\* branching rule  f^lambda = sum over removable corners of f^(lambda - corner)
Branching == tab = <<>> \/ LET sh == Shape(tab) IN F(sh) = FoldLeft(LAMBDA a, r : a + F(RemoveBox(sh, r)), 0, SetToSeq(Removable(sh)))
Standard == tab = <<>> \/ IsSYT(tab)
HookExact == tab = <<>> \/ LET sh == Shape(tab) IN Fact(SumSh(sh)) % ProdSeq(HookList(sh)) = 0
=============================================================================
