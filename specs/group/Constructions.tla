-------------------------------- MODULE Constructions --------------------------------
(* Reference constructions of the named groups from their definitions, used only through isomorphism invariants. *)
EXTENDS FiniteGroup, Integers
\* permutations of 1..n as sequences; composition (p o q)[i] = p[q[i]]
Perms(n) == {p \in [1..n -> 1..n] : \A i, j \in 1..n : i # j => p[i] # p[j]}
RECURSIVE CycleLen(_, _, _, _)
CycleLen(p, start, cur, k) == IF p[cur] = start THEN k ELSE CycleLen(p, start, p[cur], k + 1)
Lcm(a, b) == (a * b) \div Gcd(a, b)
PermOrder(p) == FoldLeft(Lcm, 1, [i \in 1..Len(p) |-> CycleLen(p, i, i, 1)])
Inversions(p) == Cardinality({ij \in (1..Len(p)) \X (1..Len(p)) : ij[1] < ij[2] /\ p[ij[1]] > p[ij[2]]})
IsEven(p) == Inversions(p) % 2 = 0
ProfileOf(S, ordf(_)) == [k \in {ordf(x) : x \in S} |-> Cardinality({x \in S : ordf(x) = k})]
SymProfile(n) == ProfileOf(Perms(n), PermOrder)
AltProfile(n) == ProfileOf({p \in Perms(n) : IsEven(p)}, PermOrder)
\* dihedral group of the n-gon: rotations r^k (order n / gcd(n,k)) and n reflections of order 2
DihProfile(n) == LET rot == [k \in 0..(n - 1) |-> n \div Gcd(n, k)] IN
                 [o \in {rot[k] : k \in 0..(n - 1)} \cup {2} |-> Cardinality({k \in 0..(n - 1) : rot[k] = o}) + (IF o = 2 THEN n ELSE 0)]
CycProfile(n) == LET rot == [k \in 0..(n - 1) |-> n \div Gcd(n, k)] IN [o \in {rot[k] : k \in 0..(n - 1)} |-> Cardinality({k \in 0..(n - 1) : rot[k] = o})]
Units(n) == {x \in 1..(n - 1) : Gcd(n, x) = 1}
RECURSIVE MulOrder(_, _, _, _)
MulOrder(n, x, cur, k) == IF cur = 1 THEN k ELSE MulOrder(n, x, (cur * x) % n, k + 1)
UnitProfile(n) == ProfileOf(Units(n), LAMBDA x : MulOrder(n, x, x, 1))
KleinProfile == (1 :> 1) @@ (2 :> 3)
QuatProfile == (1 :> 1) @@ (2 :> 1) @@ (4 :> 6)
\* expected invariants of a named group: [order, profile, abelian]
Expected(kind, n) ==
  CASE kind = "sym" -> [order |-> Cardinality(Perms(n)), profile |-> SymProfile(n), abelian |-> n <= 2]
    [] kind = "alt" -> [order |-> Cardinality(Perms(n)) \div 2, profile |-> AltProfile(n), abelian |-> n <= 3]
    [] kind = "dih" -> [order |-> 2 * n, profile |-> DihProfile(n), abelian |-> FALSE]
    [] kind = "cyc" -> [order |-> n, profile |-> CycProfile(n), abelian |-> TRUE]
    [] kind = "mul" -> [order |-> Cardinality(Units(n)), profile |-> UnitProfile(n), abelian |-> TRUE]
    [] kind = "klein" -> [order |-> 4, profile |-> KleinProfile, abelian |-> TRUE]
    [] kind = "quat" -> [order |-> 8, profile |-> QuatProfile, abelian |-> FALSE]
=============================================================================
