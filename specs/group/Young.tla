-------------------------------- MODULE Young --------------------------------
(* Young's lattice as a state machine: a state is a standard filling (sequence of rows of labels 0..n-1), an action adds
   the next label at an addable corner.  Every reachable state is a standard Young tableau and every standard Young
   tableau is reachable exactly once (by the order of its labels).  Hook-length number f^lambda. *)
EXTENDS Integers, Sequences, FiniteSets, SequencesExt
Shape(t) == [r \in 1..Len(t) |-> Len(t[r])]
Size(t) == FoldLeft(LAMBDA a, r : a + Len(r), 0, t)
CanAddToRow(t, r) == r <= Len(t) /\ (IF r = 1 THEN TRUE ELSE Len(t[r - 1]) > Len(t[r]))
AddToRow(t, r) == [t EXCEPT ![r] = Append(t[r], Size(t))]
NewRow(t) == Append(t, <<Size(t)>>)
\* hook lengths
ColLen(sh, c) == Cardinality({r \in 1..Len(sh) : sh[r] >= c})
Hook(sh, r, c) == (sh[r] - c) + (ColLen(sh, c) - r) + 1
RECURSIVE Fact(_)
Fact(n) == IF n = 0 THEN 1 ELSE n * Fact(n - 1)
SumSh(sh) == FoldLeft(LAMBDA a, b : a + b, 0, sh)
\* n! / prod(hooks) computed by interleaved multiply/divide to stay below 2^31: the running value is an integer at each step
\* because it is itself a hook number of a sub-diagram is not guaranteed - so we compute exactly with the product of hooks
\* and require the division to be exact
HookList(sh) == FoldLeft(LAMBDA acc, r : acc \o [c \in 1..sh[r] |-> Hook(sh, r, c)], <<>>, [r \in 1..Len(sh) |-> r])
ProdSeq(s) == FoldLeft(LAMBDA a, b : a * b, 1, s)
F(sh) == IF sh = <<>> THEN 1 ELSE Fact(SumSh(sh)) \div ProdSeq(HookList(sh))
\* large shapes with few tableaux (Fact overflows TLC's 32-bit integers beyond 12 boxes): hooks (a, 1^k) have C(a+k-1, k) standard tableaux,
\* two-row shapes (a, b) have C(a+b, b) - C(a+b, b-1) (ballot numbers); binomials from Pascal's triangle (additions only, < 2^31 for n <= 33)
PascalRow(n) == FoldLeft(LAMBDA row, i : [j \in 1..(Len(row) + 1) |-> (IF j = 1 THEN 0 ELSE row[j - 1]) + (IF j = Len(row) + 1 THEN 0 ELSE row[j])], <<1>>, [i \in 1..n |-> i])
BinomP(n, k) == IF k < 0 \/ k > n THEN 0 ELSE PascalRow(n)[k + 1]
IsHookShape(sh) == \A r \in 2..Len(sh) : sh[r] = 1
FBig(sh) == IF IsHookShape(sh) THEN BinomP(SumSh(sh) - 1, Len(sh) - 1)
            ELSE IF Len(sh) = 2 THEN BinomP(sh[1] + sh[2], sh[2]) - BinomP(sh[1] + sh[2], sh[2] - 1) ELSE -1
Removable(sh) == {r \in 1..Len(sh) : r = Len(sh) \/ sh[r] > sh[r + 1]}
RemoveBox(sh, r) == IF sh[r] = 1 THEN SubSeq(sh, 1, Len(sh) - 1) ELSE [sh EXCEPT ![r] = sh[r] - 1]
IsStandard(t) == /\ \A r \in 1..Len(t) : Len(t[r]) >= 1 /\ (r = 1 \/ Len(t[r - 1]) >= Len(t[r]))
                 /\ \A r \in 1..Len(t) : \A c \in 1..Len(t[r]) : /\ (c = 1 \/ t[r][c - 1] < t[r][c])
                                                                   /\ (r = 1 \/ t[r - 1][c] < t[r][c])
Labels(t) == UNION {{t[r][c] : c \in 1..Len(t[r])} : r \in 1..Len(t)}
IsSYT(t) == IsStandard(t) /\ Labels(t) = 0..(Size(t) - 1)
=============================================================================
