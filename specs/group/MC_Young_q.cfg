CONSTANTS NMax = 8
SPECIFICATION Spec
INVARIANT Branching
INVARIANT Standard
INVARIANT HookExact
