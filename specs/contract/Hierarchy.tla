-------------------------------- MODULE Hierarchy --------------------------------
(* The separability detection hierarchy of the README flowchart as a partial order of state classes, and what it implies.
   Classes (k = number of copies of B):
     CHA      convex hull of product states (inner approximation of SEP)
     SEP
     BOS(k)   k-bosonic-extendible        EXT(k)   k-symmetric-extendible
     BOSP(k), EXTP(k)  the same with the PPT constraint on the extension
     PUREB(k) reduced states of pure bosonic extensions with k copies (inner model)
     PPT, DM
   Inclusions:  CHA <= SEP <= BOSP(k+1) <= BOSP(k) <= BOS(k) <= EXT(k),  BOSP(k) <= EXTP(k) <= EXT(k),  EXT(k+1) <= EXT(k),
                BOS(k+1) <= BOS(k),  EXTP(k+1) <= EXTP(k),  EXTP(k) <= PPT <= DM,  EXT(1) = DM,  PUREB(k) <= BOS(k).
   From A <= B:  the boundary length along any ray satisfies beta_A <= beta_B, and every object produced by an inner model of
   class A is accepted by every membership test for a class B >= A. *)
EXTENDS Naturals, Sequences, SequencesExt, FiniteSets, TLC
CONSTANT KMax
Ks == 1..KMax
Cls(name, k) == <<name, k>>
Classes == {Cls("CHA", 0), Cls("SEP", 0), Cls("PPT", 0), Cls("DM", 0)} \cup {Cls(n, k) : n \in {"BOS", "EXT", "BOSP", "EXTP", "PUREB"}, k \in Ks}
Edge(a, b) ==      \* a is directly included in b
   \/ a = Cls("CHA", 0) /\ b = Cls("SEP", 0)
   \/ a = Cls("SEP", 0) /\ b = Cls("BOSP", KMax)
   \/ \E k \in Ks : \/ a = Cls("BOSP", k) /\ b = Cls("BOS", k)
                    \/ a = Cls("BOS", k) /\ b = Cls("EXT", k)
                    \/ a = Cls("BOSP", k) /\ b = Cls("EXTP", k)
                    \/ a = Cls("EXTP", k) /\ b = Cls("EXT", k)
                    \/ a = Cls("EXTP", k) /\ b = Cls("PPT", 0)
                    \/ a = Cls("PUREB", k) /\ b = Cls("BOS", k)
                    \/ (k < KMax /\ \E n \in {"BOS", "EXT", "BOSP", "EXTP"} : a = Cls(n, k + 1) /\ b = Cls(n, k))
   \/ a = Cls("PPT", 0) /\ b = Cls("DM", 0)
   \/ a = Cls("EXT", 1) /\ b = Cls("DM", 0)
\* reflexive-transitive closure by repeated squaring (5 squarings cover paths of length 32 > |Classes|); written as a fold so
\* that every intermediate relation is a concrete value (a recursive LET would be re-evaluated at each use)
\* TLCEval enumerates the set: membership in a lazily filtered set would re-evaluate the predicate recursively
SquareRel(rel) == TLCEval(rel \cup {ac \in Classes \X Classes : \E b \in Classes : <<ac[1], b>> \in rel /\ <<b, ac[2]>> \in rel})
Leq == FoldLeft(LAMBDA rel, i : SquareRel(rel), TLCEval({<<a, a>> : a \in Classes} \cup {ab \in Classes \X Classes : Edge(ab[1], ab[2])}), <<1, 2, 3, 4, 5>>)
Included(a, b) == <<a, b>> \in Leq
\* design checks: a partial order whose top is DM and whose bottom is CHA
IsPartialOrder == \A a, b \in Classes : (Included(a, b) /\ Included(b, a)) => a = b
TopBottom == \A a \in Classes : Included(a, Cls("DM", 0)) /\ (a[1] # "PUREB" => Included(Cls("CHA", 0), a))
=============================================================================
