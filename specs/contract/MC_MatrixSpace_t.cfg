CONSTANTS NSeeds = 8
NMax = 4
SPECIFICATION Spec
INVARIANT DimOK
INVARIANT PertOK
