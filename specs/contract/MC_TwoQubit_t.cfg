CONSTANTS WMax = 3
SPECIFICATION Spec
INVARIANT RangeOK
INVARIANT ZeroPatternOK
INVARIANT PTOK
INVARIANT TraceOK
INVARIANT XOK
