-------------------------------- MODULE SepCalculus --------------------------------
(* A calculus of how bipartite / multipartite states are BUILT, with exact data, and of the verdicts each class must get.
   An object is [dims, terms, prov] with terms a sequence of [w, vecs]: integer weight w > 0 and one Gaussian-integer
   vector per party; the object denotes   rho = sum_t w_t |a_t..z_t><a_t..z_t| / (sum_t w_t |a_t|^2...|z_t|^2).
   prov = "SEP" for every object built here: a convex mixture of product projectors is separable, and the class is closed
   under adding product terms, local unitaries and permutations of the parties.
   Certificates (integer identities evaluated per term - nothing is expanded into a big matrix):
     - partial transpose of |a,b><a,b| on party B is |a,conj b><a,conj b|   -> rho^Gamma is again such a mixture, hence PSD
     - Tr(rho SWAP) = sum_t w_t |<a_t|b_t>|^2 / norm >= 0
   Contract: every necessary criterion must answer PASS on prov = "SEP"; closed-form two-qubit measures must be finite
   and zero. *)
EXTENDS Ring, FiniteSets
GNorm2(v) == GSum([i \in 1..Len(v) |-> GMul(GConj(v[i]), v[i])])[1]
TermNorm(t) == FoldLeft(LAMBDA a, v : a * GNorm2(v), 1, t.vecs)
ObjNorm(o) == FoldLeft(LAMBDA a, t : a + t.w * TermNorm(t), 0, o.terms)
WellFormed(o) == /\ Len(o.terms) >= 1
                 /\ \A k \in 1..Len(o.terms) : /\ o.terms[k].w > 0 /\ Len(o.terms[k].vecs) = Len(o.dims)
                                               /\ \A p \in 1..Len(o.dims) : Len(o.terms[k].vecs[p]) = o.dims[p] /\ GNorm2(o.terms[k].vecs[p]) > 0
\* swap certificate (two parties of equal dimension): numerator of Tr(rho SWAP)
Ov2(u, v) == LET z == GSum([i \in 1..Len(u) |-> GMul(GConj(u[i]), v[i])]) IN z[1] * z[1] + z[2] * z[2]
SwapNum(o) == FoldLeft(LAMBDA a, t : a + t.w * Ov2(t.vecs[1], t.vecs[2]), 0, o.terms)
SwapCert(o) == (Len(o.dims) = 2 /\ o.dims[1] = o.dims[2]) => SwapNum(o) >= 0
\* local operations (exact on integer data)
ConjV(v) == [i \in 1..Len(v) |-> GConj(v[i])]
PermV(v, pi) == [i \in 1..Len(v) |-> v[pi[i]]]
PhaseV(v, ph) == [i \in 1..Len(v) |-> GMul(GIPow(ph[i]), v[i])]
LocalOn(o, p, pi, ph) == [o EXCEPT !.terms = [k \in 1..Len(o.terms) |-> [o.terms[k] EXCEPT !.vecs[p] = PhaseV(PermV(o.terms[k].vecs[p], pi), ph)]]]
SwapParties(o, p, q) == [dims |-> [i \in 1..Len(o.dims) |-> IF i = p THEN o.dims[q] ELSE IF i = q THEN o.dims[p] ELSE o.dims[i]],
                         terms |-> [k \in 1..Len(o.terms) |-> [o.terms[k] EXCEPT !.vecs = [i \in 1..Len(o.dims) |-> IF i = p THEN o.terms[k].vecs[q] ELSE IF i = q THEN o.terms[k].vecs[p] ELSE o.terms[k].vecs[i]]]],
                         prov |-> o.prov]
\* the contract: allowed results of the library's criteria for an object of provenance SEP
Criteria == {"is_ppt", "is_generalized_ppt", "check_reduction_witness", "check_swap_witness", "is_ABk_symmetric_ext", "is_ABk_symmetric_ext_boson"}
Measures == {"get_negativity", "get_concurrence_2qubit", "get_eof_2qubit", "get_gme_2qubit"}
AllowedVerdict(prov, crit, verdict) == prov = "SEP" => verdict = TRUE
AllowedMeasure(prov, m, finite, zero) == prov = "SEP" => (finite /\ zero)
=============================================================================
