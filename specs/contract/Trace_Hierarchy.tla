-------------------------------- MODULE Trace_Hierarchy --------------------------------
(* Validation of recorded boundary lengths and inner-model verdicts against the partial order of Hierarchy.tla.
   A trace is one ray: <<beta events...>> with beta given as integer units of 1e-7; it is accepted iff for every pair of
   measured classes A <= B:  beta_A <= beta_B + Tol.   `inner` events: an object produced by the inner model of class A
   was handed to the membership test of class B; if A <= B the verdict must be TRUE. *)
EXTENDS Hierarchy, Json, IOUtils
Traces == JsonDeserialize(IOEnv.TRACE_FILE)
VARIABLES tid
Tol == 500                       \* 5e-5: the SDP boundaries carry the solver's accuracy - the library documents 1e-5, on 3x3 systems with
                                 \* k = 3 the solver (which warns "solution may be inaccurate") was seen 2.3e-5 off; 2e-5 raised two false alarms
C(e) == Cls(e.cls, e.k)
\* slack: the documented resolution of the method that measured the SMALLER class (0 for the SDP / eigenvalue methods; the bisection
\* tolerance xtol plus the acceptance threshold of the convex-hull search, which reports points up to that far outside its hull)
RayOK(t) == \A i, j \in 1..Len(t) : (t[i].op = "beta" /\ t[j].op = "beta" /\ Included(C(t[i]), C(t[j]))) => t[i].value <= t[j].value + Tol + t[i].slack
InnerOK(t) == \A i \in 1..Len(t) : t[i].op = "inner" => (Included(Cls(t[i].cls, t[i].k), Cls(t[i].tcls, t[i].tk)) => t[i].verdict = TRUE)
Known(t) == \A i \in 1..Len(t) : (t[i].op = "beta" => C(t[i]) \in Classes) /\ (t[i].op = "inner" => Cls(t[i].cls, t[i].k) \in Classes /\ Cls(t[i].tcls, t[i].tk) \in Classes)
Init == tid = 1 /\ TLCSet(1, 0) /\ Assert(IsPartialOrder /\ TopBottom, "hierarchy is not a partial order")
Next == /\ tid <= Len(Traces)
        /\ IF Known(Traces[tid]) /\ RayOK(Traces[tid]) /\ InnerOK(Traces[tid]) THEN TLCSet(1, TLCGet(1) + 1) ELSE PrintT(<<"REJECT", tid, "ray">>)
        /\ tid' = tid + 1
Spec == Init /\ [][Next]_tid
Post == PrintT(<<"ACCEPTED", TLCGet(1), Len(Traces)>>)
=============================================================================
