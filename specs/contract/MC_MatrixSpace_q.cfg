CONSTANTS NSeeds = 3
NMax = 3
SPECIFICATION Spec
INVARIANT DimOK
INVARIANT PertOK
