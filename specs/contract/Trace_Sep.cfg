SPECIFICATION Spec
POSTCONDITION Post
