-------------------------------- MODULE Sim_Sep --------------------------------
(* tlc -simulate: random construction histories of separable states.  Each step draws ONE successor.  The structured
   families of the property (computational-basis products, repeated terms, nearly parallel vectors, pure products) are
   drawn with fixed probability. *)
EXTENDS SepCalculus, TLC
CONSTANT Depth
VARIABLES obj, hist
DimChoices == {<<2, 2>>, <<2, 3>>, <<3, 2>>, <<3, 3>>, <<2, 4>>, <<2, 2, 2>>, <<2, 3, 2>>}
\* All randomness enters through ONE integer per step (bound once by a singleton quantifier); everything else is a
\* deterministic function of it.  (A lazily evaluated RandomElement inside a function constructor is re-drawn at every access.)
Hh(s, a, b, c) == ModI(ModI(s * 7919 + a * 104729 + b * 1299709 + c * 15485863, 1000003), 5) - 2
RandVec(d, s, p) == [i \in 1..d |-> <<Hh(s, p, i, 1), Hh(s, p, i, 2)>>]
BasisVec(d, k) == [i \in 1..d |-> IF i = k THEN GOne ELSE GZero]
FixZero(v) == IF GNorm2(v) = 0 THEN [v EXCEPT ![1] = GOne] ELSE v
RandTerm(dims, s) == [w |-> ModI(s, 3) + 1, vecs |-> [p \in 1..Len(dims) |-> FixZero(RandVec(dims[p], s, p))]]
BasisTerm(dims, s) == [w |-> 1, vecs |-> [p \in 1..Len(dims) |-> BasisVec(dims[p], ModI(s \div (7 ^ p), dims[p]) + 1)]]
\* nearly parallel to an existing term: one component of one party changed by one unit
Nearly(t, dims, s) == LET p == ModI(s, Len(dims)) + 1  i == ModI(s \div 11, dims[p]) + 1 IN
                   [t EXCEPT !.vecs[p] = FixZero([t.vecs[p] EXCEPT ![i] = GAdd(t.vecs[p][i], GOne)])]
Seeds == 1..200000
Init == obj = [dims |-> <<>>, terms |-> <<>>, prov |-> "none"] /\ hist = <<>>
Start == obj.prov = "none" /\ \E s \in {RandomElement(Seeds)} : \E d \in {SetToSeq(DimChoices)[ModI(s, 7) + 1]} : \E t \in {IF ModI(s \div 7, 3) = 0 THEN BasisTerm(d, s) ELSE RandTerm(d, s)} :
           obj' = [dims |-> d, terms |-> <<t>>, prov |-> "SEP"] /\ hist' = <<"product">>
AddTerm == obj.prov = "SEP" /\ \E s \in {RandomElement(Seeds)} : \E c \in {ModI(s, 4) + 1} : \E k \in {ModI(s \div 4, Len(obj.terms)) + 1} :
           \E t \in {CASE c = 1 -> BasisTerm(obj.dims, s) [] c = 2 -> obj.terms[k]
                       [] c = 3 -> Nearly(obj.terms[k], obj.dims, s) [] OTHER -> RandTerm(obj.dims, s)} :
           obj' = [obj EXCEPT !.terms = Append(obj.terms, t)] /\ hist' = Append(hist, <<"mix", "basis", "repeat", "nearly", "random">>[c + 1])
Local == obj.prov = "SEP" /\ \E s \in {RandomElement(Seeds)} : \E p \in {ModI(s, Len(obj.dims)) + 1} :
         \E pi \in {RandomElement({f \in [1..obj.dims[p] -> 1..obj.dims[p]] : \A i, j \in 1..obj.dims[p] : i # j => f[i] # f[j]})} :
         \E ph \in {[i \in 1..obj.dims[p] |-> ModI(s \div (5 ^ i), 4)]} :
           obj' = LocalOn(obj, p, pi, ph) /\ hist' = Append(hist, "local_unitary")
Permute == obj.prov = "SEP" /\ Len(obj.dims) >= 2 /\ \E p \in {RandomElement(1..(Len(obj.dims) - 1))} :
           obj' = SwapParties(obj, p, p + 1) /\ hist' = Append(hist, "permute_parties")
Next == /\ Len(hist) < Depth
        /\ IF obj.prov = "none" THEN Start
           ELSE \E c \in {RandomElement(1..10)} : IF c <= 6 THEN AddTerm ELSE IF c <= 8 THEN Local ELSE Permute
Spec == Init /\ [][Next]_<<obj, hist>>
\* the class is closed under the construction steps and the certificates hold in every state
ClosedOK == obj.prov \in {"none", "SEP"}
WellOK == obj.prov = "SEP" => WellFormed(obj)
CertOK == obj.prov = "SEP" => SwapCert(obj)
=============================================================================
