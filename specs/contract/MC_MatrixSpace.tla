-------------------------------- MODULE MC_MatrixSpace --------------------------------
(* instances of every structure class: generators with small (Gaussian-)integer entries from a deterministic hash, made
   symmetric / Hermitian as the class requires, with planted linear dependencies (a sum and a repeated generator).
   The state carries generators, the expected label, the exact dimension of the span and the ambient dimension. *)
EXTENDS MatrixSpace, TLC
CONSTANTS NSeeds, NMax
VARIABLES cfg, obs
H(s, a, b, c) == ModI(ModI(s * 7919 + a * 104729 + b * 1299709 + c * 15485863, 1000003), 5) - 2
Raw(m, n, s, k, cplx) == [i \in 1..m |-> [j \in 1..n |-> <<H(s, k, i, j), IF cplx THEN H(s + 3, k, j, i) ELSE 0>>]]
Tr(M) == [j \in 1..Len(M[1]) |-> [i \in 1..Len(M) |-> M[i][j]]]
Dag(M) == [j \in 1..Len(M[1]) |-> [i \in 1..Len(M) |-> GConj(M[i][j])]]
Shape(cls, n, s) == IF cls \in {"R", "C", "R_c", "Cc"} THEN <<n, ModI(s, 2) + n>> ELSE <<n, n>>       \* non-square for the general classes
GenOf(cls, n, s, k) ==
   LET sh == Shape(cls, n, s)  cplx == cls \in {"C_H", "R_cT", "R_c", "C_Tc", "Cc"}  A == Raw(sh[1], sh[2], s, k, cplx) IN
   CASE cls \in {"R_T", "C_T", "R_cT", "C_Tc"} -> MAdd(A, Tr(A))
     [] cls = "C_H" -> MAdd(A, Dag(A))
     [] OTHER -> A
\* classes as (generator kind, requested field): C_T/C with real entries, C_Tc/Cc with complex entries
FieldOf(cls) == IF cls \in {"R", "R_T", "C_H", "R_cT", "R_c"} THEN "real" ELSE "complex"
Gens(cls, n, s, t) == LET base == [k \in 1..t |-> GenOf(cls, n, s, k)] IN
   base \o <<MAdd(base[1], IF t >= 2 THEN MScale(2, base[2]) ELSE base[1]), base[1]>>         \* planted dependencies
Configs == {[cls |-> c, n |-> n, s |-> s, t |-> t] : c \in {"R", "R_T", "C", "C_T", "C_H", "R_cT", "R_c", "C_Tc", "Cc", "R_T~", "C_H~"}, n \in 2..NMax, s \in 1..NSeeds, t \in 1..3}
\* NEARLY structured generators ("R_T~", "C_H~"): S_k + 2^-e K_k with S_k symmetric (Hermitian) and K_k antisymmetric (anti-Hermitian), not all
\* K_k zero, e = 20 or 30 (1e-6, 1e-9: far above the library's absolute threshold 1e-10).  They are NOT symmetric (Hermitian): the label is
\* the general one, and because Sym (+) Alt is a direct sum the dimension of the span is the rank of the stacked vectors (S_k, K_k).
IsPert(cls) == cls \in {"R_T~", "C_H~"}
BaseCls(cls) == IF cls = "R_T~" THEN "R_T" ELSE IF cls = "C_H~" THEN "C_H" ELSE cls
PertOf(cls, n, s, k) == LET A == Raw(n, n, s + 11, k, cls = "C_H~") IN IF cls = "R_T~" THEN MAdd(A, MScale(-1, Tr(A))) ELSE MAdd(A, MScale(-1, Dag(A)))
Perts(cls, n, s, t) == LET base == [k \in 1..t |-> PertOf(cls, n, s, k)] IN base \o <<MAdd(base[1], IF t >= 2 THEN MScale(2, base[2]) ELSE base[1]), base[1]>>
Stack(S, K) == [k \in 1..Len(S) |-> S[k] \o K[k]]                                        \* rows of S_k followed by rows of K_k: one vector per pair
LabelOf(mats, field) == Label(\E k \in 1..Len(mats) : ~IsReal(mats[k]), field, \A k \in 1..Len(mats) : IsSym(mats[k]), \A k \in 1..Len(mats) : IsHerm(mats[k]))
Init == /\ cfg \in Configs
        /\ IF ~IsPert(cfg.cls)
           THEN \E g \in {Gens(cfg.cls, cfg.n, cfg.s, cfg.t)} : \E lb \in {LabelOf(g, FieldOf(cfg.cls))} :
                  obs = [gens |-> g, pert |-> <<>>, e |-> 0, field |-> FieldOf(cfg.cls), label |-> lb, dim |-> SpanDim(lb, g), ambient |-> Ambient(lb, Len(g[1]), Len(g[1][1]))]
           ELSE \E g \in {Gens(BaseCls(cfg.cls), cfg.n, cfg.s, cfg.t)} : \E k \in {Perts(cfg.cls, cfg.n, cfg.s, cfg.t)} :
                \E lb \in {LabelOf([i \in 1..Len(g) |-> MAdd(g[i], k[i])], "real")} :
                  obs = [gens |-> g, pert |-> k, e |-> 20 + 10 * ModI(cfg.s, 2), field |-> "real", label |-> lb, dim |-> SpanDim(lb, Stack(g, k)), ambient |-> Ambient(lb, cfg.n, cfg.n)]
Next == UNCHANGED <<cfg, obs>>
Spec == Init /\ [][Next]_<<cfg, obs>>
DimOK == obs.dim >= 0 /\ obs.dim <= cfg.t /\ obs.dim <= obs.ambient
\* the perturbed families are what they claim: structured part, anti-structured part, the general label whenever some K_k is not zero
PertOK == IsPert(cfg.cls) =>
   /\ \A k \in 1..Len(obs.gens) : IF cfg.cls = "R_T~" THEN IsSym(obs.gens[k]) /\ obs.pert[k] = MScale(-1, Tr(obs.pert[k])) ELSE IsHerm(obs.gens[k]) /\ obs.pert[k] = MScale(-1, Dag(obs.pert[k]))
   /\ ((\E k \in 1..Len(obs.pert) : \E i, j \in 1..cfg.n : obs.pert[k][i][j] # GZero) => obs.label = (IF cfg.cls = "R_T~" THEN "R" ELSE "R_c"))
=============================================================================
