-------------------------------- MODULE MatrixSpace --------------------------------
(* Structured matrix subspaces as numqi.matrix_space.get_matrix_orthogonal_basis classifies them.
   Classes (label, scalar field, ambient dimension of the structured space of m x n matrices):
     R    real matrices over R                     m n          C    (real or complex) matrices over C            m n
     R_T  real symmetric over R                    n(n+1)/2     C_T  (real or complex) symmetric over C           n(n+1)/2
     C_H  complex Hermitian over R                 n^2          R_cT complex symmetric over R                     n(n+1)
     R_c  complex matrices over R                  2 m n
   The dimension of the span of integer / Gaussian-integer generators is computed exactly by fraction-free elimination
   (over Z for real scalars after realification, over Z[i] for complex scalars). *)
EXTENDS Ring, FiniteSets
Ambient(label, m, n) == CASE label = "R" -> m * n [] label = "C" -> m * n [] label = "R_T" -> (n * (n + 1)) \div 2 [] label = "C_T" -> (n * (n + 1)) \div 2
                          [] label = "C_H" -> n * n [] label = "R_cT" -> n * (n + 1) [] OTHER -> 2 * m * n
OverReals(label) == label \in {"R", "R_T", "C_H", "R_cT", "R_c"}
\* decision table: what the library must answer for (complex entries?, requested field, symmetric?, Hermitian?)
Label(iscomplex, field, sym, herm) ==
   IF ~iscomplex THEN (IF sym THEN (IF field = "real" THEN "R_T" ELSE "C_T") ELSE (IF field = "real" THEN "R" ELSE "C"))
   ELSE IF field = "real" /\ herm THEN "C_H" ELSE IF field = "real" /\ sym THEN "R_cT" ELSE IF field = "real" THEN "R_c"
   ELSE IF sym THEN "C_T" ELSE "C"
\* ---- exact rank.  Vectors are sequences of Gaussian integers <<re, im>>.
RECURSIVE IGcd(_, _)
IGcd(a, b) == IF b = 0 THEN a ELSE IGcd(b, a % b)
IAbs(x) == IF x < 0 THEN -x ELSE x
Content(v) == FoldLeft(LAMBDA g, z : IGcd(IGcd(g, IAbs(z[1])), IAbs(z[2])), 0, v)
Prim(v) == LET g == Content(v) IN IF g <= 1 THEN v ELSE [i \in 1..Len(v) |-> <<v[i][1] \div g, v[i][2] \div g>>]
IsZeroV(v) == \A i \in 1..Len(v) : v[i] = GZero
\* eliminate column c from row r with pivot row p:  r * p[c] - r[c] * p   (no division; content removed afterwards)
Elim(r, p, c) == Prim([i \in 1..Len(r) |-> GAdd(GMul(r[i], p[c]), GNeg(GMul(r[c], p[i])))])
RankStep(st, c) ==
   LET cand == {i \in 1..Len(st.rows) : st.rows[i][c] # GZero} IN
   IF cand = {} THEN st
   ELSE LET p == CHOOSE i \in cand : TRUE  piv == st.rows[p]
            rest == SelectSeq([i \in 1..Len(st.rows) |-> IF i = p THEN <<>> ELSE Elim(st.rows[i], piv, c)], LAMBDA v : v # <<>> /\ ~IsZeroV(v))
        IN [rows |-> rest, rank |-> st.rank + 1]
RankC(vecs) == IF vecs = <<>> THEN 0 ELSE
   FoldLeft(RankStep, [rows |-> SelectSeq(vecs, LAMBDA v : ~IsZeroV(v)), rank |-> 0], [c \in 1..Len(vecs[1]) |-> c]).rank
Realify(v) == [i \in 1..(2 * Len(v)) |-> IF i <= Len(v) THEN <<v[i][1], 0>> ELSE <<v[i - Len(v)][2], 0>>]
RankR(vecs) == RankC([k \in 1..Len(vecs) |-> Realify(vecs[k])])
Flatten(M) == FoldLeft(LAMBDA acc, row : acc \o row, <<>>, M)
SpanDim(label, mats) == IF OverReals(label) THEN RankR([k \in 1..Len(mats) |-> Flatten(mats[k])]) ELSE RankC([k \in 1..Len(mats) |-> Flatten(mats[k])])
\* matrix rank (over C) of one Gaussian-integer matrix
MatRank(M) == RankC(M)
IsSym(M) == \A i, j \in 1..Len(M) : Len(M) = Len(M[1]) /\ M[i][j] = M[j][i]
IsHerm(M) == \A i, j \in 1..Len(M) : Len(M) = Len(M[1]) /\ M[i][j] = GConj(M[j][i])
IsReal(M) == \A i \in 1..Len(M) : \A j \in 1..Len(M[1]) : M[i][j][2] = 0
MAdd(A, B) == [i \in 1..Len(A) |-> [j \in 1..Len(A[1]) |-> GAdd(A[i][j], B[i][j])]]
MScale(k, A) == [i \in 1..Len(A) |-> [j \in 1..Len(A[1]) |-> GScale(k, A[i][j])]]
=============================================================================
