-------------------------------- MODULE MC_Boundary --------------------------------
(* Rays with exactly known spectra.  A direction is a Hermitian matrix Delta = rho - I/N given through the spectrum of rho
   and of its partial transpose (eigenvalue, multiplicity).  Along  rho(beta) = I/N + beta Delta / |Delta|_GM,
   |Delta|_GM^2 = Tr(Delta^2)/2, the state-space boundary is  beta_DM = |Delta| / (N |lambda_min(Delta)|)  and the PPT boundary
   the same with the partial-transpose spectrum (the Gell-Mann norm is invariant under partial transposition).  All squares
   are rational.  Families: diagonal integer states, Werner, isotropic, Bell-diagonal, a Bell pair embedded in rectangular dimensions. *)
EXTENDS Rat, FiniteSets, TLC
VARIABLES cfg, obs
Spec2(spec) == spec            \* sequence of <<eigenvalue (rational), multiplicity>>
NOf(spec) == FoldLeft(LAMBDA a, e : a + e[2], 0, spec)
Shifted(spec) == LET N == NOf(spec) IN [i \in 1..Len(spec) |-> <<RSub(spec[i][1], R(1, N)), spec[i][2]>>]
Norm2(spec) == RDiv(RSum([i \in 1..Len(spec) |-> RMul(RFromInt(Shifted(spec)[i][2]), RMul(Shifted(spec)[i][1], Shifted(spec)[i][1]))]), RFromInt(2))
RLess(a, b) == RIsNeg(RSub(a, b))
MinEig(spec) == LET s == Shifted(spec) IN CHOOSE x \in {s[i][1] : i \in 1..Len(s)} : \A i \in 1..Len(s) : ~RLess(s[i][1], x)
\* beta_u^2 = |Delta|^2 / (N^2 lambda_min^2)
BetaU2(spec) == RDiv(Norm2(spec), RMul(RFromInt(NOf(spec) * NOf(spec)), RMul(MinEig(spec), MinEig(spec))))
WernerSpec(d, a) == LET den == RSub(RFromInt(d * d), RMul(RFromInt(d), a)) IN
   [dm |-> <<<<RDiv(RSub(ROne, a), den), (d * (d + 1)) \div 2>>, <<RDiv(RAdd(ROne, a), den), (d * (d - 1)) \div 2>>>>,
    pt |-> <<<<RDiv(RSub(ROne, RMul(a, RFromInt(d))), den), 1>>, <<RDiv(ROne, den), d * d - 1>>>>]
IsoSpec(d, a) == [dm |-> <<<<RAdd(RDiv(RSub(ROne, a), RFromInt(d * d)), a), 1>>, <<RDiv(RSub(ROne, a), RFromInt(d * d)), d * d - 1>>>>,
                  pt |-> <<<<RAdd(RDiv(RSub(ROne, a), RFromInt(d * d)), RDiv(a, RFromInt(d))), (d * (d + 1)) \div 2>>,
                           <<RSub(RDiv(RSub(ROne, a), RFromInt(d * d)), RDiv(a, RFromInt(d))), (d * (d - 1)) \div 2>>>>]
BellSpec(n) == LET N == n[1] + n[2] + n[3] + n[4] IN
   [dm |-> [k \in 1..4 |-> <<R(n[k], N), 1>>], pt |-> [k \in 1..4 |-> <<RSub(R(1, 2), R(n[k], N)), 1>>]]
DiagSpec(w) == LET N == FoldLeft(LAMBDA a, x : a + x, 0, w) IN [dm |-> [k \in 1..Len(w) |-> <<R(w[k], N), 1>>], pt |-> [k \in 1..Len(w) |-> <<R(w[k], N), 1>>]]
Configs == {[fam |-> "Werner", d |-> d, a |-> a, w |-> <<>>] : d \in 2..3, a \in {R(-1, 1), R(-1, 2), R(1, 3), R(3, 4), R(1, 1)}}
           \cup {[fam |-> "Isotropic", d |-> d, a |-> a, w |-> <<>>] : d \in 2..3, a \in {R(-1, 10), R(1, 5), R(1, 2), R(9, 10), R(1, 1)}}
           \cup {[fam |-> "EmbBell", d |-> d, a |-> a, w |-> <<>>] : d \in {23, 32, 24, 33}, a \in {R(1, 10), R(1, 2), R(9, 10)}}
           \cup {[fam |-> "Bell", d |-> 2, a |-> RZero, w |-> w] : w \in {<<3, 1, 0, 0>>, <<5, 1, 1, 1>>, <<1, 1, 1, 0>>, <<7, 2, 1, 0>>, <<2, 1, 1, 0>>}}
           \cup {[fam |-> "Diag", d |-> 0, a |-> RZero, w |-> w] : w \in {<<3, 1, 0, 0>>, <<1, 2, 3, 4>>, <<1, 0, 0, 0, 0, 2>>, <<2, 2, 1, 1, 1, 1, 0, 0>>, <<5, 1, 1, 1, 1, 0, 0, 0, 0>>}}
\* a Bell pair embedded in rectangular local dimensions: rho = (1-p) I/N + p |psi><psi|, |psi> = (|00> + |11>)/sqrt2 in C^dA (x) C^dB
\* (d = 10 dA + dB).  The partial transpose of the projector has the eigenvalues 1/2 (x3), -1/2 (x1) and 0 (x N-4).
EmbSpec(d, p) == LET N == (d \div 10) * (d % 10)  base == RDiv(RSub(ROne, p), RFromInt(N))  half == RDiv(p, RFromInt(2)) IN
   [dm |-> <<<<RAdd(base, p), 1>>, <<base, N - 1>>>>,
    pt |-> <<<<RAdd(base, half), 3>>, <<RSub(base, half), 1>>, <<base, N - 4>>>>]
SpecOf(c) == CASE c.fam = "EmbBell" -> EmbSpec(c.d, c.a) [] c.fam = "Werner" -> WernerSpec(c.d, c.a) [] c.fam = "Isotropic" -> IsoSpec(c.d, c.a) [] c.fam = "Bell" -> BellSpec(c.w) [] OTHER -> DiagSpec(c.w)
RMin(a, b) == IF RLess(a, b) THEN a ELSE b
Init == cfg \in Configs /\ \E s \in {SpecOf(cfg)} : obs = [N |-> NOf(s.dm), norm2 |-> Norm2(s.dm), dm2 |-> BetaU2(s.dm), pt2 |-> RMin(BetaU2(s.dm), BetaU2(s.pt)), ptonly2 |-> BetaU2(s.pt)]      \* ptonly2: threshold of the partial transpose alone (within_dm=False)
Next == UNCHANGED <<cfg, obs>>
Spec == Init /\ [][Next]_<<cfg, obs>>
\* both spectra describe trace-one operators of the same Frobenius norm, and the PPT boundary lies inside the state space
SpecOK == LET s == SpecOf(cfg) IN
   /\ RSum([i \in 1..Len(s.dm) |-> RMul(RFromInt(s.dm[i][2]), s.dm[i][1])]) = ROne
   /\ RSum([i \in 1..Len(s.pt) |-> RMul(RFromInt(s.pt[i][2]), s.pt[i][1])]) = ROne
   /\ Norm2(s.dm) = Norm2(s.pt) /\ NOf(s.dm) = NOf(s.pt)
   /\ ~RLess(obs.dm2, obs.pt2)
=============================================================================
