CONSTANTS NSeeds = 12
NDetect = 1000
SPECIFICATION Spec
INVARIANT InSpanOK
INVARIANT RankOK
INVARIANT IndepOK
