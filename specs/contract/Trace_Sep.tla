-------------------------------- MODULE Trace_Sep --------------------------------
(* Contract validation of recorded evaluations (code -> spec).  A trace is
     <<object, evaluation, evaluation, ...>>
   `object` carries the exact construction data; TLC itself establishes the provenance:
     - {op: "object", dims, terms}  is accepted iff it is a well-formed mixture of product projectors  -> prov SEP
     - {op: "family", fam, d, num, den}: Werner / Isotropic state with rational parameter -> prov NPT or PPT-separable by the
       exact threshold (alpha <= 1/d resp. alpha <= 1/(d+1) : separable, else NPT)
   An evaluation event is enabled iff its result is allowed for the provenance. *)
EXTENDS SepCalculus, Rat, TLC, Json, IOUtils
Traces == JsonDeserialize(IOEnv.TRACE_FILE)
VARIABLES tid, l, prov
Ev == Traces[tid][l]
FamSep(e) == IF e.fam = "Werner" THEN ~RIsNeg(RSub(R(1, e.d), R(e.num, e.den))) ELSE ~RIsNeg(RSub(R(1, e.d + 1), R(e.num, e.den)))
EvObject == Ev.op = "object" /\ WellFormed([dims |-> Ev.dims, terms |-> Ev.terms, prov |-> "SEP"]) /\ prov' = "SEP"
EvFamily == Ev.op = "family" /\ prov' = (IF FamSep(Ev) THEN "SEP" ELSE "NPT")
\* SEP: every necessary criterion passes.  NPT (of these two families): the PPT test must fail, negativity and the swap
\* witness (Werner) must detect it; criteria whose power on the family is not an exact theorem are unconstrained there.
EvVerdict == /\ Ev.op = "verdict" /\ prov \in {"SEP", "NPT"} /\ UNCHANGED prov
             /\ prov = "SEP" => Ev.value = TRUE
             /\ (prov = "NPT" /\ Ev.crit \in {"is_ppt", "check_swap_witness_werner"}) => Ev.value = FALSE
EvMeasure == /\ Ev.op = "measure" /\ prov \in {"SEP", "NPT"} /\ UNCHANGED prov
             /\ Ev.finite
             /\ prov = "SEP" => Ev.zero
             /\ prov = "NPT" => ~Ev.zero
Step == EvObject \/ EvFamily \/ EvVerdict \/ EvMeasure
Init == tid = 1 /\ l = 1 /\ prov = "none" /\ TLCSet(1, 0)
Consume == l <= Len(Traces[tid]) /\ Step /\ l' = l + 1 /\ tid' = tid
Finish == /\ l = Len(Traces[tid]) + 1 /\ TLCSet(1, TLCGet(1) + 1)
          /\ tid < Len(Traces) /\ tid' = tid + 1 /\ l' = 1 /\ prov' = "none"
Stuck == /\ l <= Len(Traces[tid]) /\ ~ENABLED Step /\ PrintT(<<"REJECT", tid, l, Ev.op>>)
         /\ tid < Len(Traces) /\ tid' = tid + 1 /\ l' = 1 /\ prov' = "none"
Next == Consume \/ Finish \/ Stuck
Spec == Init /\ [][Next]_<<tid, l, prov>>
Post == PrintT(<<"ACCEPTED", TLCGet(1), Len(Traces)>>)
=============================================================================
