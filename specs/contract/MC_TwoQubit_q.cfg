CONSTANTS WMax = 2
SPECIFICATION Spec
INVARIANT RangeOK
INVARIANT ZeroPatternOK
INVARIANT PTOK
INVARIANT TraceOK
INVARIANT XOK
