SPECIFICATION Spec
POSTCONDITION Post
