CONSTANTS NSeeds = 3
NDetect = 150
SPECIFICATION Spec
INVARIANT InSpanOK
INVARIANT RankOK
INVARIANT IndepOK
