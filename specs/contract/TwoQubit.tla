-------------------------------- MODULE TwoQubit --------------------------------
(* Exactly solvable two-qubit families.
   Bell-diagonal states  rho = sum_k p_k |beta_k><beta_k|,  p_k = n_k / N  (integers), in the computational basis
       rho = 1/(2N) [[n0+n1, 0, 0, n0-n1], [0, n2+n3, n2-n3, 0], [0, n2-n3, n2+n3, 0], [n0-n1, 0, 0, n0+n1]]
   conjugated by local phased permutations (exact).  Closed forms (invariant under local unitaries):
       concurrence C = max(0, 2 p_max - 1),  negativity = max(0, p_max - 1/2),  NPT <=> p_max > 1/2.
   Pure states psi = (a,b,c,d) Gaussian integers:  C = 2|ad - bc| / |psi|^2. *)
EXTENDS Ring, Rat, FiniteSets
MaxOf(s) == CHOOSE x \in {s[i] : i \in 1..Len(s)} : \A i \in 1..Len(s) : s[i] <= x
BellRho2N(n) == <<<<n[1] + n[2], 0, 0, n[1] - n[2]>>, <<0, n[3] + n[4], n[3] - n[4], 0>>, <<0, n[3] - n[4], n[3] + n[4], 0>>, <<n[1] - n[2], 0, 0, n[1] + n[2]>>>>   \* times 2N
NTot(n) == n[1] + n[2] + n[3] + n[4]
BellC(n) == LET m == MaxOf(n)  N == NTot(n) IN IF 2 * m > N THEN R(2 * m - N, N) ELSE RZero
BellNeg(n) == LET m == MaxOf(n)  N == NTot(n) IN IF 2 * m > N THEN R(2 * m - N, 2 * N) ELSE RZero
BellNPT(n) == 2 * MaxOf(n) > NTot(n)
\* local unitaries: single-qubit phased permutations  U = P_pi diag(i^ph);  code <<pi (0/1 = identity/swap), ph0, ph1>>
LU1(c) == [r \in 1..2 |-> [k \in 1..2 |-> IF (IF c[1] = 0 THEN r = k ELSE r # k) THEN GIPow(c[1 + k]) ELSE GZero]]
Conjugate(M, U) == GMatMul(GMatMul(U, M), GDagger(U))
ToG(M) == [r \in 1..Len(M) |-> [c \in 1..Len(M) |-> <<M[r][c], 0>>]]
\* partial transpose on the second qubit of a 4x4 Gaussian-integer matrix
PT4(M) == [r \in 1..4 |-> [c \in 1..4 |-> M[((r - 1) \div 2) * 2 + ((c - 1) % 2) + 1][((c - 1) \div 2) * 2 + ((r - 1) % 2) + 1]]]
\* X states: rho = 1/N [[s1^2, 0, 0, w], [0, s2^2, z, 0], [0, conj z, s3^2, 0], [conj w, 0, 0, s4^2]],  N = sum s_i^2, with w, z on the real or
\* imaginary axis (so |w|, |z| are integers).  rho >= 0 iff |w| <= s1 s4 and |z| <= s2 s3.  Closed forms (Yu-Eberly):
\*     C = 2 max(0, |w| - s2 s3, |z| - s1 s4) / N,      NPT  <=>  |w| > s2 s3  or  |z| > s1 s4   <=>  C > 0.
\* X states are not local-unitarily equivalent to Bell-diagonal states in general (their marginals are not maximally mixed).
AxAbs(w) == (IF w[1] < 0 THEN -w[1] ELSE w[1]) + (IF w[2] < 0 THEN -w[2] ELSE w[2])
XN(sq) == sq[1] * sq[1] + sq[2] * sq[2] + sq[3] * sq[3] + sq[4] * sq[4]
XRho(sq, w, z) == <<<<<<sq[1] * sq[1], 0>>, GZero, GZero, w>>, <<GZero, <<sq[2] * sq[2], 0>>, z, GZero>>,
                    <<GZero, GConj(z), <<sq[3] * sq[3], 0>>, GZero>>, <<GConj(w), GZero, GZero, <<sq[4] * sq[4], 0>>>>>>      \* times N
XValid(sq, w, z) == XN(sq) > 0 /\ (w[1] = 0 \/ w[2] = 0) /\ (z[1] = 0 \/ z[2] = 0) /\ AxAbs(w) <= sq[1] * sq[4] /\ AxAbs(z) <= sq[2] * sq[3]
Max3(a, b, c) == IF a >= b /\ a >= c THEN a ELSE IF b >= c THEN b ELSE c
XC(sq, w, z) == R(2 * Max3(0, AxAbs(w) - sq[2] * sq[3], AxAbs(z) - sq[1] * sq[4]), XN(sq))
XNPT(sq, w, z) == AxAbs(w) > sq[2] * sq[3] \/ AxAbs(z) > sq[1] * sq[4]
\* pure states
PureC2(psi) == LET det == GAdd(GMul(psi[1], psi[4]), GNeg(GMul(psi[2], psi[3])))
                   n2 == GSum([i \in 1..4 |-> GMul(GConj(psi[i]), psi[i])])[1]
               IN R(4 * (det[1] * det[1] + det[2] * det[2]), n2 * n2)          \* C^2
=============================================================================
