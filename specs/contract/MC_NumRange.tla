-------------------------------- MODULE MC_NumRange --------------------------------
(* Numerical range W(A) = { x^dagger A x : |x| = 1 } and its support function
        h_A(theta) = max Re( e^{i theta} z ),  z in W(A)   =   lambda_max( (e^{i theta} A + e^{-i theta} A^dagger) / 2 ).
   numqi.matrix_space.get_matrix_numerical_range(A, num_point) returns one point of W(A) per direction theta_j on a uniform
   grid; the property requires that point to attain the support function in its direction.

   The model enumerates every 2x2 Gaussian-integer block [[p,q],[r,s]] with |re|+|im| <= 2 per entry whose support function
   is RATIONAL in the four axis directions theta = k pi/2 (discriminant of the 2x2 Hermitian part a perfect square) and
   builds matrices of size 2, 3, 5, 6 as direct sums of such blocks and scalars; the support function of a direct sum is the
   maximum of the parts.  sup4[k] is 4 h_A(k pi/2) (an integer).  Invariants certify each value: it is a root of the
   characteristic polynomial of the Hermitian part of a block and not below the other root. *)
EXTENDS Ring, Integers, FiniteSets, Sequences, TLC
VARIABLES shape, B1, B2, c, sup4
E == {z \in (-2..2) \X (-2..2) : (IF z[1] < 0 THEN -z[1] ELSE z[1]) + (IF z[2] < 0 THEN -z[2] ELSE z[2]) <= 2}
IPow(k, z) == CASE k = 0 -> z [] k = 1 -> <<-z[2], z[1]>> [] k = 2 -> <<-z[1], -z[2]>> [] OTHER -> <<z[2], -z[1]>>
\* twice the Hermitian part of i^k [[p,q],[r,s]] :  [[a, b], [conj b, d]]
HA(k, B) == 2 * IPow(k, B[1])[1]
HD(k, B) == 2 * IPow(k, B[4])[1]
HB(k, B) == GAdd(IPow(k, B[2]), GConj(IPow(k, B[3])))
Disc(k, B) == (HA(k, B) - HD(k, B)) * (HA(k, B) - HD(k, B)) + 4 * (HB(k, B)[1] * HB(k, B)[1] + HB(k, B)[2] * HB(k, B)[2])
IsSq(d) == \E t \in 0..12 : t * t = d
Root(d) == CHOOSE t \in 0..12 : t * t = d
Nice(B) == IsSq(Disc(0, B)) /\ IsSq(Disc(1, B))
\* 2 lambda_max(2H) = a + d + sqrt(disc); h = lambda_max(2H) / 2  =>  4 h = a + d + sqrt(disc)
BlockSup4(k, B) == HA(k, B) + HD(k, B) + Root(Disc(k, B))
ScalSup4(k, z) == 4 * IPow(k, z)[1]
MaxI(a, b) == IF a >= b THEN a ELSE b
Sup4(sh, b1, b2, z) == [k \in 0..3 |->
    CASE sh = "2" -> BlockSup4(k, b1)
      [] sh \in {"3a", "3b", "3c"} -> MaxI(BlockSup4(k, b1), ScalSup4(k, z))
      [] sh = "5" -> MaxI(MaxI(BlockSup4(k, b1), BlockSup4(k, b2)), ScalSup4(k, z))
      [] OTHER -> MaxI(MaxI(BlockSup4(k, b1), BlockSup4(k, b2)), MaxI(ScalSup4(k, z), ScalSup4(k, GConj(z))))]
NonNormal(B) == B[2] # GZero \/ B[3] # GZero
Companion(B) == <<IPow(1, B[1]), IPow(1, B[3]), IPow(1, B[2]), IPow(1, B[4])>>      \* i B^T : a second nice block, h(theta) = h_B(theta + pi/2)
Scalars == {<<0, 0>>, <<2, 0>>, <<-1, 2>>, <<1, -1>>, <<0, -3>>}
Init == /\ B1 \in {b \in E \X E \X E \X E : Nice(b)}
        /\ \/ shape = "2" /\ B2 = B1 /\ c = GZero
           \/ /\ NonNormal(B1) /\ B1[1] = GZero /\ shape \in {"3a", "3b", "3c", "5", "6"} /\ B2 = Companion(B1) /\ c \in Scalars
        /\ sup4 = Sup4(shape, B1, B2, c)
Next == UNCHANGED <<shape, B1, B2, c, sup4>>
Spec == Init /\ [][Next]_<<shape, B1, B2, c, sup4>>
\* ---- certificates.  With x = 4h - (a + d) the value lambda = (a + d + x)/2 is an eigenvalue of 2H iff x^2 = disc, the largest iff x >= 0.
BlockCert(k, B) == LET x == BlockSup4(k, B) - HA(k, B) - HD(k, B) IN x >= 0 /\ x * x = Disc(k, B)
CertOK == Nice(B1) /\ Nice(B2) /\ \A k \in 0..3 : BlockCert(k, B1) /\ BlockCert(k, B2)
\* h(theta) + h(theta + pi) >= 0 (width of a convex body) and h(theta) >= Re(e^{i theta} tr A / n) (the barycentre of the spectrum lies in W)
WidthOK == \A k \in 0..1 : sup4[k] + sup4[k + 2] >= 0
TraceOK == shape = "2" => \A k \in 0..3 : 2 * sup4[k] >= 4 * (IPow(k, B1[1])[1] + IPow(k, B1[4])[1])
=============================================================================
