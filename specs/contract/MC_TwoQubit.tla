-------------------------------- MODULE MC_TwoQubit --------------------------------
(* X states with squared-integer populations and axis coherences (exact Yu-Eberly concurrence), and
   Bell-diagonal weights on an integer grid (incl. boundary, separable-threshold and near-threshold states), two local
   phased permutations; pure states with small Gaussian-integer amplitudes.  Invariants: the closed forms lie in their
   ranges, C > 0 <=> negativity > 0 <=> NPT, and the partial transpose of the (real) Bell-diagonal matrix is positive
   semidefinite exactly when p_max <= 1/2 (exact LDL^T). *)
EXTENDS TwoQubit, TLC
CONSTANTS WMax
\* boundary (rank-deficient), threshold (p_max = 1/2) and near-threshold weights
Thresh == {<<1000, 999, 1, 0>>, <<1001, 999, 0, 0>>, <<1, 1, 0, 0>>, <<3, 1, 1, 1>>, <<5, 1, 1, 1>>, <<1, 0, 0, 0>>}
VARIABLES cfg, obs
Weights == {n \in [1..4 -> 0..WMax] : NTot(n) > 0} \cup Thresh
LUs == {<<0, 0, 0>>, <<1, 0, 1>>, <<0, 1, 3>>, <<1, 2, 1>>}
Amps == {<<a, b>> : a \in -1..1, b \in -1..1}
Pures == {p \in [1..4 -> Amps] : \E i \in 1..4 : p[i] # <<0, 0>>}
Axis == {<<k, 0>> : k \in -4..4} \cup {<<0, k>> : k \in -4..4}
XCfgs == {c \in [kind : {"xstate"}, n : [1..4 -> 0..2], ua : {<<0, 0, 0>>, <<1, 0, 1>>}, ub : {<<0, 0, 0>>, <<0, 1, 3>>}, w : Axis, z : Axis] : XValid(c.n, c.w, c.z)}
Init == \/ /\ cfg \in XCfgs
           /\ \E M \in {Conjugate(XRho(cfg.n, cfg.w, cfg.z), GKron(LU1(cfg.ua), LU1(cfg.ub)))} :
                obs = [rho |-> M, den |-> XN(cfg.n), c |-> XC(cfg.n, cfg.w, cfg.z), neg |-> RZero, npt |-> XNPT(cfg.n, cfg.w, cfg.z), c2 |-> RZero]
        \/ /\ cfg \in [kind : {"bell"}, n : Weights, ua : LUs, ub : LUs]
           /\ \E M \in {Conjugate(ToG(BellRho2N(cfg.n)), GKron(LU1(cfg.ua), LU1(cfg.ub)))} :
                obs = [rho |-> M, den |-> 2 * NTot(cfg.n), c |-> BellC(cfg.n), neg |-> BellNeg(cfg.n), npt |-> BellNPT(cfg.n), c2 |-> RZero]
        \/ /\ cfg \in [kind : {"pure"}, n : {<<0, 0, 0, 0>>}, ua : {<<0, 0, 0>>}, ub : Pures]
           /\ obs = [rho |-> <<>>, den |-> 1, c |-> RZero, neg |-> RZero, npt |-> FALSE, c2 |-> PureC2(cfg.ub)]
Next == UNCHANGED <<cfg, obs>>
Spec == Init /\ [][Next]_<<cfg, obs>>
RangeOK == /\ ~RIsNeg(obs.c) /\ ~RIsNeg(RSub(ROne, obs.c)) /\ ~RIsNeg(obs.neg) /\ ~RIsNeg(RSub(R(1, 2), obs.neg))
           /\ ~RIsNeg(obs.c2) /\ ~RIsNeg(RSub(ROne, obs.c2))
ZeroPatternOK == cfg.kind = "bell" => ((~RIsZero(obs.c)) <=> obs.npt) /\ ((~RIsZero(obs.neg)) <=> obs.npt)
PTOK == cfg.kind = "bell" => (IsPSD([r \in 1..4 |-> [c \in 1..4 |-> R(PT4(BellRho2N(cfg.n))[r][c], 2 * NTot(cfg.n))]]) <=> ~obs.npt)
TraceOK == cfg.kind \in {"bell", "xstate"} => GTrace(obs.rho) = <<obs.den, 0>> /\ GDagger(obs.rho) = obs.rho
\* X states: C > 0 <=> NPT; for real w, z the (real symmetric) matrix and its partial transpose are decided by the exact LDL^T
XOK == cfg.kind = "xstate" => /\ ((~RIsZero(obs.c)) <=> obs.npt)
                              /\ (cfg.w[2] = 0 /\ cfg.z[2] = 0) =>
                                   LET M == XRho(cfg.n, cfg.w, cfg.z)  N == XN(cfg.n)
                                       Re(A) == [r \in 1..4 |-> [k \in 1..4 |-> R(A[r][k][1], N)]] IN
                                   IsPSD(Re(M)) /\ (IsPSD(Re(PT4(M))) <=> ~obs.npt)
=============================================================================
