CONSTANTS KMax = 4
SPECIFICATION Spec
POSTCONDITION Post
