SPECIFICATION Spec
INVARIANT CertOK
INVARIANT WidthOK
INVARIANT TraceOK
