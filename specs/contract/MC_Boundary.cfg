SPECIFICATION Spec
INVARIANT SpecOK
