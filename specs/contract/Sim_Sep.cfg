CONSTANTS Depth = 9
SPECIFICATION Spec
INVARIANT ClosedOK
INVARIANT WellOK
INVARIANT CertOK
