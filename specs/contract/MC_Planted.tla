-------------------------------- MODULE MC_Planted --------------------------------
(* Subspaces with a PLANTED low-rank element, hidden by a unimodular change of basis.
   bipartite (real or complex, dA x dB matrices):  G1 = P = sum of r-1 integer outer products (rank exactly r-1), G2, G3 random;
        B1 = G1 + G2,  B2 = G2 + G3,  B3 = G1 + G2 + G3      so that   P = B3 - B2   lies in the span of B.
   tripartite (vectors of C^dA (x) C^dB (x) C^dC):  P = a (x) b (x) c planted the same way.
   Provenance invariants (checked by TLC): the B are linearly independent, P = B3 - B2, and rank(P) = r-1 exactly
   (tripartite: P has rank one across both bipartitions A|BC and AB|C).  Contract: a certificate "every non-zero element has
   rank >= r" / "no rank-one element" / "completely entangled" must NOT be issued for such a subspace. *)
EXTENDS MatrixSpace, TLC
CONSTANTS NSeeds, NDetect      \* NDetect: extra real 3x3 instances with a planted rank-one element for the rank-one detector
VARIABLES cfg, obs
H(s, a, b, c) == ModI(ModI(s * 7919 + a * 104729 + b * 1299709 + c * 15485863, 1000003), 5) - 2
Hn(s, a, b, c) == LET x == H(s, a, b, c) IN IF x = 0 THEN 1 ELSE x
RandM(m, n, s, k, cplx) == [i \in 1..m |-> [j \in 1..n |-> <<H(s, k, i, j), IF cplx THEN H(s + 7, k, j, i) ELSE 0>>]]
Outer(u, v) == [i \in 1..Len(u) |-> [j \in 1..Len(v) |-> GMul(u[i], v[j])]]
Vec(d, s, k, cplx) == [i \in 1..d |-> <<Hn(s, k, i, 9), IF cplx THEN H(s + 11, k, i, 9) ELSE 0>>]
\* r-1 outer products with supports chosen so that the rank is exactly r-1: u_k has a leading unit in position k
UnitLead(v, k) == [i \in 1..Len(v) |-> IF i < k THEN GZero ELSE IF i = k THEN GOne ELSE v[i]]
Planted(m, n, r, s, cplx) == FoldLeft(LAMBDA acc, k : MAdd(acc, Outer(UnitLead(Vec(m, s, k, cplx), k), UnitLead(Vec(n, s, k + 20, cplx), k))),
                                      [i \in 1..m |-> [j \in 1..n |-> GZero]], [k \in 1..(r - 1) |-> k])
Hide(G) == <<MAdd(G[1], G[2]), MAdd(G[2], G[3]), MAdd(MAdd(G[1], G[2]), G[3])>>
MSub(A, B) == MAdd(A, MScale(-1, B))
\* tripartite: tensors as dA x (dB*dC) matrices
Kron1(a, b) == [x \in 1..(Len(a) * Len(b)) |-> GMul(a[((x - 1) \div Len(b)) + 1], b[((x - 1) % Len(b)) + 1])]
ReshapeABtoC(M, dA, dB, dC) == [x \in 1..(dA * dB) |-> [c \in 1..dC |-> M[((x - 1) \div dB) + 1][((x - 1) % dB) * dC + c]]]
Configs == {[kind |-> k, dims |-> d, r |-> r, s |-> s] : k \in {"real", "complex"}, d \in {<<3, 3>>, <<3, 4>>, <<4, 4>>, <<4, 5>>}, r \in 2..3, s \in 1..NSeeds}
           \cup {[kind |-> "real", dims |-> <<3, 3>>, r |-> 2, s |-> s] : s \in 1..NDetect}
           \cup {[kind |-> k, dims |-> d, r |-> 2, s |-> s] : k \in {"tri-real", "tri-complex"}, d \in {<<2, 2, 2>>, <<2, 2, 3>>, <<2, 3, 2>>, <<3, 2, 2>>}, s \in 1..NSeeds}
Init == /\ cfg \in Configs
        /\ LET cplx == cfg.kind \in {"complex", "tri-complex"} IN
           IF Len(cfg.dims) = 2
           THEN \E P \in {Planted(cfg.dims[1], cfg.dims[2], cfg.r, cfg.s, cplx)} :
                \E B \in {Hide(<<P, RandM(cfg.dims[1], cfg.dims[2], cfg.s, 2, cplx), RandM(cfg.dims[1], cfg.dims[2], cfg.s, 3, cplx)>>)} :
                  obs = [B |-> B, P |-> P, prank |-> MatRank(P), indep |-> SpanDim("C", B), prank2 |-> 0]
           ELSE LET dA == cfg.dims[1]  dB == cfg.dims[2]  dC == cfg.dims[3] IN
                \E P \in {Outer(Vec(dA, cfg.s, 1, cplx), Kron1(Vec(dB, cfg.s, 2, cplx), Vec(dC, cfg.s, 3, cplx)))} :
                \E B \in {Hide(<<P, RandM(dA, dB * dC, cfg.s, 2, cplx), RandM(dA, dB * dC, cfg.s, 3, cplx)>>)} :
                  obs = [B |-> B, P |-> P, prank |-> MatRank(P), indep |-> SpanDim("C", B), prank2 |-> MatRank(ReshapeABtoC(P, dA, dB, dC))]
Next == UNCHANGED <<cfg, obs>>
Spec == Init /\ [][Next]_<<cfg, obs>>
\* the provenance is real: P is in the span, has exactly the planted rank, and the hidden generators are independent
InSpanOK == MSub(obs.B[3], obs.B[2]) = obs.P
RankOK == IF Len(cfg.dims) = 2 THEN obs.prank = cfg.r - 1 ELSE (obs.prank = 1 /\ obs.prank2 = 1)
IndepOK == obs.indep = 3
=============================================================================
