-------------------------------- MODULE Trace_MatrixSpace --------------------------------
(* contract validation of recorded calls (code -> spec):
     basis : get_matrix_orthogonal_basis on generators of a structure class: label, dim(basis) = exact dimension of the span,
             dim(basis) + dim(complement) = ambient dimension  (the exact numbers are recomputed here from the generators);
             the returned basis has one common norm and is mutually orthogonal, the complement is orthogonal to it, and every
             generator is reproduced by its projection onto the basis (with dim = exact rank this makes the spans equal)
     cert  : a rank certificate asked about a subspace with a planted element of rank < r: the positive answer is forbidden *)
EXTENDS MatrixSpace, TLC, Json, IOUtils
Events == JsonDeserialize(IOEnv.TRACE_FILE)
VARIABLE l
\* nearly structured generators: the call was made with gens[k] + 2^-e pert[k] (gens structured, pert anti-structured, 20 <= e <= 40).
\* Structure flags are those of gens + pert (a non-zero anti-structured part breaks the structure whatever its size), and the dimension of
\* the span is the rank of the stacked pairs (direct sum of the structured and the anti-structured matrices).
HasPert(e) == e.pert # <<>>
Full(e) == IF HasPert(e) THEN [k \in 1..Len(e.gens) |-> MAdd(e.gens[k], e.pert[k])] ELSE e.gens
LabelOfE(e) == LET g == Full(e) IN Label(\E k \in 1..Len(g) : ~IsReal(g[k]), e.field, \A k \in 1..Len(g) : IsSym(g[k]), \A k \in 1..Len(g) : IsHerm(g[k]))
PertShapeOK(e) == HasPert(e) => /\ e.e >= 20 /\ e.e <= 40 /\ Len(e.pert) = Len(e.gens)
                                /\ \A k \in 1..Len(e.gens) : \/ (IsSym(e.gens[k]) /\ e.pert[k] = MScale(-1, [j \in 1..Len(e.pert[k]) |-> [i \in 1..Len(e.pert[k]) |-> e.pert[k][i][j]]]))
                                                               \/ (IsHerm(e.gens[k]) /\ e.pert[k] = MScale(-1, [j \in 1..Len(e.pert[k]) |-> [i \in 1..Len(e.pert[k]) |-> GConj(e.pert[k][i][j])]]))
SpanDimE(lb, e) == IF HasPert(e) THEN SpanDim(lb, [k \in 1..Len(e.gens) |-> e.gens[k] \o e.pert[k]]) ELSE SpanDim(lb, e.gens)
\* ---- the returned frames, rounded to integers at scale e.scale (Gaussian integers <<re, im>>).  Inner product of the
\*      structured space: Tr(A^dagger B) over C, its real part over R.  All comparisons carry the rounding tolerance e.tol.
IP(A, B) == GSum([k \in 1..Len(A) |-> GMul(GConj(A[k]), B[k])])
IPf(lb, A, B) == IF OverReals(lb) THEN <<IP(A, B)[1], 0>> ELSE IP(A, B)
Small(z, tol) == IAbs(z[1]) <= tol /\ IAbs(z[2]) <= tol
AddScaled(acc, co, B) == TLCEval([k \in 1..Len(acc) |-> GAdd(acc[k], GMul(co, B[k]))])
FrameOK2(e, lb, Bs, Cs) == \E c \in {IF Bs = <<>> THEN 0 ELSE IP(Bs[1], Bs[1])[1]} :
   /\ \A i \in 1..Len(Bs) : IAbs(IP(Bs[i], Bs[i])[1] - c) <= e.tol /\ 4 * c >= e.scale * e.scale       \* one common, non-zero norm
   /\ \A i, j \in 1..Len(Bs) : i < j => Small(IPf(lb, Bs[i], Bs[j]), e.tol)                            \* mutually orthogonal
   /\ \A i \in 1..Len(Cs) : \A j \in 1..Len(Bs) : Small(IPf(lb, Cs[i], Bs[j]), e.tol)                \* complement orthogonal to the basis
   /\ \A g \in 1..Len(e.gens) : \E gv \in {Flatten(e.gens[g])} :                                       \* every generator lies in the span
         \E proj \in {FoldLeft(LAMBDA acc, i : AddScaled(acc, TLCEval(IPf(lb, Bs[i], gv)), Bs[i]), [k \in 1..Len(gv) |-> GZero], [i \in 1..Len(Bs) |-> i])} :
            \A k \in 1..Len(gv) : Small(GAdd(GScale(c, gv[k]), GNeg(proj[k])), e.rtol)
\* For the classes "complex matrices over the reals" (R_c, R_cT) the library hands the frames back REALIFIED: an m x n complex
\* matrix A is returned as the real 2m x 2n block matrix [[Re A, -Im A], [Im A, Re A]].  Blocked(M) checks that shape and
\* Complexify(M) recovers A; every other class returns matrices of the generators' own shape.
Realified(lb) == lb \in {"R_c", "R_cT"}
Blocked(M, m, n) == /\ Len(M) = 2 * m /\ \A i \in 1..(2 * m) : Len(M[i]) = 2 * n
                    /\ \A i \in 1..m : \A j \in 1..n : /\ M[i][j][2] = 0 /\ M[m + i][j][2] = 0 /\ M[i][n + j][2] = 0 /\ M[m + i][n + j][2] = 0
                                                        /\ IAbs(M[m + i][n + j][1] - M[i][j][1]) <= 1 /\ IAbs(M[i][n + j][1] + M[m + i][j][1]) <= 1
Complexify(M, m, n) == [i \in 1..m |-> [j \in 1..n |-> <<M[i][j][1], M[m + i][j][1]>>]]
ShapeOK(M, lb, m, n) == IF Realified(lb) THEN Blocked(M, m, n) ELSE Len(M) = m /\ \A i \in 1..m : Len(M[i]) = n
AsVec(M, lb, m, n) == Flatten(IF Realified(lb) THEN Complexify(M, m, n) ELSE M)
FrameOK(e, lb) == \E m \in {Len(e.gens[1])} : \E n \in {Len(e.gens[1][1])} :
   /\ Len(e.basis) = e.nbasis /\ Len(e.compl) = e.ncompl
   /\ \A i \in 1..Len(e.basis) : ShapeOK(e.basis[i], lb, m, n)
   /\ \A i \in 1..Len(e.compl) : ShapeOK(e.compl[i], lb, m, n)
   /\ \E Bs \in {TLCEval([i \in 1..Len(e.basis) |-> AsVec(e.basis[i], lb, m, n)])} : \E Cs \in {TLCEval([i \in 1..Len(e.compl) |-> AsVec(e.compl[i], lb, m, n)])} : FrameOK2(e, lb, Bs, Cs)
BasisOK(e) == \E lb \in {LabelOfE(e)} : \E dm \in {SpanDimE(lb, e)} :
   /\ PertShapeOK(e)
   /\ e.label = lb /\ e.nbasis = dm /\ e.nbasis + e.ncompl = Ambient(lb, Len(e.gens[1]), Len(e.gens[1][1]))
   /\ FrameOK(e, lb)
\* planted: the event carries P and the hidden generators; TLC re-establishes the provenance before judging the verdict
CertOK(e) == /\ MAdd(e.B[3], MScale(-1, e.B[2])) = e.P /\ MatRank(e.P) < e.r /\ SpanDim("C", e.B) = Len(e.B)
             /\ e.certified = FALSE
\* name of the first failing clause (only evaluated for rejected events)
Why(e) == IF e.op # "basis" THEN "certificate" ELSE
   LET lb == LabelOfE(e) IN
   IF e.label # lb THEN "label" ELSE IF e.nbasis # SpanDimE(lb, e) THEN "dimension-of-span"
   ELSE IF e.nbasis + e.ncompl # Ambient(lb, Len(e.gens[1]), Len(e.gens[1][1])) THEN "complement-dimension" ELSE "frame (norm / orthogonality / complement / span)"
Valid(e) == CASE e.op = "basis" -> BasisOK(e) [] e.op = "cert" -> CertOK(e) [] OTHER -> FALSE
Init == l = 1 /\ TLCSet(1, 0)
Next == /\ l <= Len(Events)
        /\ IF Valid(Events[l]) THEN TLCSet(1, TLCGet(1) + 1) ELSE PrintT(<<"REJECT", l, Events[l].op, Why(Events[l])>>)
        /\ l' = l + 1
Spec == Init /\ [][Next]_l
Post == PrintT(<<"ACCEPTED", TLCGet(1), Len(Events)>>)
=============================================================================
