-------------------------------- MODULE Trace_MatrixSpace --------------------------------
(* contract validation of recorded calls (code -> spec):
     basis : get_matrix_orthogonal_basis on generators of a structure class: label, dim(basis) = exact dimension of the span,
             dim(basis) + dim(complement) = ambient dimension  (the exact numbers are recomputed here from the generators)
     cert  : a rank certificate asked about a subspace with a planted element of rank < r: the positive answer is forbidden *)
EXTENDS MatrixSpace, TLC, Json, IOUtils
Events == JsonDeserialize(IOEnv.TRACE_FILE)
VARIABLE l
LabelOfE(e) == Label(\E k \in 1..Len(e.gens) : ~IsReal(e.gens[k]), e.field, \A k \in 1..Len(e.gens) : IsSym(e.gens[k]), \A k \in 1..Len(e.gens) : IsHerm(e.gens[k]))
BasisOK(e) == \E lb \in {LabelOfE(e)} : \E dm \in {SpanDim(lb, e.gens)} :
   /\ e.label = lb /\ e.nbasis = dm /\ e.nbasis + e.ncompl = Ambient(lb, Len(e.gens[1]), Len(e.gens[1][1]))
\* planted: the event carries P and the hidden generators; TLC re-establishes the provenance before judging the verdict
CertOK(e) == /\ MAdd(e.B[3], MScale(-1, e.B[2])) = e.P /\ MatRank(e.P) < e.r /\ SpanDim("C", e.B) = Len(e.B)
             /\ e.certified = FALSE
Valid(e) == CASE e.op = "basis" -> BasisOK(e) [] e.op = "cert" -> CertOK(e) [] OTHER -> FALSE
Init == l = 1 /\ TLCSet(1, 0)
Next == /\ l <= Len(Events)
        /\ IF Valid(Events[l]) THEN TLCSet(1, TLCGet(1) + 1) ELSE PrintT(<<"REJECT", l, Events[l].op>>)
        /\ l' = l + 1
Spec == Init /\ [][Next]_l
Post == PrintT(<<"ACCEPTED", TLCGet(1), Len(Events)>>)
=============================================================================
