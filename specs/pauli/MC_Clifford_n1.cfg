CONSTANTS N = 1
SPECIFICATION Spec
VIEW View
INVARIANT Valid
INVARIANT RSRoundTrip
INVARIANT SympOK
INVARIANT Automorphism
INVARIANT ComposeOK
INVARIANT PathOK
