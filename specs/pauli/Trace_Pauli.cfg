SPECIFICATION Spec
POSTCONDITION Post
