-------------------------------- MODULE Trace_PauliObject --------------------------------
(* recorded histories of real PauliOperator objects validated against PauliObject.tla *)
EXTENDS PauliObject, TLC, Json, IOUtils
Traces == JsonDeserialize(IOEnv.TRACE_FILE)
VARIABLES tid, l
Ev == Traces[tid][l]
EvNew == Ev.op = "new" /\ p' = FromF2(Ev.f2)
EvView == /\ Ev.op = "view" /\ DoView(Ev.v)
          /\ CASE Ev.v = "F2" -> Ev.val = ToF2(p) [] Ev.v = "str" -> Ev.val = ToLetters(p)
               [] Ev.v = "sign" -> Ev.val = ToSign(p) [] OTHER -> Ev.val = Dense(p)
EvInv == Ev.op = "inverse" /\ DoInverse /\ Ev.f2 = ToF2(p')
EvMul == Ev.op = "mul" /\ DoMul(FromF2(Ev.q)) /\ Ev.f2 = ToF2(p')
Step == EvNew \/ EvView \/ EvInv \/ EvMul
Init == tid = 1 /\ l = 1 /\ p = PId(1) /\ TLCSet(1, 0)
Consume == l <= Len(Traces[tid]) /\ Step /\ l' = l + 1 /\ tid' = tid
Finish == /\ l = Len(Traces[tid]) + 1 /\ TLCSet(1, TLCGet(1) + 1)
          /\ tid < Len(Traces) /\ tid' = tid + 1 /\ l' = 1 /\ p' = PId(1)
Stuck == /\ l <= Len(Traces[tid]) /\ ~ENABLED Step /\ PrintT(<<"REJECT", tid, l, Ev.op>>)
         /\ tid < Len(Traces) /\ tid' = tid + 1 /\ l' = 1 /\ p' = PId(1)
Next == Consume \/ Finish \/ Stuck
Spec == Init /\ [][Next]_<<tid, l, p>>
Post == PrintT(<<"ACCEPTED", TLCGet(1), Len(Traces)>>)
=============================================================================
