CONSTANTS N = 2
SPECIFICATION Spec
INVARIANT TypeOK
INVARIANT CyclesOK
INVARIANT DenseOK
INVARIANT InvOK
INVARIANT HermOK
INVARIANT PairOK
INVARIANT CodeOK
