-------------------------------- MODULE MC_Pauli --------------------------------
(* Exhaustive model of the n-qubit phased Pauli group as a state machine: state = an element, actions = right
   multiplication by a generator, by i, and inversion.  The reachable set is the whole group (4^(n+1) states);
   every invariant is evaluated in every state, and the pair invariants quantify over all 4^(n+1) second
   operands, i.e. over all ordered pairs. *)
EXTENDS PauliEnc, TLC
CONSTANT N
VARIABLES p, enc
All == PauliSet(N)
Describe(P) == [code |-> Code(P), f2 |-> ToF2(P), letters |-> ToLetters(P), sign |-> ToSign(P),
                inv |-> Code(PInv(P)), herm |-> PHerm(P), wt |-> PWeight(P), dense |-> Dense(P), idxf2 |-> ToF2(FromIndexDigits(ToIndexDigits(P))),
                \* row[c+1] = code of P * Decode(c), comm[c+1] = do they commute  (all ordered pairs)
                row |-> [c \in 1..(4^(N+1)) |-> Code(PMul(P, Decode(c - 1, N)))],
                comm |-> [c \in 1..(4^(N+1)) |-> IF PCommute(P, Decode(c - 1, N)) THEN 1 ELSE 0]]
Init == p = PId(N) /\ enc = Describe(p)
Step(q) == p' = q /\ enc' = Describe(q)
MulGen == \E k \in 1..N : Step(PMul(p, PX(N, k))) \/ Step(PMul(p, PZ(N, k)))
MulI == Step(PPhase(p, 1))
Invert == Step(PInv(p))
Next == MulGen \/ MulI \/ Invert
Spec == Init /\ [][Next]_<<p, enc>>
\* ---- invariants (spec self-checks = theorems about the encodings)
TypeOK == p \in All
CyclesOK == /\ FromF2(ToF2(p)) = p
            /\ FromStr(ToLetters(p), ToSign(p)) = p
            /\ ToLetters(FromIndexDigits(ToIndexDigits(p))) = ToLetters(p)
            /\ ToSign(FromIndexDigits(ToIndexDigits(p))) = 0
            /\ PHerm(FromIndexDigits(ToIndexDigits(p)))
DenseOK == DenseStr(ToLetters(p), ToSign(p)) = Dense(p)
InvOK == /\ GMatMul(Dense(PInv(p)), Dense(p)) = GIdent(2^N)
         /\ PMul(PInv(p), p) = PId(N) /\ PMul(p, PInv(p)) = PId(N)
HermOK == PHerm(p) <=> (GDagger(Dense(p)) = Dense(p))
\* constant-level table: evaluated once by TLC
DenseTab == [q \in All |-> Dense(q)]
PairOK == \A q \in All :
            LET pq == GMatMul(DenseTab[p], DenseTab[q])  qp == GMatMul(DenseTab[q], DenseTab[p]) IN
            /\ DenseTab[PMul(p, q)] = pq
            /\ PCommute(p, q) <=> (pq = qp)
            /\ ~PCommute(p, q) <=> (pq = GMatScale(<<-1, 0>>, qp))
\* Code is injective on the group (so dumps identify elements)
CodeOK == (\A q \in All : Code(q) = Code(p) => q = p) /\ Decode(Code(p), N) = p
=============================================================================
