-------------------------------- MODULE MC_Clifford --------------------------------
(* Closure model: state = tableau of P |-> U^dagger P U for the gate word appended so far (what numqi's CliffordCircuit
   represents); action = append one elementary gate.  The VIEW hides the witness word, so TLC visits every element of
   the N-qubit Clifford group modulo phases exactly once (24 for N=1, 11520 for N=2 = |Sp(2N,F2)| * 4^N, i.e. every
   pair (r,S)) and keeps the first word that reaches it.  The derived variables rs / acts are what the replay compares. *)
EXTENDS Clifford, TLC
CONSTANT N
VARIABLES tab, path, obs
All == PauliSet(N)
\* Act(T, i^k P) = i^k Act(T, P) holds by definition (ActTo starts from the phase), so the quantified invariants range over
\* the 4^N phase-free operators; the dump still carries the images of all 4^(N+1) phased operators.
All0 == {P \in All : P.ph = 0}
Observe(T) == [r |-> ToR(T), S |-> ToS(T), acts |-> [c \in 1..(4^(N+1)) |-> Code(Act(T, Decode(c - 1, N)))]]
Init == tab = IdT(N) /\ path = <<>> /\ obs = Observe(tab)
Next == \E g \in Gates(N) : /\ tab' = Compose(tab, DaggerT(g, N))
                            /\ path' = Append(path, g)
                            /\ obs' = Observe(tab')
Spec == Init /\ [][Next]_<<tab, path, obs>>
View == tab
Valid == ValidT(tab)
RSRoundTrip == FromRS(ToR(tab), ToS(tab)) = tab
SympOK == IsSymplectic(Transpose(ToS(tab)), N)
\* phase-exact automorphism: Act(T, P Q) = Act(T,P) Act(T,Q) for every P and every generator Q (hence every Q)
GenSet == {PX(N, k) : k \in 1..N} \cup {PZ(N, k) : k \in 1..N} \cup {PPhase(PId(N), 1)}
Automorphism == \A P \in All0 : \A Q \in GenSet : Act(tab, PMul(P, Q)) = PMul(Act(tab, P), Act(tab, Q))
\* composition rule = sequential application
ComposeOK == \A g \in Gates(N) : LET G == DaggerT(g, N)  TG == Compose(tab, G) IN
               \A P \in All0 : Act(TG, P) = Act(tab, Act(G, P))
\* the witness word reproduces the tableau through the circuit semantics
PathOK == CircuitT(path, N) = tab
=============================================================================
