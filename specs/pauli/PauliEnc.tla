-------------------------------- MODULE PauliEnc --------------------------------
(* The four encodings of a phased Pauli operator documented by numqi.gate and the conversions between them,
   each defined from the *meaning* of the encoding:
     string + sign : letters I,X,Y,Z (qubit 0 leftmost), sign s in 0..3 meaning i^s;  operator = i^s (x) sigma
     index         : base-4 digits, I,X,Y,Z = 0,1,2,3, qubit 0 most significant (kept as a digit sequence)
     F2 vector     : <<b0, b1, x_1..x_n, z_1..z_n>>, operator = i^(2 b0 + b1) (x) X^x Z^z
     dense         : matrix over Z[i]
   Letters are encoded 0..3 = I,X,Y,Z.  Since Y = i X Z,  i^ph X^x Z^z = i^(ph - #Y) (x) letters. *)
EXTENDS Pauli
Letter(x, z) == IF x = 0 THEN (IF z = 0 THEN 0 ELSE 3) ELSE (IF z = 0 THEN 1 ELSE 2)
LetterX(c) == IF c = 1 \/ c = 2 THEN 1 ELSE 0
LetterZ(c) == IF c = 2 \/ c = 3 THEN 1 ELSE 0
NumY(P) == DotZ(P.x, P.z)
ToLetters(P) == [k \in 1..NQ(P) |-> Letter(P.x[k], P.z[k])]
ToSign(P) == (P.ph + 3 * NumY(P)) % 4
FromStr(letters, s) == LET x == [k \in 1..Len(letters) |-> LetterX(letters[k])]
                           z == [k \in 1..Len(letters) |-> LetterZ(letters[k])]
                       IN [ph |-> (s + DotZ(x, z)) % 4, x |-> x, z |-> z]
ToF2(P) == <<P.ph \div 2, P.ph % 2>> \o P.x \o P.z
FromF2(v) == LET n == (Len(v) - 2) \div 2 IN
             [ph |-> 2 * v[1] + v[2], x |-> [k \in 1..n |-> v[2 + k]], z |-> [k \in 1..n |-> v[2 + n + k]]]
\* the index form carries no sign: it denotes the Hermitian tensor product of letters (sign +1)
FromIndexDigits(d) == FromStr(d, 0)
ToIndexDigits(P) == ToLetters(P)
\* dense matrix from the string form, by the textbook sigma matrices (independent of Factor/Dense)
Sigma(c) == CASE c = 0 -> <<<<GOne, GZero>>, <<GZero, GOne>>>>
              [] c = 1 -> <<<<GZero, GOne>>, <<GOne, GZero>>>>
              [] c = 2 -> <<<<GZero, <<0, -1>>>>, <<<<0, 1>>, GZero>>>>
              [] OTHER -> <<<<GOne, GZero>>, <<GZero, <<-1, 0>>>>>>
RECURSIVE SigmaKron(_, _)
SigmaKron(l, k) == IF k = 1 THEN Sigma(l[1]) ELSE GKron(SigmaKron(l, k - 1), Sigma(l[k]))
DenseStr(letters, s) == GMatScale(GIPow(s), SigmaKron(letters, Len(letters)))
\* compact integer code of a phased Pauli (used in dumps):  ph, then x bits, then z bits, big endian
RECURSIVE BitsVal(_, _)
BitsVal(v, k) == IF k = 0 THEN 0 ELSE 2 * BitsVal(v, k - 1) + v[k]
Code(P) == LET n == NQ(P) IN (P.ph * (2^n) + BitsVal(P.x, n)) * (2^n) + BitsVal(P.z, n)
RECURSIVE ValBits(_, _)
ValBits(v, n) == IF n = 0 THEN <<>> ELSE Append(ValBits(v \div 2, n - 1), v % 2)     \* big endian, length n
Decode(c, n) == [ph |-> c \div (2^(2*n)), x |-> ValBits((c \div (2^n)) % (2^n), n), z |-> ValBits(c % (2^n), n)]
=============================================================================
