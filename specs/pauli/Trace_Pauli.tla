-------------------------------- MODULE Trace_Pauli --------------------------------
(* Validation of recorded calls of numqi.gate Pauli routines (code -> spec).  The trace file is a JSON array of
   independent events; every event carries the arguments and the observed result of one public call, already in
   the documented encodings (F2 vectors, letter codes 0..3 = IXYZ, sign exponent 0..3, base-4 digit sequences).
   An event is accepted iff the observed result is the one the specification defines. *)
EXTENDS PauliEnc, TLC, Json, IOUtils
Events == JsonDeserialize(IOEnv.TRACE_FILE)
VARIABLE l
Valid(e) ==
  CASE e.op = "matmul"   -> e.res = ToF2(PMul(FromF2(e.a), FromF2(e.b)))
    [] e.op = "inverse"  -> e.res = ToF2(PInv(FromF2(e.a)))
    [] e.op = "commute"  -> e.res = PCommute(FromF2(e.a), FromF2(e.b))
    [] e.op = "F2_to_str" -> e.letters = ToLetters(FromF2(e.a)) /\ e.sign = ToSign(FromF2(e.a))
    [] e.op = "str_to_F2" -> e.res = ToF2(FromStr(e.letters, e.sign))
    [] e.op = "F2_to_index" -> e.digits = ToIndexDigits(FromF2(e.a)) /\ e.inrange          \* inrange: 0 <= index < 4^n as an integer (the digits are taken mod 2^64)
    [] e.op = "index_to_F2" -> e.res = ToF2(FromIndexDigits(e.digits))
    [] e.op = "index_to_str" -> e.letters = e.digits
    [] e.op = "str_to_index" -> e.digits = e.letters /\ e.inrange
    [] e.op = "rand_pauli" -> LET P == FromF2(e.res) IN
                                /\ Len(e.res) = 2 * e.n + 2 /\ \A k \in 1..Len(e.res) : e.res[k] \in {0, 1}
                                /\ (e.herm = "True" => PHerm(P)) /\ (e.herm = "False" => ~PHerm(P))
    [] OTHER -> FALSE
Init == l = 1 /\ TLCSet(1, 0)
Next == /\ l <= Len(Events)
        /\ IF Valid(Events[l]) THEN TLCSet(1, TLCGet(1) + 1) ELSE PrintT(<<"REJECT", l, Events[l].op>>)
        /\ l' = l + 1
Spec == Init /\ [][Next]_l
Post == PrintT(<<"ACCEPTED", TLCGet(1), Len(Events)>>)
=============================================================================
