SPECIFICATION Spec
POSTCONDITION Post
