-------------------------------- MODULE MC_CliffordCircuit --------------------------------
(* Every interleaving of {append any gate instance on QN qubits, append a generator-chosen gate, query, apply to a Pauli, export} up to MaxLen
   operations.  `hist` is the operation word (it is the state that distinguishes histories; no VIEW), the dump of
   this model is the list of histories replayed into the real object.  Design invariants checked in every state:
   the circuit tableau is a valid automorphism, padding with idle qubits does not change it, and the incremental
   formulation (compose on append) equals recomputation from the gate list. *)
EXTENDS CliffordCircuit, TLC
CONSTANTS QN, MaxLen, NApply, Names1, Names2,  \* Names1/Names2: gate vocabulary of the model instance
          Rnd1, Rnd2                           \* outcomes of the random-gate helpers explored by the instance (the history records only the wires)
VARIABLES hist, inc
vars == <<gates, hist, inc>>
Init == CCInit /\ hist = <<>> /\ inc = IdT(QN)
Bound == Len(hist) < MaxLen
DoAppend == \E g \in {h \in Gates(QN) : h.k \in Names1 \cup Names2} : /\ AppendGate(g) /\ hist' = Append(hist, [op |-> "app", k |-> g.k, a |-> g.a, b |-> g.b])
                                 /\ inc' = Compose(inc, DaggerT(g, QN))
DoRandom == \E a \in 1..QN, b \in 0..QN, k \in Rnd1 \cup Rnd2 :
              /\ a # b /\ k \in (IF b = 0 THEN Rnd1 ELSE Rnd2) /\ RandomGate(k, a, b)
              /\ hist' = Append(hist, [op |-> "rnd", k |-> "", a |-> a, b |-> b])
              /\ inc' = IF k = "I" THEN inc ELSE Compose(inc, DaggerT([k |-> k, a |-> a, b |-> b], QN))
DoQuery == CanQuery /\ UNCHANGED <<gates, inc>> /\ hist' = Append(hist, [op |-> "qry", k |-> "", a |-> 0, b |-> 0])
DoApply == CanQuery /\ UNCHANGED <<gates, inc>> /\ \E i \in 1..NApply : hist' = Append(hist, [op |-> "apply", k |-> "", a |-> i, b |-> 0])
DoExport == UNCHANGED <<gates, inc>> /\ hist' = Append(hist, [op |-> "export", k |-> "", a |-> 0, b |-> 0])
Next == Bound /\ (DoAppend \/ DoRandom \/ DoQuery \/ DoApply \/ DoExport)
Spec == Init /\ [][Next]_vars
Valid == gates = <<>> \/ ValidT(CurT)
IncOK == inc = CircuitT(gates, QN)
\* idle qubits: the QN-qubit tableau restricted to the first CurN qubits is the CurN-qubit tableau
PRestrict(P, n) == [ph |-> P.ph, x |-> SubSeq(P.x, 1, n), z |-> SubSeq(P.z, 1, n)]
PadOK == gates = <<>> \/ \A k \in 1..CurN : /\ PRestrict(inc.imX[k], CurN) = CurT.imX[k] /\ PRestrict(inc.imZ[k], CurN) = CurT.imZ[k]
                                            /\ \A j \in (CurN + 1)..QN : inc.imX[k].x[j] = 0 /\ inc.imX[k].z[j] = 0
=============================================================================
