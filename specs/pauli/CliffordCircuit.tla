-------------------------------- MODULE CliffordCircuit --------------------------------
(* numqi.sim.clifford.CliffordCircuit as a state machine: one action per public method.  The abstract state is the
   list of appended gates; the number of qubits is 1 + the largest index used so far.  The REQUIRED behaviour is the
   ideal one: a query reflects *all* gates appended so far - the specification has no cache. *)
EXTENDS Clifford
VARIABLE gates
CCInit == gates = <<>>
AppendGate(g) == gates' = Append(gates, g)
AppendIdentity == UNCHANGED gates                   \* CliffordCircuit.I(...) is a no-op
\* random_one_qubit_gate(a) / random_two_qubit_gate(a, b): the generator picks the gate name, the object appends exactly that gate on
\* exactly the requested wires (through the same recorder as an explicit append - "I" appends nothing).  The name is the unlogged
\* choice of the action; a trace binds it to the entry observed in the gate list.
RandomNames(b) == IF b = 0 THEN GateNames1 \cup {"I"} ELSE GateNames2
RandomGate(k, a, b) == /\ k \in RandomNames(b) /\ (b # 0 => a # b)
                       /\ IF k = "I" THEN AppendIdentity ELSE AppendGate([k |-> k, a |-> a, b |-> b])
CanQuery == gates # <<>>                            \* num_qubit of an empty circuit is undefined in the library
CurN == NumQubit(gates)
CurT == CircuitT(gates, CurN)
QueryR == ToR(CurT)
QueryS == ToS(CurT)
ApplyResult(P) == Act(CurT, P)                      \* U^dagger P U as a phased Pauli
ExportResult == gates                               \* universal circuit: same gates, same order, same wiring
=============================================================================
