-------------------------------- MODULE Trace_Clifford --------------------------------
(* Stateless validation of recorded calls of the (r,S) routines of numqi.sim.clifford. *)
EXTENDS Clifford, TLC, Json, IOUtils
Events == JsonDeserialize(IOEnv.TRACE_FILE)
VARIABLE l
Valid(e) ==
  CASE e.op = "multiply" -> LET Tx == FromRS(e.rx, e.Sx)  Ty == FromRS(e.ry, e.Sy)  Tz == Compose(Ty, Tx) IN
                              ValidT(Tx) /\ ValidT(Ty) /\ e.rz = ToR(Tz) /\ e.Sz = ToS(Tz)
    [] e.op = "apply" -> e.res = ToF2(Act(FromRS(e.r, e.S), FromF2(e.p)))
    [] OTHER -> FALSE
Init == l = 1 /\ TLCSet(1, 0)
Next == /\ l <= Len(Events)
        /\ IF Valid(Events[l]) THEN TLCSet(1, TLCGet(1) + 1) ELSE PrintT(<<"REJECT", l, Events[l].op>>)
        /\ l' = l + 1
Spec == Init /\ [][Next]_l
Post == PrintT(<<"ACCEPTED", TLCGet(1), Len(Events)>>)
=============================================================================
