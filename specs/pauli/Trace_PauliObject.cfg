SPECIFICATION Spec
POSTCONDITION Post
