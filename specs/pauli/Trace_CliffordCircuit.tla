-------------------------------- MODULE Trace_CliffordCircuit --------------------------------
(* Validation of recorded histories of real CliffordCircuit objects against CliffordCircuit.tla.  The trace file is a
   JSON array of traces; a trace is an array of events logged at the return of each public call.  One TLC run
   validates all traces: on a disabled event it prints REJECT <trace> <event> <op> and moves to the next trace. *)
EXTENDS CliffordCircuit, TLC, Json, IOUtils
Traces == JsonDeserialize(IOEnv.TRACE_FILE)
VARIABLES tid, l
Ev == Traces[tid][l]
\* The verdict on an event is computed ONCE (the tableau of a long history is expensive): StepOK is the enabling condition of
\* the CliffordCircuit action the event names together with the comparison of the logged result; NewGates is its effect.
StepOK == CASE Ev.op = "app" -> TRUE
            [] Ev.op = "rnd" -> /\ Ev.k \in RandomNames(Ev.b) /\ Ev.ra = Ev.a /\ Ev.rb = Ev.b      \* one gate of the vocabulary, on the wires requested
                                /\ Ev.count = (IF Ev.k = "I" THEN 0 ELSE 1)
            [] Ev.op = "qry" -> CanQuery /\ \E T \in {CurT} : Ev.n = NT(T) /\ Ev.r = ToR(T) /\ Ev.S = ToS(T)
            [] Ev.op = "apply" -> CanQuery /\ Ev.res = ToF2(ApplyResult(FromF2(Ev.p)))
            [] Ev.op = "export" -> Ev.gates = [i \in 1..Len(gates) |-> <<gates[i].k, gates[i].a, gates[i].b>>]
            [] Ev.op = "noqry" -> ~CanQuery
            [] Ev.op = "numq" -> CanQuery /\ Ev.n = CurN
            [] OTHER -> FALSE
Init == tid = 1 /\ l = 1 /\ CCInit /\ TLCSet(1, 0)
Consume == /\ l <= Len(Traces[tid])
           /\ \E ok \in {StepOK} :
                IF ok THEN /\ l' = l + 1 /\ tid' = tid
                           /\ IF Ev.op = "app" THEN AppendGate([k |-> Ev.k, a |-> Ev.a, b |-> Ev.b])
                              ELSE IF Ev.op = "rnd" THEN RandomGate(Ev.k, Ev.a, Ev.b) ELSE UNCHANGED gates
                ELSE /\ PrintT(<<"REJECT", tid, l, Ev.op>>)
                     /\ tid < Len(Traces) /\ tid' = tid + 1 /\ l' = 1 /\ gates' = <<>>
Finish == /\ l = Len(Traces[tid]) + 1 /\ TLCSet(1, TLCGet(1) + 1)
          /\ tid < Len(Traces) /\ tid' = tid + 1 /\ l' = 1 /\ gates' = <<>>
Next == Consume \/ Finish
Spec == Init /\ [][Next]_<<tid, l, gates>>
\* the last trace has no successor state: count it in the postcondition
LastOK == TLCGet("stats").diameter >= 1
Post == PrintT(<<"ACCEPTED", TLCGet(1), Len(Traces)>>)
=============================================================================
