-------------------------------- MODULE Trace_CliffordCircuit --------------------------------
(* Validation of recorded histories of real CliffordCircuit objects against CliffordCircuit.tla.  The trace file is a
   JSON array of traces; a trace is an array of events logged at the return of each public call.  One TLC run
   validates all traces: on a disabled event it prints REJECT <trace> <event> <op> and moves to the next trace. *)
EXTENDS CliffordCircuit, TLC, Json, IOUtils
Traces == JsonDeserialize(IOEnv.TRACE_FILE)
VARIABLES tid, l
Ev == Traces[tid][l]
EvApp == Ev.op = "app" /\ AppendGate([k |-> Ev.k, a |-> Ev.a, b |-> Ev.b])
EvQry == /\ Ev.op = "qry" /\ CanQuery /\ UNCHANGED gates
         /\ Ev.n = CurN /\ Ev.r = QueryR /\ Ev.S = QueryS
EvApply == /\ Ev.op = "apply" /\ CanQuery /\ UNCHANGED gates
           /\ Ev.res = ToF2(ApplyResult(FromF2(Ev.p)))
EvExport == /\ Ev.op = "export" /\ UNCHANGED gates
            /\ Ev.gates = [i \in 1..Len(gates) |-> <<gates[i].k, gates[i].a, gates[i].b>>]
EvNumQ == Ev.op = "numq" /\ CanQuery /\ UNCHANGED gates /\ Ev.n = CurN
Step == EvApp \/ EvQry \/ EvApply \/ EvExport \/ EvNumQ
Init == tid = 1 /\ l = 1 /\ CCInit /\ TLCSet(1, 0)
Consume == l <= Len(Traces[tid]) /\ Step /\ l' = l + 1 /\ tid' = tid
Finish == /\ l = Len(Traces[tid]) + 1 /\ TLCSet(1, TLCGet(1) + 1)
          /\ tid < Len(Traces) /\ tid' = tid + 1 /\ l' = 1 /\ gates' = <<>>
Stuck == /\ l <= Len(Traces[tid]) /\ ~ENABLED Step /\ PrintT(<<"REJECT", tid, l, Ev.op>>)
         /\ tid < Len(Traces) /\ tid' = tid + 1 /\ l' = 1 /\ gates' = <<>>
Next == Consume \/ Finish \/ Stuck
Spec == Init /\ [][Next]_<<tid, l, gates>>
\* the last trace has no successor state: count it in the postcondition
LastOK == TLCGet("stats").diameter >= 1
Post == PrintT(<<"ACCEPTED", TLCGet(1), Len(Traces)>>)
=============================================================================
