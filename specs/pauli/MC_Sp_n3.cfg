CONSTANTS N = 3
BruteForce = FALSE
SPECIFICATION Spec
INVARIANT SympOK
INVARIANT InverseOK
POSTCONDITION Post
