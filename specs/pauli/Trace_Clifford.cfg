SPECIFICATION Spec
POSTCONDITION Post
