CONSTANTS N = 2
MaxLen = 4
SPECIFICATION Spec
INVARIANT TypeOK
INVARIANT InvolutionOK
