CONSTANTS N = 3
SPECIFICATION Spec
INVARIANT TypeOK
INVARIANT CyclesOK
INVARIANT DenseOK
INVARIANT InvOK
INVARIANT HermOK
INVARIANT PairOK
INVARIANT CodeOK
