CONSTANTS QN = 2
MaxLen = 4
NApply = 2
Names1 = {"H","S"}
Names2 = {"CX"}
SPECIFICATION Spec
INVARIANT Valid
INVARIANT IncOK
INVARIANT PadOK
