-------------------------------- MODULE MC_CliffordGates --------------------------------
(* Derivation check of the elementary gate tableaux from the dense matrices (oracle independence): every gate
   instance on N qubits, conjugation in both directions on all generators, over Z[i]. *)
EXTENDS Clifford
CONSTANT N
VARIABLE g
Init == g \in Gates(N)
Next == UNCHANGED g
Spec == Init /\ [][Next]_g
Derived == GateOK(g, N)
Valid == ValidT(GateT(g, N)) /\ ValidT(DaggerT(g, N)) /\ Compose(GateT(g, N), DaggerT(g, N)) = IdT(N)
=============================================================================
