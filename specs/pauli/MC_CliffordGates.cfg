CONSTANTS N = 3
SPECIFICATION Spec
INVARIANT Derived
INVARIANT Valid
