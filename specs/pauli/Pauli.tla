-------------------------------- MODULE Pauli --------------------------------
(* The phased n-qubit Pauli group.  An element is [ph, x, z] meaning  i^ph * (X^x1 Z^z1) (x) ... (x) (X^xn Z^zn),
   qubit 1 of the spec = qubit 0 of numqi = most significant bit of the basis index.
   Dense(P) is the textbook matrix (Kronecker product of 2x2 factors over Z[i]); the binary algebra below is
   proved equal to the matrix algebra by the invariants of MC_Pauli. *)
EXTENDS GF2, Ring
PauliSet(n) == [ph : 0..3, x : BitSeq(n), z : BitSeq(n)]
NQ(P) == Len(P.x)
PId(n) == [ph |-> 0, x |-> ZeroV(n), z |-> ZeroV(n)]
\* (X^a Z^b)(X^c Z^d) = (-1)^{b c} X^{a+c} Z^{b+d}
PMul(P, Q) == [ph |-> (P.ph + Q.ph + 2 * Dot(P.z, Q.x)) % 4, x |-> XorV(P.x, Q.x), z |-> XorV(P.z, Q.z)]
\* (X^x Z^z)^-1 = Z^z X^x = (-1)^{x.z} X^x Z^z
PInv(P) == [ph |-> (4 - P.ph + 2 * Dot(P.x, P.z)) % 4, x |-> P.x, z |-> P.z]
PCommute(P, Q) == (Dot(P.x, Q.z) + Dot(P.z, Q.x)) % 2 = 0
\* Hermitian  <=>  P^-1 = P
PHerm(P) == P.ph % 2 = Dot(P.x, P.z)
PPhase(P, k) == [P EXCEPT !.ph = (P.ph + k) % 4]
PNeg(P) == PPhase(P, 2)
PX(n, k) == [ph |-> 0, x |-> UnitV(n, k), z |-> ZeroV(n)]
PZ(n, k) == [ph |-> 0, x |-> ZeroV(n), z |-> UnitV(n, k)]
PY(n, k) == [ph |-> 1, x |-> UnitV(n, k), z |-> UnitV(n, k)]     \* Y = i X Z
PWeight(P) == SumSeq([k \in 1..NQ(P) |-> IF P.x[k] = 1 \/ P.z[k] = 1 THEN 1 ELSE 0])
PPow(P, b) == IF b = 1 THEN P ELSE PId(NQ(P))
\* ---- dense matrices over Z[i]
\* one-qubit factor X^x Z^z :  |c> -> (-1)^{z c} |c + x>
Factor(x, z) == [r \in 1..2 |-> [c \in 1..2 |->
                   IF (r - 1) = ((c - 1) + x) % 2 THEN (IF z = 1 /\ c = 2 THEN <<-1, 0>> ELSE GOne) ELSE GZero]]
RECURSIVE KronTo(_, _)
KronTo(P, k) == IF k = 1 THEN Factor(P.x[1], P.z[1]) ELSE GKron(KronTo(P, k - 1), Factor(P.x[k], P.z[k]))
Dense(P) == GMatScale(GIPow(P.ph), KronTo(P, NQ(P)))
=============================================================================
