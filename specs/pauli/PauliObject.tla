-------------------------------- MODULE PauliObject --------------------------------
(* numqi.gate.PauliOperator as an object with lazily evaluated views.  The abstract state is the group element the
   object denotes; a view (str_, sign, full_matrix, F2) never changes it and must return the encoding of the CURRENT
   element whatever views were evaluated before; inverse() and @ return a new object denoting PInv(p) / p*q.
   The specification has no caches: every observation is a function of the abstract element alone. *)
EXTENDS PauliEnc
VARIABLE p
Views == {"F2", "str", "sign", "dense"}
ViewValue(v) == CASE v = "F2" -> ToF2(p) [] v = "str" -> ToLetters(p) [] v = "sign" -> ToSign(p) [] OTHER -> Dense(p)
DoView(v) == UNCHANGED p
DoInverse == p' = PInv(p)
DoMul(q) == p' = PMul(p, q)
=============================================================================
