-------------------------------- MODULE Symplectic --------------------------------
(* Sp(2n,F2): matrices M (sequence of rows over F2) with M Lam M^T = Lam, Lam pairing coordinate i with i+n.
   Group order 2^(n^2) prod_{i=1..n} (4^i - 1); numqi indexes the group by mixed-radix tuples
   (a_1,b_1,...,a_n,b_n) with bases (4^i - 1, 2^(2i-1)). *)
EXTENDS GF2
RECURSIVE OrderSp(_)
OrderSp(n) == IF n = 0 THEN 1 ELSE OrderSp(n - 1) * (4^n - 1) * (2^(2*n - 1))
BaseSp(n) == [j \in 1..2*n |-> IF j % 2 = 1 THEN 4^((j + 1) \div 2) - 1 ELSE 2^(j - 1)]
\* closed-form inverse  Lam M^T Lam
InverseSp(M, n) == LET L == Lam(n) IN MatMul(MatMul(L, Transpose(M)), L)
\* transvection as a matrix acting on row vectors from the right: x |-> x + <x,h> h
TransvectRows(M, h, n) == [i \in 1..2*n |-> Transvect(M[i], h, n)]
NonZero(n) == BitSeq(2*n) \ {ZeroV(2*n)}
\* rows packed as integers, bit k-1 of the integer = column k (little endian), as logged by the harness
RowBit(v, k) == (v \div (2^(k - 1))) % 2
Unpack(rows, n) == [i \in 1..2*n |-> [k \in 1..2*n |-> RowBit(rows[i], k)]]
\* lexicographic successor in the mixed-radix domain
RECURSIVE SuccT(_, _, _)
SuccT(t, base, k) == IF k = 0 THEN t ELSE IF t[k] + 1 < base[k] THEN [t EXCEPT ![k] = t[k] + 1] ELSE SuccT([t EXCEPT ![k] = 0], base, k - 1)
InRange(t, n) == Len(t) = 2*n /\ \A k \in 1..2*n : t[k] >= 0 /\ t[k] < BaseSp(n)[k]
=============================================================================
