CONSTANTS N = 1
BruteForce = TRUE
SPECIFICATION Spec
INVARIANT SympOK
INVARIANT InverseOK
POSTCONDITION Post
