CONSTANTS QN = 2
MaxLen = 3
NApply = 3
Names1 = {"X","Y","Z","H","S"}
Names2 = {"CX","CY","CZ"}
Rnd1 = {}
Rnd2 = {}
SPECIFICATION Spec
INVARIANT Valid
INVARIANT IncOK
INVARIANT PadOK
