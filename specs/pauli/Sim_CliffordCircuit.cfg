CONSTANTS QN = 4
MaxLen = 40
NApply = 3
Names1 = {"X","Y","Z","H","S"}
Names2 = {"CX","CY","CZ"}
SPECIFICATION Spec
INVARIANT Valid
INVARIANT IncOK
