CONSTANTS N = 1
SPECIFICATION Spec
INVARIANT TypeOK
INVARIANT CyclesOK
INVARIANT DenseOK
INVARIANT InvOK
INVARIANT HermOK
INVARIANT PairOK
INVARIANT CodeOK
