SPECIFICATION Spec
POSTCONDITION Post
