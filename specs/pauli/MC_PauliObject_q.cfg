CONSTANTS N = 1
MaxLen = 4
SPECIFICATION Spec
INVARIANT TypeOK
INVARIANT InvolutionOK
