-------------------------------- MODULE Trace_Sp --------------------------------
(* Validation of recorded calls of numqi.group.spf2 (code -> spec).
   "enum" events must walk the mixed-radix index domain in lexicographic order without gaps (so the domain is covered
   exactly once); each event carries the tuple t, the matrix m = from_int_tuple(t) (rows packed as integers), the
   tuple b = to_int_tuple(m) and mi = inverse(m).  An event is accepted iff m is symplectic, b = t (left inverse =>
   injectivity) and mi is a two-sided inverse.  |domain| = |Sp(2n,F2)| (MC_Sp) then gives bijectivity.
   The file is [n, first, last, events]: shards overlap by one event; `first`/`last` assert the end points. *)
EXTENDS Symplectic, TLC, Json, IOUtils
D == JsonDeserialize(IOEnv.TRACE_FILE)
Events == D.events
VARIABLES l, prev
Zero(n) == [k \in 1..2*n |-> 0]
MaxT(n) == [k \in 1..2*n |-> BaseSp(n)[k] - 1]
EnumOK(e) == \E n \in {e.n} : \E m \in {TLCEval(Unpack(e.m, e.n))} : \E mi \in {TLCEval(Unpack(e.mi, e.n))} :
   /\ InRange(e.t, n)
   /\ IF l = 1 THEN (D.first => e.t = Zero(n)) ELSE e.t = SuccT(prev, BaseSp(n), 2*n)
   /\ (l = Len(Events) /\ D.last) => e.t = MaxT(n)
   /\ IsSymplectic(m, n)
   /\ e.b = e.t
   /\ MatMul(m, mi) = IdM(2*n) /\ MatMul(mi, m) = IdM(2*n)
   /\ mi = InverseSp(m, n)
Valid(e) ==
  CASE e.op = "enum" -> EnumOK(e)
    [] e.op = "ft" -> LET n == Len(e.v0) \div 2 IN Transvect(Transvect(e.v0, e.h0, n), e.h1, n) = e.v1
    [] e.op = "rand" -> LET n == e.n  m == Unpack(e.m, n) IN InRange(e.t, n) /\ IsSymplectic(m, n) /\ e.b = e.t
    [] e.op = "index" -> LET n == e.n  m == Unpack(e.m, n) IN IsSymplectic(m, n) /\ InRange(e.t, n) /\ Unpack(e.m2, n) = m
    \* events of single calls as the repository's own tests make them (harness/recorder.py)
    [] e.op = "inv" -> LET n == e.n  m == Unpack(e.m, n)  mi == Unpack(e.mi, n) IN IsSymplectic(m, n) /\ mi = InverseSp(m, n) /\ MatMul(m, mi) = IdM(2*n) /\ MatMul(mi, m) = IdM(2*n)
    [] e.op = "from_int" -> InRange(e.t, e.n) /\ IsSymplectic(Unpack(e.m, e.n), e.n)
    [] e.op = "to_int" -> IsSymplectic(Unpack(e.m, e.n), e.n) /\ InRange(e.b, e.n) /\ (e.t0 # <<>> => e.b = e.t0)
    [] e.op = "member" -> IsSymplectic(Unpack(e.m, e.n), e.n)
    [] OTHER -> FALSE
Init == l = 1 /\ prev = <<>> /\ TLCSet(1, 0)
Next == /\ l <= Len(Events)
        /\ IF Valid(Events[l]) THEN TLCSet(1, TLCGet(1) + 1) ELSE PrintT(<<"REJECT", l, Events[l].op>>)
        /\ l' = l + 1
        /\ prev' = IF Events[l].op = "enum" THEN Events[l].t ELSE prev
Spec == Init /\ [][Next]_<<l, prev>>
Post == PrintT(<<"ACCEPTED", TLCGet(1), Len(Events)>>)
=============================================================================
