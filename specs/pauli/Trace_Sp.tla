-------------------------------- MODULE Trace_Sp --------------------------------
(* Validation of recorded calls of numqi.group.spf2 (code -> spec).
   "enum" events must walk the mixed-radix index domain in lexicographic order without gaps (so the domain is covered
   exactly once); each event carries the tuple t, the matrix m = from_int_tuple(t) (rows packed as integers), the
   tuple b = to_int_tuple(m) and mi = inverse(m).  An event is accepted iff m is symplectic, b = t (left inverse =>
   injectivity) and mi is a two-sided inverse.  |domain| = |Sp(2n,F2)| (MC_Sp) then gives bijectivity.
   The file is [n, first, last, events]: shards overlap by one event; `first`/`last` assert the end points. *)
EXTENDS Symplectic, TLC, Json, IOUtils
D == JsonDeserialize(IOEnv.TRACE_FILE)
Events == D.events
VARIABLES l, prev
Zero(n) == [k \in 1..2*n |-> 0]
MaxT(n) == [k \in 1..2*n |-> BaseSp(n)[k] - 1]
EnumOK(e) == \E n \in {e.n} : \E m \in {TLCEval(Unpack(e.m, e.n))} : \E mi \in {TLCEval(Unpack(e.mi, e.n))} :
   /\ InRange(e.t, n)
   /\ IF l = 1 THEN (D.first => e.t = Zero(n)) ELSE e.t = SuccT(prev, BaseSp(n), 2*n)
   /\ (l = Len(Events) /\ D.last) => e.t = MaxT(n)
   /\ IsSymplectic(m, n)
   /\ e.b = e.t
   /\ MatMul(m, mi) = IdM(2*n) /\ MatMul(mi, m) = IdM(2*n)
   /\ mi = InverseSp(m, n)
\* ---- the counting functions for large n: |Sp(2n,F2)| = prod_{i=1..n} (4^i - 1) 2^(2i-1) exceeds 32 bits from n = 4 on, so the numbers are
\*      carried as little-endian sequences of base-1000 limbs and multiplied here by factors < 2^21 (1000 * 2^21 < 2^31).
BigNorm(x) == IF x = <<>> THEN <<0>> ELSE x
BigMulSmall(x, k) ==          \* x * k
   LET r == FoldLeft(LAMBDA acc, limb : [out |-> Append(acc.out, (limb * k + acc.carry) % 1000), carry |-> (limb * k + acc.carry) \div 1000], [out |-> <<>>, carry |-> 0], x)
       RECURSIVE Flush(_, _)
       Flush(out, c) == IF c = 0 THEN out ELSE Flush(Append(out, c % 1000), c \div 1000)
   IN Flush(r.out, r.carry)
RECURSIVE BigStrip(_)
BigStrip(x) == IF Len(x) > 1 /\ x[Len(x)] = 0 THEN BigStrip(SubSeq(x, 1, Len(x) - 1)) ELSE x
BigOrder(n) == FoldLeft(LAMBDA acc, i : BigMulSmall(BigMulSmall(acc, 4^i - 1), 2^(2*i - 1)), <<1>>, [i \in 1..n |-> i])
BigProd(ks) == FoldLeft(LAMBDA acc, k : BigMulSmall(acc, k), <<1>>, ks)
NumbersOK(e) == /\ e.nonneg                                              \* a negative "order" has no limbs
                /\ BigStrip(e.order) = BigOrder(e.n)                      \* get_number(n, 'order')
                /\ e.base = BaseSp(e.n) /\ BigProd(e.base) = BigOrder(e.n)   \* the mixed-radix bases and their product
                /\ Len(e.coset) = e.n /\ \A i \in 1..e.n : BigStrip(e.coset[i]) = BigMulSmall(BigMulSmall(<<1>>, 4^i - 1), 2^(2*i - 1))
Valid(e) ==
  CASE e.op = "enum" -> EnumOK(e)
    [] e.op = "numbers" -> NumbersOK(e)
    [] e.op = "ft" -> LET n == Len(e.v0) \div 2 IN Transvect(Transvect(e.v0, e.h0, n), e.h1, n) = e.v1
    \* get_inner_product(rows, v): the symplectic form of every row of a batch with v;  bits: int_to_bitarray(i, n) is the little-endian
    \* expansion of i in n bits and bitarray_to_int its inverse (i below 2^n, given in limbs of 15 bits so that n may exceed 31)
    [] e.op = "ip" -> LET n == Len(e.v) \div 2 IN Len(e.res) = Len(e.rows) /\ \A i \in 1..Len(e.rows) : e.res[i] = SympForm(e.rows[i], e.v, n)
    [] e.op = "bits" -> /\ Len(e.bits) = e.n /\ e.back = e.limbs
                        /\ \A k \in 1..e.n : e.bits[k] = (e.limbs[((k - 1) \div 15) + 1] \div 2^((k - 1) % 15)) % 2
    [] e.op = "tv" -> LET n == Len(e.hs[1]) \div 2 IN /\ Len(e.rows) = Len(e.res)          \* transvection(x, *hs) on an array of any batch shape acts row by row
                                                       /\ \A i \in 1..Len(e.rows) : FoldLeft(LAMBDA v, h : Transvect(v, h, n), e.rows[i], e.hs) = e.res[i]
    [] e.op = "rand" -> LET n == e.n  m == Unpack(e.m, n) IN InRange(e.t, n) /\ IsSymplectic(m, n) /\ e.b = e.t
    [] e.op = "index" -> LET n == e.n  m == Unpack(e.m, n) IN IsSymplectic(m, n) /\ InRange(e.t, n) /\ Unpack(e.m2, n) = m
    \* events of single calls as the repository's own tests make them (harness/recorder.py)
    [] e.op = "inv" -> LET n == e.n  m == Unpack(e.m, n)  mi == Unpack(e.mi, n) IN IsSymplectic(m, n) /\ mi = InverseSp(m, n) /\ MatMul(m, mi) = IdM(2*n) /\ MatMul(mi, m) = IdM(2*n)
    [] e.op = "from_int" -> InRange(e.t, e.n) /\ IsSymplectic(Unpack(e.m, e.n), e.n)
    [] e.op = "to_int" -> IsSymplectic(Unpack(e.m, e.n), e.n) /\ InRange(e.b, e.n) /\ (e.t0 # <<>> => e.b = e.t0)
    [] e.op = "member" -> IsSymplectic(Unpack(e.m, e.n), e.n)
    [] OTHER -> FALSE
Init == l = 1 /\ prev = <<>> /\ TLCSet(1, 0)
Next == /\ l <= Len(Events)
        /\ IF Valid(Events[l]) THEN TLCSet(1, TLCGet(1) + 1) ELSE PrintT(<<"REJECT", l, Events[l].op>>)
        /\ l' = l + 1
        /\ prev' = IF Events[l].op = "enum" THEN Events[l].t ELSE prev
Spec == Init /\ [][Next]_<<l, prev>>
Post == PrintT(<<"ACCEPTED", TLCGet(1), Len(Events)>>)
=============================================================================
