CONSTANTS N = 2
BruteForce = TRUE
SPECIFICATION Spec
INVARIANT SympOK
INVARIANT InverseOK
POSTCONDITION Post
