-------------------------------- MODULE MC_PauliObject --------------------------------
(* all histories of views / inverse / products up to MaxLen on every start element of the N-qubit group *)
EXTENDS PauliObject, TLC
CONSTANTS N, MaxLen
VARIABLES start, hist
Muls == {PX(N, 1), PPhase(PZ(N, N), 1)}
Init == p \in PauliSet(N) /\ start = p /\ hist = <<>>
Next == /\ Len(hist) < MaxLen
        /\ UNCHANGED start
        /\ \/ \E v \in Views \ {"F2"} : DoView(v) /\ hist' = Append(hist, <<"view", v>>)
           \/ DoInverse /\ hist' = Append(hist, <<"inverse", "">>)
           \/ \E q \in Muls : DoMul(q) /\ hist' = Append(hist, <<"mul", ToF2(q)>>)
Spec == Init /\ [][Next]_<<p, start, hist>>
TypeOK == p \in PauliSet(N)
InvolutionOK == PInv(PInv(p)) = p
=============================================================================
