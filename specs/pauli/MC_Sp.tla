-------------------------------- MODULE MC_Sp --------------------------------
(* Sp(2N,F2) generated as a state machine: state = a matrix, action = multiply by the transvection of any non-zero h.
   Transvections generate the symplectic group, so the reachable set is the whole group; TLC's distinct-state count is
   compared with the order formula (postcondition) and, for N <= 2, with a brute-force count over all binary matrices. *)
EXTENDS Symplectic, TLC, FiniteSets
CONSTANTS N, BruteForce
VARIABLES M, inv
Init == M = IdM(2*N) /\ inv = InverseSp(M, N)
Next == \E h \in NonZero(N) : M' = TransvectRows(M, h, N) /\ inv' = InverseSp(M', N)
Spec == Init /\ [][Next]_<<M, inv>>
SympOK == IsSymplectic(M, N) /\ IsSymplectic(Transpose(M), N)
InverseOK == MatMul(M, inv) = IdM(2*N) /\ MatMul(inv, M) = IdM(2*N)
CountOK == TLCGet("distinct") = OrderSp(N)
ASSUME BruteForce => Cardinality({A \in [1..2*N -> BitSeq(2*N)] : IsSymplectic(A, N)}) = OrderSp(N)
Post == PrintT(<<"ORDER", TLCGet("distinct"), OrderSp(N)>>) /\ CountOK
=============================================================================
