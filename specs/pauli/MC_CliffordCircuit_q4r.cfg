CONSTANTS QN = 2
MaxLen = 4
NApply = 1
Names1 = {"H"}
Names2 = {}
Rnd1 = {"I", "S"}
Rnd2 = {"CZ"}
SPECIFICATION Spec
INVARIANT Valid
INVARIANT IncOK
INVARIANT PadOK
