-------------------------------- MODULE Clifford --------------------------------
(* Clifford operations as Pauli-group automorphisms.  A tableau T = [imX, imZ] lists the images (phased Paulis) of
   X_k and Z_k under P |-> V P V^dagger.  Act(T, P) is computed by the group law only (product of images);
   there is no closed-form phase formula in the specification.  The tableaux of the elementary gates are not
   postulated: GateOK (checked by TLC in MC_CliffordGates) derives them from the dense gate matrices by conjugation. *)
EXTENDS PauliEnc
NT(T) == Len(T.imX)
IdT(n) == [imX |-> [k \in 1..n |-> PX(n, k)], imZ |-> [k \in 1..n |-> PZ(n, k)]]
RECURSIVE ActTo(_, _, _)
ActTo(T, P, k) == IF k = 0 THEN PPhase(PId(NT(T)), P.ph)
                  ELSE PMul(ActTo(T, P, k - 1), PMul(PPow(T.imX[k], P.x[k]), PPow(T.imZ[k], P.z[k])))
Act(T, P) == ActTo(T, P, NT(T))
\* Compose(T, G)(P) = T(G(P))   (G first, then T)
Compose(T, G) == TLCEval([imX |-> [k \in 1..NT(T) |-> Act(T, G.imX[k])], imZ |-> [k \in 1..NT(T) |-> Act(T, G.imZ[k])]])
\* a tableau is a valid automorphism iff the images are Hermitian and satisfy the canonical commutation relations
ValidT(T) == LET n == NT(T) IN
   /\ \A k \in 1..n : PHerm(T.imX[k]) /\ PHerm(T.imZ[k])
   /\ \A j, k \in 1..n : /\ PCommute(T.imX[j], T.imX[k]) /\ PCommute(T.imZ[j], T.imZ[k])
                         /\ PCommute(T.imX[j], T.imZ[k]) <=> (j # k)
\* ---- the library's (r, S) form: column j of S = (x;z) part of the image of generator j (X_1..X_n, Z_1..Z_n),
\*      r_j = sign bit of that image written as +/- a tensor product of letters I,X,Y,Z
Gen(T, j) == IF j <= NT(T) THEN T.imX[j] ELSE T.imZ[j - NT(T)]
ToR(T) == [j \in 1..2*NT(T) |-> ToSign(Gen(T, j)) \div 2]
ToS(T) == [i \in 1..2*NT(T) |-> [j \in 1..2*NT(T) |-> IF i <= NT(T) THEN Gen(T, j).x[i] ELSE Gen(T, j).z[i - NT(T)]]]
HermFromXZ(x, z, r) == [ph |-> (2 * r + DotZ(x, z)) % 4, x |-> x, z |-> z]
FromRS(r, S) == LET n == Len(r) \div 2
                    img(j) == HermFromXZ([i \in 1..n |-> S[i][j]], [i \in 1..n |-> S[n + i][j]], r[j])
                IN [imX |-> [k \in 1..n |-> img(k)], imZ |-> [k \in 1..n |-> img(n + k)]]
\* ---- elementary gates.  g = [k |-> name, a |-> qubit, b |-> second qubit or 0]; for CX/CY/CZ a = control, b = target.
\* GateT(g, n)   : P |-> g P g^dagger          DaggerT(g, n) : P |-> g^dagger P g
Put(T, k, ix, iz) == [T EXCEPT !.imX[k] = ix, !.imZ[k] = iz]
GateT(g, n) ==
  LET a == g.a  b == g.b  I0 == IdT(n) IN
  CASE g.k = "X" -> [I0 EXCEPT !.imZ[a] = PNeg(PZ(n, a))]
    [] g.k = "Y" -> [I0 EXCEPT !.imZ[a] = PNeg(PZ(n, a)), !.imX[a] = PNeg(PX(n, a))]
    [] g.k = "Z" -> [I0 EXCEPT !.imX[a] = PNeg(PX(n, a))]
    [] g.k = "H" -> [I0 EXCEPT !.imX[a] = PZ(n, a), !.imZ[a] = PX(n, a)]
    [] g.k = "S" -> [I0 EXCEPT !.imX[a] = PY(n, a)]
    [] g.k = "CX" -> [I0 EXCEPT !.imX[a] = PMul(PX(n, a), PX(n, b)), !.imZ[b] = PMul(PZ(n, a), PZ(n, b))]
    [] g.k = "CZ" -> [I0 EXCEPT !.imX[a] = PMul(PX(n, a), PZ(n, b)), !.imX[b] = PMul(PZ(n, a), PX(n, b))]
    [] g.k = "CY" -> [I0 EXCEPT !.imX[a] = PMul(PX(n, a), PY(n, b)), !.imX[b] = PMul(PZ(n, a), PX(n, b)),
                                !.imZ[b] = PMul(PZ(n, a), PZ(n, b))]
DaggerT(g, n) == IF g.k = "S" THEN [IdT(n) EXCEPT !.imX[g.a] = PNeg(PY(n, g.a))] ELSE GateT(g, n)
GateNames1 == {"X", "Y", "Z", "H", "S"}
GateNames2 == {"CX", "CY", "CZ"}
Gates(n) == [k : GateNames1, a : 1..n, b : {0}] \cup {g \in [k : GateNames2, a : 1..n, b : 1..n] : g.a # g.b}
\* ---- dense gate matrices over Z[i] with a common scale:  true matrix = M / sqrt(Scale)
M1(name) == CASE name = "X" -> Sigma(1) [] name = "Y" -> Sigma(2) [] name = "Z" -> Sigma(3)
              [] name = "H" -> <<<<GOne, GOne>>, <<GOne, <<-1, 0>>>>>>
              [] name = "S" -> <<<<GOne, GZero>>, <<GZero, GI>>>>
Scale(name) == IF name = "H" THEN 2 ELSE 1
\* n-qubit embedding by the textbook definition: entry [r][c] on basis indices (qubit 1 = most significant bit)
BitOf(b, q, n) == (b \div 2^(n - q)) % 2
SameExcept(r, c, qs, n) == \A q \in (1..n) \ qs : BitOf(r, q, n) = BitOf(c, q, n)
DenseGate(g, n) ==
  [r \in 1..2^n |-> [c \in 1..2^n |->
     IF g.b = 0 THEN (IF SameExcept(r - 1, c - 1, {g.a}, n) THEN M1(g.k)[BitOf(r - 1, g.a, n) + 1][BitOf(c - 1, g.a, n) + 1] ELSE GZero)
     ELSE LET base == IF g.k = "CX" THEN "X" ELSE IF g.k = "CY" THEN "Y" ELSE "Z" IN
          IF ~SameExcept(r - 1, c - 1, {g.b}, n) THEN GZero
          ELSE IF BitOf(c - 1, g.a, n) = 0 THEN (IF r = c THEN GOne ELSE GZero)
          ELSE M1(base)[BitOf(r - 1, g.b, n) + 1][BitOf(c - 1, g.b, n) + 1]]]
GScaleOf(g) == IF g.b = 0 THEN Scale(g.k) ELSE 1
\* conjugation check:  M Dense(P) M^dagger = scale * Dense(GateT(P))   and   M^dagger Dense(P) M = scale * Dense(DaggerT(P))
GateOK(g, n) == LET M == DenseGate(g, n)  Md == GDagger(M)  s == <<GScaleOf(g), 0>> IN
   \A P \in {PX(n, k) : k \in 1..n} \cup {PZ(n, k) : k \in 1..n} \cup {PY(n, k) : k \in 1..n} :
      /\ GMatMul(GMatMul(M, Dense(P)), Md) = GMatScale(s, Dense(Act(GateT(g, n), P)))
      /\ GMatMul(GMatMul(Md, Dense(P)), M) = GMatScale(s, Dense(Act(DaggerT(g, n), P)))
      /\ GMatMul(M, Md) = GMatScale(s, GIdent(2^n))
\* ---- circuits: gates g_1..g_m appended in this order, U = g_m ... g_1.
\* numqi's CliffordCircuit represents  P |-> U^dagger P U;  appending g gives  P |-> U^dagger (g^dagger P g) U
\* (a left fold: the tableau after the first j gates composed with the dagger tableau of gate j+1)
CircuitT(gs, n) == FoldLeft(LAMBDA T, g : Compose(T, DaggerT(g, n)), IdT(n), gs)
Max2(a, b) == IF a > b THEN a ELSE b
NumQubit(gs) == FoldLeft(LAMBDA m, g : Max2(m, Max2(g.a, g.b)), 0, gs)
=============================================================================
