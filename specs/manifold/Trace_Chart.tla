-------------------------------- MODULE Trace_Chart --------------------------------
(* C02 on recorded differentials.  An event carries the autograd Jacobian J (m x n, outputs realified) of one chart at a generic
   parameter point, rounded to integers at scale S, and two certificates computed by the harness from its singular value
   decomposition:
     lower bound  U (m x k), V (n x k), sig (k):   U^T J V = diag(sig) + E with |E_ij| <= eps, every sig_i >= floor and ||E||_F < floor
                  => U^T J V is invertible (smallest singular value >= floor - ||E||_2 > 0) => rank J >= k;
     upper bound  N (n x (n-k)) with orthonormal columns and J N = 0 up to eps  => the kernel has dimension >= n - k.
   k must be ChartRank(a) and n must be ParamCount(a) - the two tables of Charts.tla.  Sums of products of two scale-S integers are
   brought back to scale S with ONE rounding per inner product (quotients and remainders are accumulated separately), and every
   intermediate stays inside 32 bits. *)
EXTENDS Charts, Sequences, SequencesExt, TLC, Json, IOUtils
Events == JsonDeserialize(IOEnv.TRACE_FILE)
VARIABLE l
IAbs(x) == IF x < 0 THEN -x ELSE x
RDiv(x, S) == (x + S \div 2) \div S
\* Inner products at scale S without accumulating a rounding per term: every product x = a*b is split into the quotient x \div S and the remainder x - S*(x \div S)
\* (TLC: floor division, non-negative remainder), the quotients and the remainders are summed separately (both stay inside 32 bits)
\* and only the sum of the remainders is rounded.
Acc(acc, x, S) == <<acc[1] + x \div S, acc[2] + (x - S * (x \div S))>>
Fin(acc, S) == acc[1] + RDiv(acc[2], S)
\* (A^T B)[i][j] for A (p x q), B (p x r), result at scale S
TMul(A, B, i, j, S) == Fin(FoldLeft(LAMBDA acc, t : Acc(acc, A[t][i] * B[t][j], S), <<0, 0>>, [t \in 1..Len(A) |-> t]), S)
\* (A B)[i][j] for A (p x q), B (q x r)
MMul(A, B, i, j, S) == Fin(FoldLeft(LAMBDA acc, t : Acc(acc, A[i][t] * B[t][j], S), <<0, 0>>, [t \in 1..Len(B) |-> t]), S)
Cols(M) == IF M = <<>> THEN 0 ELSE Len(M[1])
LowerOK(e, k) == \E T \in {TLCEval([i \in 1..Len(e.J) |-> [j \in 1..k |-> MMul(e.J, e.V, i, j, e.S)]])} :       \* T = J V   (m x k)
   /\ Cols(e.U) = k /\ Cols(e.V) = k /\ Len(e.sig) = k /\ Len(e.U) = Len(e.J) /\ Len(e.V) = Cols(e.J)
   /\ \A i \in 1..k : e.sig[i] >= e.floor
   /\ e.floor >= 1 /\ e.floor <= 46000
   /\ \E E \in {TLCEval([i \in 1..k |-> [j \in 1..k |-> TMul(e.U, T, i, j, e.S) - (IF i = j THEN e.sig[i] ELSE 0)]])} :     \* E = U^T J V - diag(sig)
        /\ \A i, j \in 1..k : IAbs(E[i][j]) <= e.eps
        \* U^T J V = diag(sig) + E is invertible when the smallest sig exceeds the spectral norm of E, which the Frobenius norm bounds
        /\ FoldLeft(LAMBDA acc, i : acc + FoldLeft(LAMBDA a2, j : a2 + E[i][j] * E[i][j], 0, [j \in 1..k |-> j]), 0, [i \in 1..k |-> i]) < e.floor * e.floor
UpperOK(e, k) == LET n == Cols(e.J)  q == n - k IN
   IF q = 0 THEN e.N = <<>> \/ Cols(e.N) = 0
   ELSE /\ Len(e.N) = n /\ Cols(e.N) = q
        /\ \A i, j \in 1..q : IAbs(TMul(e.N, e.N, i, j, e.S) - (IF i = j THEN e.S ELSE 0)) <= e.eps           \* orthonormal columns
        /\ \A i \in 1..Len(e.J) : \A j \in 1..q : IAbs(MMul(e.J, e.N, i, j, e.S)) <= e.eps                     \* J N = 0
ChartOK(e) == \E k \in {ChartRank(e.a)} :
   /\ Cols(e.J) = ParamCount(e.a)                     \* the constructor's parameter count is the documented one
   /\ e.S >= 1000 /\ e.eps * 50 <= e.S                \* the tolerances are the specification's, not the harness's: eps <= 2% of the scale
   /\ LowerOK(e, k) /\ UpperOK(e, k)
Why(e) == LET k == ChartRank(e.a) IN
   IF Cols(e.J) # ParamCount(e.a) THEN "parameter-count" ELSE IF ~LowerOK(e, k) THEN "rank-below-the-dimension" ELSE "rank-above-the-dimension"
Init == l = 1 /\ TLCSet(1, 0)
Next == /\ l <= Len(Events)
        /\ IF ChartOK(Events[l]) THEN TLCSet(1, TLCGet(1) + 1) ELSE PrintT(<<"REJECT", l, Events[l].a.cls, Why(Events[l])>>)
        /\ l' = l + 1
Spec == Init /\ [][Next]_l
Post == PrintT(<<"ACCEPTED", TLCGet(1), Len(Events)>>)
=============================================================================
