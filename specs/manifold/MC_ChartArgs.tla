-------------------------------- MODULE MC_ChartArgs --------------------------------
(* The charts of numqi.manifold whose differential C02 speaks about, with the two integers the property fixes for each:
     ParamCount(a) - the length of the parameter vector the constructor documents,
     ChartRank(a)  - the rank the differential must have at a generic point: the dimension of the manifold, or the parameter count
                     for the minimal-parameter charts whose image is a proper submanifold (Euler without phases, Cholesky-L, the
                     special-orthogonal / special-unitary columns when rank = dim).
   TLC enumerates the descriptors and checks the arithmetic relations between the two tables. *)
EXTENDS Charts, TLC
VARIABLE a
Init == a \in {c \in Calls : Admissible(c)}
Next == UNCHANGED a
Spec == Init /\ [][Next]_a
\* a chart cannot have more independent directions than parameters, nor than the manifold has dimensions
RankOK == ChartRank(a) >= 1 /\ ChartRank(a) <= ParamCount(a) /\ ChartRank(a) <= ManifoldDim(a)
\* the charts the property names as onto the whole manifold
OntoOK == (a.cls \in {"Sphere", "Ball", "Trace1PSD", "DiscreteProbability", "SpecialOrthogonal"} \/ (a.cls = "Stiefel" /\ a.method \in {"qr", "polar"})
           \/ (a.cls = "SymmetricMatrix" /\ a.opt < 2)) => ChartRank(a) = ManifoldDim(a)
=============================================================================
