CONSTANTS DMax = 6
BatchSet = {0, 1, 2, 3}
SPECIFICATION Spec
INVARIANT TypeOK
