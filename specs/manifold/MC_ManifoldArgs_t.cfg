CONSTANTS DMax = 6
BatchSet = {0, 1, 2, 3}
ExpDims = {2, 5, 6, 8, 10}
SPECIFICATION Spec
INVARIANT TypeOK
