SPECIFICATION Spec
POSTCONDITION Post
