CONSTANTS DMax = 4
BatchSet = {0, 1, 2}
ExpDims = {4, 8}
SPECIFICATION Spec
INVARIANT TypeOK
