CONSTANTS DMax = 4
BatchSet = {0, 1, 2}
SPECIFICATION Spec
INVARIANT TypeOK
