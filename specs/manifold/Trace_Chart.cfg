CONSTANTS DMax = 6
SPECIFICATION Spec
POSTCONDITION Post
