CONSTANTS DMax = 3
SPECIFICATION Spec
INVARIANT RankOK
INVARIANT OntoOK
