CONSTANTS DMax = 4
SPECIFICATION Spec
INVARIANT RankOK
INVARIANT OntoOK
