CONSTANTS DMax = 5
SPECIFICATION Spec
INVARIANT RankOK
INVARIANT OntoOK
