-------------------------------- MODULE Trace_Manifold --------------------------------
(* Recorded outputs of numqi.manifold (module forward and functional maps, NumPy and PyTorch) validated against the defining
   constraints of the manifold each class names.  An event is one call descriptor of MC_ManifoldArgs together with membership
   claims about the outputs rounded to Gaussian integers at scale S (Sets.tla decides them) and three further kinds:
     simplex   : entries >= 0 (beyond rounding) and sum = S            interval : lo*S <= v <= hi*S
     positive  : v > 0 (values are clipped at 10^9 before rounding)   trace0   : |Tr M| small          norm1 : Frobenius norm^2 = S^2
     sepdecomp : rho = sum_i p_i |a_i b_i><a_i b_i| with p on the simplex and a_i, b_i unit - the decomposition the module itself
                 holds, verified here against the returned matrix (a certificate of separability)
     same      : two recordings of what must be one value (module vs functional map, PyTorch vs NumPy, batched vs per sample)
   MRequired(a) lists the claims an event of a class must carry. *)
EXTENDS Sets, TLC, Json, IOUtils
Events == JsonDeserialize(IOEnv.TRACE_FILE)
VARIABLE l
SumRe(v) == FoldLeft(LAMBDA acc, z : acc + z[1], 0, v)
FlatM(M) == FoldLeft(LAMBDA acc, row : acc \o row, <<>>, M)
SameV(x, y) == Len(x) = Len(y) /\ \A k \in 1..Len(x) : Near(x[k], y[k], 3)
\* (a (x) b)(a (x) b)^dagger entry [(i,j),(k,m)] = a_i b_j conj(a_k) conj(b_m)
\* staged so that every intermediate stays inside 32 bits: each product of two scale-S numbers is brought back to scale S
DivG(z, S) == <<z[1] \div S, z[2] \div S>>
SepEntry(p, A, B, dB, r, c, S) == LET i == (r - 1) \div dB + 1  j == ModI(r - 1, dB) + 1  k == (c - 1) \div dB + 1  m == ModI(c - 1, dB) + 1 IN
   GSum([t \in 1..Len(p) |-> GScale(p[t][1], DivG(GMul(DivG(GMul(A[t][i], GConj(A[t][k])), S), DivG(GMul(B[t][j], GConj(B[t][m])), S)), S))])      \* scale S^2
MClaimOK(c, S) ==
  CASE c.c = "simplex" -> /\ \A k \in 1..Len(c.v) : c.v[k][1] >= -2 /\ c.v[k][2] = 0
                          /\ IAbs(SumRe(c.v) - S) <= Len(c.v) + 1
    [] c.c = "interval" -> \A k \in 1..Len(c.v) : c.v[k][2] = 0 /\ c.v[k][1] >= c.lo * S - 1 /\ c.v[k][1] <= c.hi * S + 1
    [] c.c = "positive" -> \A k \in 1..Len(c.v) : c.v[k][2] = 0 /\ c.v[k][1] >= 0 /\ c.pos[k]            \* pos: the unrounded value is > 0
    [] c.c = "trace0" -> IAbs(FoldLeft(LAMBDA acc, i : acc + c.M[i][i][1], 0, [i \in 1..Len(c.M) |-> i])) <= Len(c.M) + 1
    [] c.c = "norm1" -> IAbs(Norm2(FlatM(c.M)) - S * S) <= Tol2(S)
    [] c.c = "sepdecomp" -> /\ \A k \in 1..Len(c.p) : c.p[k][1] >= -2
                            /\ IAbs(SumRe(c.p) - S) <= Len(c.p) + 1
                            /\ \A t \in 1..Len(c.A) : IAbs(Norm2(c.A[t]) - S * S) <= Tol2(S) /\ IAbs(Norm2(c.B[t]) - S * S) <= Tol2(S)
                            /\ \A r, cc \in 1..Len(c.M) : Near(SepEntry(c.p, c.A, c.B, c.dB, r, cc, S), GScale(S, c.M[r][cc]), Tol2(S))
    [] c.c = "same" -> SameV(c.x, c.y)
    [] OTHER -> ClaimOK(c, S)
MRequired(a) ==
  CASE a.cls = "PositiveReal" -> {"positive", "same"}
    [] a.cls = "OpenInterval" -> {"interval", "same"}
    [] a.cls = "Trace1PSD" -> {"hermitian", "trace1", "gram", "shape", "same"} \cup (IF a.cplx THEN {} ELSE {"real"})
    [] a.cls = "ExpTrace1PSD" -> {"hermitian", "trace1", "gram", "shape", "same"} \cup (IF a.cplx THEN {} ELSE {"real"})
    [] a.cls = "SymmetricMatrix" -> {"hermitian", "shape", "same"} \cup (IF a.cplx THEN {} ELSE {"real"}) \cup (IF ModI(a.opt, 2) = 1 THEN {"trace0"} ELSE {}) \cup (IF a.opt >= 2 THEN {"norm1"} ELSE {})
    [] a.cls = "Ball" -> {"ball", "len", "same"} \cup (IF a.cplx THEN {} ELSE {"realv"})
    [] a.cls = "Sphere" -> {"unit", "len", "same"} \cup (IF a.cplx THEN {} ELSE {"realv"})
    [] a.cls = "DiscreteProbability" -> {"simplex", "len", "same"}
    [] a.cls = "SpecialOrthogonal" -> {"unitary", "shape", "same"} \cup (IF a.cplx THEN {} ELSE {"real"}) \cup (IF a.d <= 3 /\ ~(a.cplx /\ a.method = "cayley") THEN {"det1"} ELSE {})   \* det = 1 where the construction guarantees it
    [] a.cls = "Stiefel" -> {"isometry", "shape", "same"} \cup (IF a.cplx THEN {} ELSE {"real"})
    [] a.cls = "QuantumChannel" -> IF a.opt = 0 THEN {"kraus", "same"} ELSE {"hermitian", "gram", "tp", "same"}
    [] a.cls = "SeparableDensityMatrix" -> {"hermitian", "trace1", "gram", "sepdecomp", "same"}
    [] a.cls \in {"ABkHermitian", "ABk2localHermitian"} -> {"hermitian", "shape"} \cup (IF a.opt = 2 THEN {"symB"} ELSE {})
    [] OTHER -> {"no such class"}
EventOK(e) == /\ MRequired(e.a) \subseteq {e.claims[i].c : i \in 1..Len(e.claims)}
              /\ \A i \in 1..Len(e.claims) : MClaimOK(e.claims[i], e.S)
Why(e) == IF ~(MRequired(e.a) \subseteq {e.claims[i].c : i \in 1..Len(e.claims)}) THEN "a required claim is missing"
          ELSE e.claims[CHOOSE i \in 1..Len(e.claims) : ~MClaimOK(e.claims[i], e.S)].c
Init == l = 1 /\ TLCSet(1, 0)
Next == /\ l <= Len(Events)
        /\ IF EventOK(Events[l]) THEN TLCSet(1, TLCGet(1) + 1) ELSE PrintT(<<"REJECT", l, Events[l].a.cls, Why(Events[l])>>)
        /\ l' = l + 1
Spec == Init /\ [][Next]_l
Post == PrintT(<<"ACCEPTED", TLCGet(1), Len(Events)>>)
=============================================================================
