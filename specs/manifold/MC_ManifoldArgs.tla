-------------------------------- MODULE MC_ManifoldArgs --------------------------------
(* The option lattice of numqi.manifold: every class x method x field (real/complex) x precision x batch shape x dimension x
   rank x magnitude of the parameter vector, as far as the constructors document it.  TLC enumerates the admissible
   descriptors; the harness instantiates each one (or a residue class of them), sets the parameters, and records the output
   with the membership claims that Trace_Manifold decides.
     cls     class name                         method  the method option ("" when the class has none)
     d, r    dimension, rank (0 = None)         opt     cayley order / euler phase / trace0+2*norm1 / return kind (0/1) / weight
     cplx    complex field                      p32     single precision
     batch   0 = None, 1, 2 (,3)                mag     magnitude code of theta: 1 -> 0.3, 2 -> 2, 3 -> 20, 4 -> 100 *)
EXTENDS Integers, FiniteSets, TLC
CONSTANTS DMax, BatchSet, ExpDims
VARIABLE a
D(cls, method, d, r, opt, cplx, p32, batch, mag) == [cls |-> cls, method |-> method, d |-> d, r |-> r, opt |-> opt, cplx |-> cplx, p32 |-> p32, batch |-> batch, mag |-> mag]
Mags == 1..4
Calls ==
   {D("PositiveReal", m, 1, 0, 0, FALSE, p, b, g) : m \in {"softplus", "exp"}, p \in BOOLEAN, b \in BatchSet, g \in Mags}
   \cup {D("OpenInterval", "", 1, 0, o, FALSE, p, b, g) : o \in 0..1, p \in BOOLEAN, b \in BatchSet, g \in Mags}
   \cup {D("Trace1PSD", m, d, r, 0, c, p, b, g) : m \in {"cholesky", "ensemble"}, d \in 2..DMax, r \in 0..DMax, c \in BOOLEAN, p \in BOOLEAN, b \in BatchSet, g \in Mags}
   \cup {D("SymmetricMatrix", "", d, 0, o, c, p, b, g) : d \in 2..DMax, o \in 0..3, c \in BOOLEAN, p \in BOOLEAN, b \in BatchSet, g \in Mags}
   \cup {D("Ball", "", d, 0, 0, c, p, b, g) : d \in 2..DMax, c \in BOOLEAN, p \in BOOLEAN, b \in BatchSet, g \in Mags}
   \cup {D("Sphere", m, d, 0, 0, c, p, b, g) : m \in {"quotient", "coordinate"}, d \in 2..DMax, c \in BOOLEAN, p \in BOOLEAN, b \in BatchSet, g \in Mags}
   \cup {D("DiscreteProbability", m, d, 0, o, FALSE, p, b, g) : m \in {"softmax", "sphere"}, d \in 2..DMax, o \in 0..1, p \in BOOLEAN, b \in BatchSet, g \in Mags}
   \cup {D("SpecialOrthogonal", m, d, 0, o, c, p, b, g) : m \in {"exp", "cayley"}, d \in 2..DMax, o \in 1..3, c \in BOOLEAN, p \in BOOLEAN, b \in BatchSet, g \in Mags}
   \cup {D("Stiefel", m, d, r, o, c, p, b, g) : m \in {"choleskyL", "qr", "polar", "so-exp", "so-cayley", "euler"}, d \in 2..DMax, r \in 1..DMax, o \in 0..1, c \in BOOLEAN, p \in BOOLEAN, b \in BatchSet, g \in Mags}
   \cup {D("QuantumChannel", m, d, r, o, TRUE, p, b, g) : m \in {"choleskyL", "qr", "polar", "so-exp", "so-cayley"}, d \in 2..3, r \in 1..3, o \in 0..1, p \in BOOLEAN, b \in BatchSet, g \in Mags}
   \cup {D("SeparableDensityMatrix", "", d, r, 0, TRUE, p, b, g) : d \in 2..3, r \in 2..3, p \in BOOLEAN, b \in BatchSet, g \in Mags}
   \* Hermitian operators on A (x) B^k that are invariant under permutations of the B copies (d = dim A, r = dim B, opt = k); no batch option
   \cup {D(c, "", d, r, k, TRUE, p, 0, g) : c \in {"ABkHermitian", "ABk2localHermitian"}, d \in 2..3, r \in 2..2, k \in 1..2, p \in BOOLEAN, g \in Mags}
   \* the exponential trivialization of density matrices, symmetric_matrix_to_trace1PSD (used by numqi.maximum_entropy): a functional map
   \* without a wrapper class.  It switches from a dense to an iterative eigenvalue routine above dimension 5, so the dimensions of the
   \* instance (ExpDims) lie on both sides; opt = shape of the spectrum (0 generic, 1 dominated by a large negative eigenvalue, 2 by a
   \* large positive one) - the map subtracts the largest eigenvalue so that no magnitude overflows
   \cup {D("ExpTrace1PSD", "", d, 0, o, c, FALSE, b, g) : d \in ExpDims, o \in 0..2, c \in BOOLEAN, b \in BatchSet, g \in {1, 3, 4}}
\* the documented domain
Admissible(c) ==
  CASE c.cls = "PositiveReal" -> ~(c.method = "exp" /\ c.mag = 4)                      \* exp(100) is not representable in single precision; exp is used up to 20
    [] c.cls = "Trace1PSD" -> c.r <= c.d
    [] c.cls = "SpecialOrthogonal" -> (c.method = "exp" => c.opt = 1)                 \* cayley order only matters for the Cayley map
    [] c.cls = "Stiefel" -> /\ c.r <= c.d
                            /\ (c.method # "euler" => c.opt = 0)                       \* euler_with_phase only for the Euler map
                            /\ (c.method = "euler" /\ c.opt = 1 => c.cplx)             \* a phase needs a complex matrix
                            /\ (c.method = "choleskyL" => c.mag <= 2)                  \* conditioning bound 10 of the Cholesky-L map
    [] c.cls = "QuantumChannel" -> c.method = "choleskyL" => c.mag <= 2               \* d = dim_in, r = dim_out
    [] OTHER -> TRUE
Init == a \in {c \in Calls : Admissible(c)}
Next == UNCHANGED a
Spec == Init /\ [][Next]_a
TypeOK == a.d >= 1 /\ a.mag \in Mags
=============================================================================
