-------------------------------- MODULE Charts --------------------------------
(* The two integer tables C02 fixes for every chart of numqi.manifold (see MC_ChartArgs): parameter count and rank of the
   differential at a generic point. *)
EXTENDS Integers, FiniteSets
CONSTANT DMax
D(cls, method, d, r, opt, cplx) == [cls |-> cls, method |-> method, d |-> d, r |-> r, opt |-> opt, cplx |-> cplx]
MinI(x, y) == IF x < y THEN x ELSE y
StiefelDim(d, r, cplx) == IF cplx THEN 2 * d * r - r * r ELSE d * r - (r * (r + 1)) \div 2
SODim(d, cplx) == IF cplx THEN d * d - 1 ELSE (d * (d - 1)) \div 2
ManifoldDim(c) ==
  CASE c.cls = "Sphere" -> IF c.cplx THEN 2 * c.d - 1 ELSE c.d - 1
    [] c.cls = "Ball" -> IF c.cplx THEN 2 * c.d ELSE c.d
    [] c.cls = "Trace1PSD" -> (IF c.cplx THEN 2 * c.d * c.r - c.r * c.r ELSE c.d * c.r - (c.r * (c.r - 1)) \div 2) - 1
    [] c.cls = "SymmetricMatrix" -> (IF c.cplx THEN c.d * c.d ELSE (c.d * (c.d + 1)) \div 2) - (IF c.opt % 2 = 1 THEN 1 ELSE 0) - (IF c.opt >= 2 THEN 1 ELSE 0)
    [] c.cls = "DiscreteProbability" -> c.d - 1
    [] c.cls = "SpecialOrthogonal" -> SODim(c.d, c.cplx)
    [] c.cls = "Stiefel" -> StiefelDim(c.d, c.r, c.cplx)
ParamCount(c) ==
  CASE c.cls = "Sphere" -> IF c.method = "quotient" THEN (IF c.cplx THEN 2 * c.d ELSE c.d) ELSE (IF c.cplx THEN 2 * c.d - 1 ELSE c.d - 1)
    [] c.cls = "Ball" -> IF c.cplx THEN 2 * c.d ELSE c.d
    [] c.cls = "Trace1PSD" -> IF c.method = "cholesky" THEN (IF c.cplx THEN c.r * (2 * c.d - c.r + 1) - c.r ELSE (c.r * (2 * c.d - c.r + 1)) \div 2)
                              ELSE c.r + (IF c.cplx THEN 2 ELSE 1) * c.d * c.r
    [] c.cls = "SymmetricMatrix" -> (IF c.cplx THEN c.d * c.d ELSE (c.d * (c.d + 1)) \div 2) - (IF c.opt % 2 = 1 THEN 1 ELSE 0)
    [] c.cls = "DiscreteProbability" -> c.d
    [] c.cls = "SpecialOrthogonal" -> SODim(c.d, c.cplx)
    [] c.cls = "Stiefel" ->
         CASE c.method \in {"qr", "polar"} -> (IF c.cplx THEN 2 ELSE 1) * c.d * c.r
           [] c.method = "choleskyL" -> (IF c.cplx THEN 2 ELSE 1) * (c.d * c.r - (c.r * (c.r + 1)) \div 2)
           [] c.method \in {"so-exp", "so-cayley"} -> SODim(c.d, c.cplx)
           [] OTHER -> IF ~c.cplx THEN c.d * c.r - (c.r * (c.r + 1)) \div 2 ELSE IF c.opt = 1 THEN 2 * c.d * c.r - c.r * c.r ELSE 2 * c.d * c.r - c.r * (c.r + 1)
ChartRank(c) == MinI(ManifoldDim(c), ParamCount(c))
Calls ==
   {D("Sphere", m, d, 0, 0, c) : m \in {"quotient", "coordinate"}, d \in 2..DMax, c \in BOOLEAN}
   \cup {D("Ball", "", d, 0, 0, c) : d \in 2..DMax, c \in BOOLEAN}
   \cup {D("Trace1PSD", m, d, r, 0, c) : m \in {"cholesky", "ensemble"}, d \in 2..DMax, r \in 1..DMax, c \in BOOLEAN}
   \cup {D("SymmetricMatrix", "", d, 0, o, c) : d \in 2..DMax, o \in 0..3, c \in BOOLEAN}
   \cup {D("DiscreteProbability", m, d, 0, 0, FALSE) : m \in {"softmax", "sphere"}, d \in 2..DMax}
   \cup {D("SpecialOrthogonal", m, d, 0, o, c) : m \in {"exp", "cayley"}, d \in 2..DMax, o \in 1..2, c \in BOOLEAN}
   \cup {D("Stiefel", m, d, r, o, c) : m \in {"choleskyL", "qr", "polar", "so-exp", "so-cayley", "euler"}, d \in 2..DMax, r \in 1..DMax, o \in 0..1, c \in BOOLEAN}
Admissible(c) ==
  CASE c.cls = "Trace1PSD" -> c.r <= c.d
    [] c.cls = "SpecialOrthogonal" -> (c.method = "exp" => c.opt = 1)
    [] c.cls = "Stiefel" -> c.r <= c.d /\ (c.method # "euler" => c.opt = 0) /\ (c.method = "euler" /\ c.opt = 1 => c.cplx)
    [] OTHER -> TRUE
=============================================================================
