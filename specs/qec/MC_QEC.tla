-------------------------------- MODULE MC_QEC --------------------------------
(* One shipped code.  The encoder gate list is read from the live numqi object (CODE_FILE, written by the harness) and is
   the program under judgement; TLC derives the stabilizer generators, decides Knill-Laflamme for EVERY Pauli error of
   weight 1..d-1 (one state per error), decides that every listed stabilizer string is in +<S>, and (CrossCheck) confirms
   the pull-back rule against the textbook formulation. *)
EXTENDS Stabilizer, TLC, Json, IOUtils
C == JsonDeserialize(IOEnv.CODE_FILE)
n == C.n
k == C.k
d == C.d
Prog == [i \in 1..Len(C.gates) |-> [k |-> C.gates[i][1], a |-> C.gates[i][2], b |-> C.gates[i][3]]]
Pull == CircuitT(Prog, n)
Gens == Generators(Prog, n, k)
VARIABLES e, info
Describe(E) == LET Ep == Act(Pull, E) IN [letters |-> ToLetters(E), ce |-> CE(Ep, n, k), kl |-> KLHolds(Ep, n, k)]
Init == e \in SymSet(n, d) /\ info = Describe(e)
Next == UNCHANGED <<e, info>>
Spec == Init /\ [][Next]_<<e, info>>
KL == info.kl
Textbook == C.crosscheck => (KLHolds(Act(Pull, e), n, k) <=> TextbookKL(e, Gens, n))
\* generators: valid, commuting, and the pull-back of S_i is Z_i
GensOK == /\ \A i \in 1..(n - k) : PHerm(Gens[i]) /\ Act(Pull, Gens[i]) = PZ(n, i)
          /\ \A i, j \in 1..(n - k) : PCommute(Gens[i], Gens[j])
          /\ ValidT(Pull)
ListedOK == \A s \in 1..Len(C.listed) : InPlusS(Act(Pull, FromLetters(C.listed[s])), n, k)
ASSUME PrintT(<<"GENS", [i \in 1..(n - k) |-> <<ToLetters(Gens[i]), ToSign(Gens[i])>>]>>)
ASSUME PrintT(<<"LISTED", [s \in 1..Len(C.listed) |-> InPlusS(Act(Pull, FromLetters(C.listed[s])), n, k)]>>)
ASSUME PrintT(<<"GENSOK", GensOK>>)
=============================================================================
