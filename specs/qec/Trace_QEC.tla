-------------------------------- MODULE Trace_QEC --------------------------------
(* Stateless validation of recorded results of numqi.qec helpers (code -> spec):
     errset : make_error_list / make_asymmetric_error_set output projected to letter strings - must be exactly the
              specified set, every element once
     qwe    : quantum_weight_enumerator of a shipped code - must equal the stabilizer / normalizer weight distributions
              derived from the encoder program; the spec's own sum rules are asserted on the way
     kl     : knill_laflamme_inner_product of one error - must equal <i|L|j> of the pulled-back error *)
EXTENDS Stabilizer, TLC, Json, IOUtils
Events == JsonDeserialize(IOEnv.TRACE_FILE)
VARIABLE l
ProgOf(g) == [i \in 1..Len(g) |-> [k |-> g[i][1], a |-> g[i][2], b |-> g[i][3]]]
WeightOf(le) == Len(le) - CountLetter(le, 0)
Dist(S, n) == [j \in 1..n |-> Cardinality({le \in S : WeightOf(le) = j})]
\* Expensive intermediate values are bound with "\E v \in {expr} : ..." - TLC evaluates the singleton once and binds the
\* concrete value (LET definitions and lazily passed operator arguments may be re-evaluated at every use).
QweOK(e) ==
   LET n == e.n  k == e.k IN
   \E T \in {CircuitT(ProgOf(e.gates), n)} :
   \E SetS \in {{le \in [1..n -> 0..3] : InS(Act(T, FromLetters(le)), n, k)}} :
   \E SetN \in {{le \in [1..n -> 0..3] : InNormalizer(Act(T, FromLetters(le)), n, k)}} :
   \E A \in {Dist(SetS, n)} : \E B \in {Dist(SetN, n)} :
     /\ Assert(Cardinality(SetS) = 2^(n - k) /\ Cardinality(SetN) = 2^(n + k), "weight enumerator sum rule violated in the spec")
     /\ Assert(\A j \in 1..n : B[j] >= A[j], "B >= A violated in the spec")
     /\ e.A = A /\ e.B = B
     /\ \A j \in 1..(e.d - 1) : e.A[j] = e.B[j]
\* <i|L|j> for a phased logical Pauli L on k qubits, as <<re,im>>; i,j in 0..2^k-1
LogicalEntry(Ep, n, k, i, j) ==
   LET bit(v, q) == (v \div 2^(n - q)) % 2          \* logical qubit q in (n-k+1)..n, index in the low k bits
       flips == \A q \in (n - k + 1)..n : bit(i, q) = (bit(j, q) + Ep.x[q]) % 2
       sgn == SumSeq([q \in 1..n |-> IF q > n - k THEN Ep.z[q] * bit(j, q) ELSE 0]) % 2
   IN IF ~flips THEN GZero ELSE GMul(GIPow(Ep.ph), IF sgn = 1 THEN <<-1, 0>> ELSE GOne)
KlOK(e) == LET n == e.n  k == e.k IN
           \E Ep \in {Act(CircuitT(ProgOf(e.gates), n), FromLetters(e.err))} :
           \A i, j \in 0..(2^k - 1) :
              e.mat[i + 1][j + 1] = (IF AncillaX(Ep, n, k) THEN GZero ELSE LogicalEntry(Ep, n, k, i, j))
ErrSetOK(e) == \E S \in {IF e.asym THEN AsymSet(e.n, e.d, e.p, e.q) ELSE SymLetters(e.n, e.d)} :
                    /\ Len(e.items) = Cardinality(S) /\ ToSet(e.items) = S
                    /\ (~e.asym) => {ToLetters(P) : P \in SymSet(e.n, e.d)} = S       \* two formulations agree
Valid(e) ==
  CASE e.op = "errset" -> ErrSetOK(e)
    [] e.op = "qwe" -> QweOK(e)
    [] e.op = "kl" -> KlOK(e)
    [] OTHER -> FALSE
\* the events are independent of the state: their verdicts form a constant-level table that TLC evaluates once
Verdicts == [i \in 1..Len(Events) |-> Valid(Events[i])]
Init == l = 1 /\ TLCSet(1, 0)
Next == /\ l <= Len(Events)
        /\ IF Verdicts[l] THEN TLCSet(1, TLCGet(1) + 1) ELSE PrintT(<<"REJECT", l, Events[l].op>>)
        /\ l' = l + 1
Spec == Init /\ [][Next]_l
Post == PrintT(<<"ACCEPTED", TLCGet(1), Len(Events)>>)
=============================================================================
