SPECIFICATION Spec
POSTCONDITION Post
