SPECIFICATION Spec
INVARIANT Textbook
