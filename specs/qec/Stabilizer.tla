-------------------------------- MODULE Stabilizer --------------------------------
(* Stabilizer codes given by a Clifford encoder.  The code is U(|0>^(n-k) (x) C^(2^k)) - ancilla qubits are the first
   n-k, logical qubits the LAST k (numqi.qec.generate_code_np feeds the logical index into the least significant qubits).
   Stabilizer generators S_i = U Z_i U^dagger.  A Pauli error E is judged by pulling it back through the encoder:
        <psi_i| E |psi_j> = <0,i| U^dagger E U |0,j> = <0,i| E' |0,j>,    E' = i^ph X^x Z^z
   which vanishes if E' has an X on an ancilla, and otherwise equals <i| L |j> with L the logical part of E'. *)
EXTENDS Clifford, FiniteSets, FiniteSetsExt
\* forward tableau  P |-> U P U^dagger  for U = g_m ... g_1
RECURSIVE ForwardT(_, _)
ForwardT(gs, n) == IF gs = <<>> THEN IdT(n) ELSE Compose(GateT(gs[Len(gs)], n), ForwardT(SubSeq(gs, 1, Len(gs) - 1), n))
Generators(gs, n, k) == [i \in 1..(n - k) |-> ForwardT(gs, n).imZ[i]]
AncillaX(Ep, n, k) == \E a \in 1..(n - k) : Ep.x[a] = 1
LogicalTrivial(Ep, n, k) == \A q \in (n - k + 1)..n : Ep.x[q] = 0 /\ Ep.z[q] = 0
\* Knill-Laflamme for one error, given its pull-back Ep
KLHolds(Ep, n, k) == AncillaX(Ep, n, k) \/ LogicalTrivial(Ep, n, k)
\* c_E as a power of i (0..3), or -1 when <i|E|j> = 0 for all i,j
CE(Ep, n, k) == IF AncillaX(Ep, n, k) THEN -1 ELSE Ep.ph
\* membership in the stabilizer group with sign: +<S> iff pull-back is Z/I on ancillas, trivial on logicals, phase +1
InPlusS(Ep, n, k) == ~AncillaX(Ep, n, k) /\ LogicalTrivial(Ep, n, k) /\ Ep.ph = 0
InS(Ep, n, k) == ~AncillaX(Ep, n, k) /\ LogicalTrivial(Ep, n, k)          \* up to sign
InNormalizer(Ep, n, k) == ~AncillaX(Ep, n, k)
\* ---- textbook formulation (used as a cross-check of the pull-back rule)
RECURSIVE ProdOf(_, _, _)
ProdOf(gens, sub, n) == IF sub = {} THEN PId(n) ELSE LET i == CHOOSE i \in sub : TRUE IN PMul(gens[i], ProdOf(gens, sub \ {i}, n))
TextbookKL(E, gens, n) == \/ \E i \in 1..Len(gens) : ~PCommute(E, gens[i])
                          \/ \E sub \in SUBSET (1..Len(gens)) : LET Q == ProdOf(gens, sub, n) IN Q.x = E.x /\ Q.z = E.z
\* ---- error sets.  An error is a Hermitian Pauli with sign +1 given by its letters (0..3 = I,X,Y,Z).
FromLetters(l) == FromStr(l, 0)
SymSet(n, d) == UNION {UNION {{FromLetters([q \in 1..n |-> IF q \in S THEN f[q] ELSE 0]) : f \in [S -> {1, 2, 3}]} : S \in kSubset(w, 1..n)} : w \in {v \in 1..(d - 1) : v <= n}}
CountLetter(l, c) == Cardinality({q \in 1..Len(l) : l[q] = c})
\* asymmetric: n_x + n_y + (p/q) n_z < d   <=>   q (n_x + n_y) + p n_z < q d,  identity excluded
AsymSet(n, d, p, q) == {l \in [1..n -> 0..3] : /\ \E j \in 1..n : l[j] # 0
                                               /\ q * (CountLetter(l, 1) + CountLetter(l, 2)) + p * CountLetter(l, 3) < q * d}
SymLetters(n, d) == {l \in [1..n -> 0..3] : LET w == n - CountLetter(l, 0) IN w >= 1 /\ w <= d - 1}
=============================================================================
