-------------------------------- MODULE MC_EulerEdge --------------------------------
(* Rotations at the EDGES of the generic Euler chart: beta strictly between 0 and pi, but cos(alpha) = +-1 or cos(gamma) = +-1
   exactly (pure rotations about the y axis and their compositions with a half turn about z).  There the extraction formulas
   cos(gamma) = -R31 / sin(beta), cos(alpha) = R13 / sin(beta) sit at the end points of arccos, and the other two angles run
   over a fine exact set (Pythagorean half-angles h = <<c, s, d>>, c^2 + s^2 = d^2, from six primitive triples).
   U = Uz(alpha) Uy(beta) Uz(gamma) = [[a, b], [-conj b, conj a]],  a = cos(beta/2) e^{-i(alpha+gamma)/2},
   b = -sin(beta/2) e^{-i(alpha-gamma)/2}, with Gaussian-integer numerators over den = d_alpha d_beta d_gamma;  R over den^2. *)
EXTENDS Rotation, TLC
VARIABLES ang, obs
Triples == {<<3, 4, 5>>, <<5, 12, 13>>, <<8, 15, 17>>, <<7, 24, 25>>, <<20, 21, 29>>, <<12, 35, 37>>}
HalfSet == UNION {{<<sx * t[1], sy * t[2], t[3]>>, <<sx * t[2], sy * t[1], t[3]>>} : sx \in {1, -1}, sy \in {1, -1}, t \in Triples}
EdgeSet == {<<1, 0, 1>>, <<0, 1, 1>>, <<-1, 0, 1>>, <<0, -1, 1>>}          \* half-angles 0, pi/2, pi, 3pi/2 : full angle 0, pi, 2pi, 3pi
BetaSet == UNION {{<<t[1], t[2], t[3]>>, <<t[2], t[1], t[3]>>} : t \in Triples}   \* beta/2 in (0, pi/2)
E(h) == <<h[1], h[2]>>
UOf(a, b, g) == LET apg == GMul(E(a), E(g))  amg == GMul(E(a), GConj(E(g))) IN
   <<<<GScale(b[1], GConj(apg)), GScale(-b[2], GConj(amg))>>, <<GScale(b[2], amg), GScale(b[1], apg)>>>>
Init == /\ \/ ang \in [a : HalfSet \cup EdgeSet, b : BetaSet, g : EdgeSet]
           \/ ang \in [a : EdgeSet, b : BetaSet, g : HalfSet]
        /\ \E U \in {UOf(ang.a, ang.b, ang.g)} : obs = [U |-> U, den |-> ang.a[3] * ang.b[3] * ang.g[3], R |-> SU2toSO3(U)]
Next == UNCHANGED <<ang, obs>>
Spec == Init /\ [][Next]_<<ang, obs>>
UnitaryOK == GMatMul(obs.U, GDagger(obs.U)) = GMatScale(<<obs.den * obs.den, 0>>, GIdent(2))
\* generic chart: |R33| < 1 and R33 = cos(beta)
GenericOK == LET s == obs.den * obs.den IN obs.R[3][3] < s /\ obs.R[3][3] > -s /\ obs.R[3][3] = (ang.b[1] * ang.b[1] - ang.b[2] * ang.b[2]) * (ang.a[3] * ang.g[3]) * (ang.a[3] * ang.g[3])
\* the edge: sin(beta) cos(gamma) = -R31 and sin(beta) cos(alpha) = R13 with |cos| = 1 on the edge angle
EdgeOK == LET s == obs.den * obs.den  sb == 2 * ang.b[1] * ang.b[2] * (ang.a[3] * ang.g[3]) * (ang.a[3] * ang.g[3]) IN
   /\ ang.g \in EdgeSet => (obs.R[3][1] = sb \/ obs.R[3][1] = -sb)
   /\ ang.a \in EdgeSet => (obs.R[1][3] = sb \/ obs.R[1][3] = -sb)
=============================================================================
