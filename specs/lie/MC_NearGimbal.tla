-------------------------------- MODULE MC_NearGimbal --------------------------------
(* Rotations NEAR the gimbal points: beta = 2^-e or pi - 2^-e for e = 8, 10, .., 50 - on both sides of the library's threshold
   zero_eps = 1e-7 ~ 2^-23 - with alpha, gamma on an exact angle set (Pythagorean half-angles and the multiples of pi/2).
   The matrices themselves cannot be written with 32-bit numerators (cos beta = 1 - 2^-2e-1 ...), so this model enumerates the
   instance descriptors and states the law the extraction has to obey there:
        Rebuild(Extract(M)) = M      (for SU(2) up to the documented sign)
   with M built by the library's forward map, which the grid models validate exactly.  Inside the threshold the library snaps
   beta to the gimbal point, which moves M by at most 2^-e < zero_eps: the accepted deviation is 3 zero_eps. *)
EXTENDS Integers, TLC
VARIABLES ang
Triples == {<<3, 4, 5>>, <<5, 12, 13>>, <<8, 15, 17>>}
HalfSet == UNION {{<<sx * t[1], sy * t[2], t[3]>>, <<sx * t[2], sy * t[1], t[3]>>} : sx \in {1, -1}, sy \in {1, -1}, t \in Triples}
EdgeSet == {<<1, 0, 1>>, <<0, 1, 1>>, <<-1, 0, 1>>, <<0, -1, 1>>}
Exps == {8 + 2 * k : k \in 0..21}
Init == ang \in [a : HalfSet \cup EdgeSet, g : HalfSet \cup EdgeSet, e : Exps, pi : BOOLEAN]
Next == UNCHANGED ang
Spec == Init /\ [][Next]_ang
\* the descriptor is well formed: unit half-angle vectors
WellFormed == ang.a[1] * ang.a[1] + ang.a[2] * ang.a[2] = ang.a[3] * ang.a[3] /\ ang.g[1] * ang.g[1] + ang.g[2] * ang.g[2] = ang.g[3] * ang.g[3]
=============================================================================
