-------------------------------- MODULE ClebschGordan --------------------------------
(* Clebsch-Gordan coefficients  <j1 m1; j2 m2 | j m>  as exact numbers of the form  s * sqrt(r),  s in {-1, 0, 1}, r a
   non-negative rational.  All spins and magnetic numbers are carried DOUBLED (a = 2 j1, b = 2 j2, c = 2 j, m1d = 2 m1, ...)
   so that every quantity is an integer.  The table is DEFINED by Racah's closed formula; it is not trusted: MC_CG checks on
   every table the relations that characterise the coefficients uniquely -
       normalisation          sum_{m1+m2=m} C^2 = 1
       highest weight         J_+ |j, j> = 0
       ladder                 J_- |j, m> = sqrt((j+m)(j-m+1)) |j, m-1>       with J_- = J_-(1) + J_-(2)
       Condon-Shortley phase  <j1 j1; j2 (j-j1) | j j> > 0
   - with exact arithmetic on numbers s*sqrt(r): x + y = z holds iff r_x r_y is the square of a rational t and
   r_z = r_x + r_y +- 2t with the matching sign. *)
EXTENDS Rat, Integers, Sequences, FiniteSets
RECURSIVE Fact(_)
Fact(n) == IF n <= 1 THEN 1 ELSE n * Fact(n - 1)
Half(x) == x \div 2
MVals(a) == {a - 2 * k : k \in 0..a}                       \* doubled magnetic numbers of spin a/2:  a, a-2, ..., -a
JVals(a, b) == {c \in (IF a >= b THEN a - b ELSE b - a)..(a + b) : (a + b - c) % 2 = 0}
MinI(x, y) == IF x < y THEN x ELSE y
MaxI(x, y) == IF x > y THEN x ELSE y
\* ---- Racah's formula
RacahSum(a, b, c, m1d, m2d) ==
   LET t1 == Half(a + b - c)  q1 == Half(a - m1d)  p2 == Half(b + m2d)  u == Half(c - b + m1d)  v == Half(c - a - m2d)
       lo == MaxI(0, MaxI(-u, -v))  hi == MinI(t1, MinI(q1, p2))
   IN RSum([i \in 1..(IF hi >= lo THEN hi - lo + 1 ELSE 0) |->
            LET k == lo + i - 1 IN R(IF k % 2 = 0 THEN 1 ELSE -1, Fact(k) * Fact(t1 - k) * Fact(q1 - k) * Fact(p2 - k) * Fact(u + k) * Fact(v + k))])
RacahR(a, b, c, m1d, m2d) ==
   LET md == m1d + m2d
       t1 == Half(a + b - c)  t2 == Half(c + a - b)  t3 == Half(c - a + b)  t4 == Half(a + b + c) + 1
   IN RMul(RMul(R((c + 1) * Fact(t1) * Fact(t2) * Fact(t3), Fact(t4)), R(Fact(Half(c + md)) * Fact(Half(c - md)), 1)),
           R(Fact(Half(a + m1d)) * Fact(Half(a - m1d)) * Fact(Half(b + m2d)) * Fact(Half(b - m2d)), 1))
Sgn(x) == IF x > 0 THEN 1 ELSE IF x < 0 THEN -1 ELSE 0
\* the coefficient as [s, r]:  value = s * sqrt(r)
CG(a, b, c, m1d, m2d) ==
   IF m1d + m2d > c \/ m1d + m2d < -c THEN [s |-> 0, r |-> RZero]
   ELSE LET S == RacahSum(a, b, c, m1d, m2d) IN
        IF RIsZero(S) THEN [s |-> 0, r |-> RZero] ELSE [s |-> Sgn(S[1]), r |-> RMul(RacahR(a, b, c, m1d, m2d), RMul(S, S))]
\* ---- arithmetic on numbers s * sqrt(r)
RECURSIVE ISqrtBs(_, _, _)
ISqrtBs(lo, hi, n) == IF lo >= hi THEN lo ELSE LET mid == (lo + hi + 1) \div 2 IN IF mid * mid <= n THEN ISqrtBs(mid, hi, n) ELSE ISqrtBs(lo, mid - 1, n)
ISqrt(n) == ISqrtBs(0, MinI(n, 46340), n)
IsSquareI(n) == ISqrt(n) * ISqrt(n) = n
IsSquareR(r) == IsSquareI(r[1]) /\ IsSquareI(r[2])          \* r normalised and non-negative
SqrtR(r) == <<ISqrt(r[1]), ISqrt(r[2])>>
Scale(x, n) == IF n = 0 \/ x.s = 0 THEN [s |-> 0, r |-> RZero] ELSE [s |-> x.s, r |-> RMul(x.r, RFromInt(n))]      \* x * sqrt(n), n >= 0
SumIs(x, y, z) ==                                             \* x + y = z
   IF x.s = 0 THEN y = z ELSE IF y.s = 0 THEN x = z
   ELSE LET pr == RMul(x.r, y.r) IN
        /\ IsSquareR(pr)
        /\ LET t2 == RAdd(SqrtR(pr), SqrtR(pr)) IN
           IF x.s = y.s THEN z.s = x.s /\ z.r = RAdd(RAdd(x.r, y.r), t2)
           ELSE LET d == RSub(x.r, y.r) IN
                /\ z.r = RSub(RAdd(x.r, y.r), t2)
                /\ z.s = (IF RIsZero(d) THEN 0 ELSE IF RIsNeg(d) THEN y.s ELSE x.s)
Zero == [s |-> 0, r |-> RZero]
\* squared ladder factors:  J_+ |j m> = sqrt((j-m)(j+m+1)) |j m+1>,  J_- |j m> = sqrt((j+m)(j-m+1)) |j m-1>
Up2(a, md) == Half(a - md) * (Half(a + md) + 1)
Dn2(a, md) == Half(a + md) * (Half(a - md) + 1)
\* ---- the relations, for a table tab[c][<<m1d, m2d>>]
Get(tab, c, m1d, m2d, a, b) == IF m1d \in MVals(a) /\ m2d \in MVals(b) THEN tab[c][<<m1d, m2d>>] ELSE Zero
NormOK(tab, a, b) == \A c \in JVals(a, b) : \A md \in MVals(c) :
   RSum(SetToSeq({<<m1d, tab[c][<<m1d, md - m1d>>].r>> : m1d \in {x \in MVals(a) : (md - x) \in MVals(b)}})) = ROne
\* (the set above pairs each value with m1d so that equal squares are not merged; RSum needs a sequence of rationals:)
NormOK2(tab, a, b) == \A c \in JVals(a, b) : \A md \in MVals(c) :
   LET ms == SetToSeq({x \in MVals(a) : (md - x) \in MVals(b)}) IN
   RSum([i \in 1..Len(ms) |-> tab[c][<<ms[i], md - ms[i]>>].r]) = ROne
HighestOK(tab, a, b) == \A c \in JVals(a, b) : \A m1d \in MVals(a) : \A m2d \in MVals(b) :
   (m1d + m2d = c + 2) => SumIs(Scale(Get(tab, c, m1d - 2, m2d, a, b), Up2(a, m1d - 2)), Scale(Get(tab, c, m1d, m2d - 2, a, b), Up2(b, m2d - 2)), Zero)
LadderOK(tab, a, b) == \A c \in JVals(a, b) : \A md \in MVals(c) \ {-c} : \A m1d \in MVals(a) : \A m2d \in MVals(b) :
   (m1d + m2d = md - 2) =>
      \* component |m1d, m2d> of J_- |c, md>:  from |m1d+2, m2d> by J_-(1) and from |m1d, m2d+2> by J_-(2)
      SumIs(Scale(IF m1d + 2 + m2d = md THEN Get(tab, c, m1d + 2, m2d, a, b) ELSE Zero, Dn2(a, m1d + 2)),
            Scale(Get(tab, c, m1d, m2d + 2, a, b), Dn2(b, m2d + 2)),
            Scale(tab[c][<<m1d, m2d>>], Dn2(c, md)))
PhaseOK(tab, a, b) == \A c \in JVals(a, b) : tab[c][<<a, c - a>>].s = 1
=============================================================================
