SPECIFICATION Spec
INVARIANT UnitaryOK
INVARIANT AxisOK
