CONSTANTS JMax = 4
SPECIFICATION Spec
INVARIANT OrthOK
INVARIANT UnitaryOK
INVARIANT HomOK
INVARIANT SpinOK
