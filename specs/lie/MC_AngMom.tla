-------------------------------- MODULE MC_AngMom --------------------------------
EXTENDS AngMom, TLC
CONSTANT J2Max
VARIABLES j2, obs
Init == j2 \in 1..J2Max /\ obs = [m2 |-> [k \in 1..(j2 + 1) |-> M2(j2, k)], jx16 |-> JxSq16(j2)]
Next == UNCHANGED <<j2, obs>>
Spec == Init /\ [][Next]_<<j2, obs>>
Comm == CommOK(j2)
Casimir == CasimirOK(j2)
=============================================================================
