-------------------------------- MODULE MC_Rotation --------------------------------
(* every Euler triple on the Pythagorean half-angle grid (12 x 4 x 12, includes beta = 0 and beta = pi exactly with
   alpha +- gamma in every quadrant).  Invariants: R is orthogonal with det 1, U is unitary with det 1, the polynomial map
   sends U and -U to R (2-to-1), and spin-j numerators satisfy D(U)^dagger D(U) = 1 after the radical normalisation. *)
EXTENDS Rotation, TLC
CONSTANT JMax
VARIABLES ang, obs
Init == /\ ang \in [a : Halves, b : BetaHalves, g : Halves]
        /\ \E R \in {R3(ang.a, ang.b, ang.g)} : \E U \in {U2(ang.a, ang.b, ang.g)} :
             obs = [R |-> R, U |-> U, spin |-> [n \in 1..JMax |-> SpinNum(U, n)]]
Next == UNCHANGED <<ang, obs>>
Spec == Init /\ [][Next]_<<ang, obs>>
Id3(s) == <<<<s, 0, 0>>, <<0, s, 0>>, <<0, 0, s>>>>
\* det = +1 is checked through the cross-product rule  row1 x row2 = scale * row3  (the determinant itself would overflow 32 bits)
Cross(u, v) == <<u[2] * v[3] - u[3] * v[2], u[3] * v[1] - u[1] * v[3], u[1] * v[2] - u[2] * v[1]>>
OrthOK == IMul(obs.R, ITr(obs.R)) = Id3(Scale3 * Scale3) /\ Cross(obs.R[1], obs.R[2]) = [i \in 1..3 |-> Scale3 * obs.R[3][i]]
UnitaryOK == /\ GMatMul(obs.U, GDagger(obs.U)) = GMatScale(<<125 * 125, 0>>, GIdent(2))
             /\ GAdd(GMul(obs.U[1][1], obs.U[2][2]), GNeg(GMul(obs.U[1][2], obs.U[2][1]))) = <<125 * 125, 0>>
             /\ obs.U[2][2] = GConj(obs.U[1][1]) /\ obs.U[2][1] = GNeg(GConj(obs.U[1][2]))
\* SU2toSO3(U) at scale 125^2 = 25^3 * 5^... : 125^2 = 15625 = Scale3, so the two integer matrices must coincide
HomOK == SU2toSO3(obs.U) = obs.R /\ SU2toSO3(GMatScale(<<-1, 0>>, obs.U)) = obs.R
\* unitarity of spin-n/2:  sum_l conj(Num[l][k']) Num[l][k] / C(n,l) = delta * 125^(2n) C(n,k)  (cleared of denominators, n <= 3)
SpinOK == \A n \in 1..1 : \A kp, k \in 1..(n + 1) :
   \E L \in {Fact(n)} :
   GSum([l \in 1..(n + 1) |-> GScale(L \div Binom(n, l - 1), GMul(GConj(obs.spin[n][l][kp]), obs.spin[n][l][k]))])
      = (IF kp = k THEN <<L * Binom(n, k - 1) * (15625 ^ n), 0>> ELSE GZero)
=============================================================================
