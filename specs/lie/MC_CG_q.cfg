CONSTANTS JMax = 4
SPECIFICATION Spec
INVARIANT Normalised
INVARIANT HighestWeight
INVARIANT Ladder
INVARIANT CondonShortley
INVARIANT Dimension
