-------------------------------- MODULE MC_CG --------------------------------
(* every Clebsch-Gordan table with 2 j1, 2 j2 <= JMax: the table defined by Racah's formula satisfies the characterising
   relations (invariants); the dumped tables are replayed into numqi.matrix_space.get_clebsch_gordan_coeffient. *)
EXTENDS ClebschGordan, TLC
CONSTANT JMax
VARIABLES a, b, tab
Table(x, y) == [c \in JVals(x, y) |-> [mm \in MVals(x) \X MVals(y) |-> IF mm[1] + mm[2] \in MVals(c) THEN CG(x, y, c, mm[1], mm[2]) ELSE Zero]]
Init == a \in 0..JMax /\ b \in 0..JMax /\ \E t \in {TLCEval(Table(a, b))} : tab = t
Next == UNCHANGED <<a, b, tab>>
Spec == Init /\ [][Next]_<<a, b, tab>>
Normalised == NormOK2(tab, a, b)
HighestWeight == HighestOK(tab, a, b)
Ladder == LadderOK(tab, a, b)
CondonShortley == PhaseOK(tab, a, b)
Dimension == FoldLeft(LAMBDA s, c : s + c + 1, 0, SetToSeq(JVals(a, b))) = (a + 1) * (b + 1)
=============================================================================
