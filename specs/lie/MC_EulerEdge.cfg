SPECIFICATION Spec
INVARIANT UnitaryOK
INVARIANT GenericOK
INVARIANT EdgeOK
