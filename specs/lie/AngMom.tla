-------------------------------- MODULE AngMom --------------------------------
(* spin-j angular momentum operators in the basis m = j, j-1, ..., -j (index k = 1..2j+1, m = j - (k-1)):
     J_z = diag(m),   (J_+)_{k,k+1} = sqrt((j - m)(j + m + 1)) with m the magnitude of column k+1,
   all quantities expressed through j2 = 2j so that everything is an integer:
     4 (J_+)_{k,k+1}^2 = (j2 - m2)(j2 + m2 + 2)   with m2 = 2m of column k+1.
   su(2):  [J_+, J_-] = 2 J_z  reduces to an integer identity between consecutive squares. *)
EXTENDS Integers, Sequences
M2(j2, k) == j2 - 2 * (k - 1)                                   \* 2m of basis vector k
Plus2x4(j2, k) == (j2 - M2(j2, k + 1)) * (j2 + M2(j2, k + 1) + 2)  \* 4 * (J_+)_{k,k+1}^2,  k = 1..j2
\* ([J+,J-])_{kk} = (J+)_{k,k+1}^2 - (J+)_{k-1,k}^2  must equal 2 m_k = M2
CommOK(j2) == \A k \in 1..(j2 + 1) :
   (IF k <= j2 THEN Plus2x4(j2, k) ELSE 0) - (IF k >= 2 THEN Plus2x4(j2, k - 1) ELSE 0) = 4 * M2(j2, k)
\* J_x = (J+ + J-)/2 : the library stores (J_x)_{k,k+1} = sqrt(k (j2+1-k))/2 ;  16 (J_x)_{k,k+1}^2 = Plus2x4
JxSq16(j2) == [k \in 1..j2 |-> Plus2x4(j2, k)]
CasimirOK(j2) == \A k \in 1..(j2 + 1) :      \* 4 (Jx^2+Jy^2+Jz^2)_{kk} = j2 (j2 + 2)
   ((IF k <= j2 THEN Plus2x4(j2, k) ELSE 0) + (IF k >= 2 THEN Plus2x4(j2, k - 1) ELSE 0)) \div 2 + M2(j2, k) * M2(j2, k) = j2 * (j2 + 2)
=============================================================================
