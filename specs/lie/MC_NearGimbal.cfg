SPECIFICATION Spec
INVARIANT WellFormed
