-------------------------------- MODULE Rotation --------------------------------
(* SO(3) / SU(2) in the ZYZ Euler convention of numqi.group, evaluated exactly on Pythagorean angles.
   A half-angle is a pair h = <<c, s>> with c^2 + s^2 = 25  (cos = c/5, sin = s/5); the full angle has
   cos = (c^2 - s^2)/25, sin = 2cs/25.
     R(alpha,beta,gamma) = Rz(alpha) Ry(beta) Rz(gamma)                      entries are integers / 25^3
     U(alpha,beta,gamma) = [[cb e^{-i(a+g)/2}, -sb e^{-i(a-g)/2}], [sb e^{i(a-g)/2}, cb e^{i(a+g)/2}]]   entries Gaussian integers / 125
   with cb = cos(beta/2), sb = sin(beta/2).  SU2toSO3 is the polynomial 2-to-1 homomorphism used by the library. *)
EXTENDS Ring, FiniteSets
Halves == {<<5,0>>, <<4,3>>, <<3,4>>, <<0,5>>, <<-3,4>>, <<-4,3>>, <<-5,0>>, <<-4,-3>>, <<-3,-4>>, <<0,-5>>, <<3,-4>>, <<4,-3>>}
BetaHalves == {<<5,0>>, <<4,3>>, <<3,4>>, <<0,5>>}            \* beta/2 in [0, pi/2]: includes beta = 0 and beta = pi exactly
FullC(h) == h[1] * h[1] - h[2] * h[2]                          \* 25 cos
FullS(h) == 2 * h[1] * h[2]                                    \* 25 sin
IMat(rows) == rows
IMul(A, B) == [i \in 1..Len(A) |-> [j \in 1..Len(B[1]) |-> FoldLeft(LAMBDA a, k : a + A[i][k] * B[k][j], 0, [k \in 1..Len(B) |-> k])]]
ITr(A) == [j \in 1..Len(A[1]) |-> [i \in 1..Len(A) |-> A[i][j]]]
Rz(h) == <<<<FullC(h), -FullS(h), 0>>, <<FullS(h), FullC(h), 0>>, <<0, 0, 25>>>>
Ry(h) == <<<<FullC(h), 0, FullS(h)>>, <<0, 25, 0>>, <<-FullS(h), 0, FullC(h)>>>>
R3(a, b, g) == IMul(IMul(Rz(a), Ry(b)), Rz(g))                  \* scale 25^3
Scale3 == 25 * 25 * 25
\* e^{i x/2} for half-angle x/2 = h :  (c + i s)/5
EHalf(h) == <<h[1], h[2]>>
U2(a, b, g) == LET ea == EHalf(a)  eg == EHalf(g)
                   apg == GMul(ea, eg)  amg == GMul(ea, GConj(eg))            \* e^{i(a+g)/2}, e^{i(a-g)/2}  (scale 25)
               IN <<<<GScale(b[1], GConj(apg)), GScale(-b[2], GConj(amg))>>, <<GScale(b[2], amg), GScale(b[1], apg)>>>>     \* scale 125
\* the polynomial map SU(2) -> SO(3) on U = [[a, b], [-conj b, conj a]]; for U at scale s the result is at scale s^2
SU2toSO3(U) ==
  LET a == U[1][1]  b == U[1][2]  aH == GConj(a)  bH == GConj(b)
      Re2(z) == z[1]                \* callers pass sums whose imaginary part cancels
      half(z) == <<z[1] \div 2, z[2] \div 2>>
      aa == GMul(a, a)  bb == GMul(b, b)  aHaH == GMul(aH, aH)  bHbH == GMul(bH, bH)
      iu(z) == GMul(<<0, 1>>, z)
  IN <<<<half(GAdd(GAdd(aa, aHaH), GNeg(GAdd(bb, bHbH))))[1], half(iu(GNeg(GAdd(GAdd(aa, GNeg(aHaH)), GAdd(bb, GNeg(bHbH))))))[1], GNeg(GAdd(GMul(a, b), GMul(aH, bH)))[1]>>,
       <<half(iu(GAdd(GAdd(aa, GNeg(aHaH)), GAdd(GNeg(bb), bHbH))))[1], half(GAdd(GAdd(aa, aHaH), GAdd(bb, bHbH)))[1], iu(GAdd(GMul(aH, bH), GNeg(GMul(a, b))))[1]>>,
       <<GAdd(GMul(aH, b), GMul(a, bH))[1], iu(GAdd(GMul(aH, b), GNeg(GMul(a, bH))))[1], GAdd(GMul(a, aH), GNeg(GMul(b, bH)))[1]>>>>
Det3(M) == M[1][1] * (M[2][2] * M[3][3] - M[2][3] * M[3][2]) - M[1][2] * (M[2][1] * M[3][3] - M[2][3] * M[3][1]) + M[1][3] * (M[2][1] * M[3][2] - M[2][2] * M[3][1])
\* spin-j representation: restriction of U^{(x) n} (n = 2j) to the symmetric subspace in the Dicke basis |n,k>, k = number
\* of ones, ordered k = 0..n  (m = j - k descending).  D[k'][k] = Num[k'][k] / sqrt(C(n,k') C(n,k)) with
\*   Num[k'][k] = sum over s of  n!/(p! q! r! s!) U00^p U01^q U10^r U11^s,  p+q = n-k', r+s = k', p+r = n-k, q+s = k
RECURSIVE Fact(_)
Fact(n) == IF n <= 1 THEN 1 ELSE n * Fact(n - 1)
Binom(n, k) == Fact(n) \div (Fact(k) * Fact(n - k))
RECURSIVE GPow(_, _)
GPow(z, k) == IF k = 0 THEN GOne ELSE GMul(z, GPow(z, k - 1))
SpinNum(U, n) == [kp \in 1..(n + 1) |-> [k \in 1..(n + 1) |->
    GSum([s1 \in 1..(n + 1) |->
       LET s == s1 - 1  r == (kp - 1) - s  q == (k - 1) - s  p == n - (kp - 1) - q IN
       IF s < 0 \/ r < 0 \/ q < 0 \/ p < 0 THEN GZero
       ELSE GScale(Fact(n) \div (Fact(p) * Fact(q) * Fact(r) * Fact(s)),
                   GMul(GMul(GPow(U[1][1], p), GPow(U[1][2], q)), GMul(GPow(U[2][1], r), GPow(U[2][2], s))))])]]
=============================================================================
