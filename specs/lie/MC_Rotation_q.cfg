CONSTANTS JMax = 3
SPECIFICATION Spec
INVARIANT OrthOK
INVARIANT UnitaryOK
INVARIANT HomOK
INVARIANT SpinOK
