CONSTANTS JMax = 5
SPECIFICATION Spec
INVARIANT Normalised
INVARIANT HighestWeight
INVARIANT Ladder
INVARIANT CondonShortley
INVARIANT Dimension
