CONSTANTS J2Max = 10
SPECIFICATION Spec
INVARIANT Comm
INVARIANT Casimir
