-------------------------------- MODULE MC_Gimbal --------------------------------
(* The degenerate rotations on a much finer angle set: beta in {0, pi} exactly and alpha, gamma any Pythagorean half-angle
   h = <<c, s, d>>, c^2 + s^2 = d^2, from six primitive triples in all eight sign / swap variants ("rotations about the z
   axis by any angle").  U = diag(e^{-i(a+g)/2}, e^{i(a+g)/2}) for beta = 0,  U = [[0, -e^{-i(a-g)/2}], [e^{i(a-g)/2}, 0]] for
   beta = pi, with Gaussian-integer numerators over the denominator d_a d_g;  R = SU2toSO3(U) over (d_a d_g)^2. *)
EXTENDS Rotation, TLC
VARIABLES ang, obs
Triples == {<<3, 4, 5>>, <<5, 12, 13>>, <<8, 15, 17>>, <<7, 24, 25>>, <<20, 21, 29>>, <<12, 35, 37>>}
HalfSet == UNION {{<<sx * t[1], sy * t[2], t[3]>>, <<sx * t[2], sy * t[1], t[3]>>} : sx \in {1, -1}, sy \in {1, -1}, t \in Triples}
E(h) == <<h[1], h[2]>>
UOf(a, g, pi) == LET apg == GMul(E(a), E(g))  amg == GMul(E(a), GConj(E(g))) IN
   IF pi THEN <<<<GZero, GNeg(GConj(amg))>>, <<amg, GZero>>>> ELSE <<<<GConj(apg), GZero>>, <<GZero, apg>>>>
Init == /\ ang \in [a : HalfSet, g : HalfSet, pi : BOOLEAN]
        /\ \E U \in {UOf(ang.a, ang.g, ang.pi)} : obs = [U |-> U, den |-> ang.a[3] * ang.g[3], R |-> SU2toSO3(U)]
Next == UNCHANGED <<ang, obs>>
Spec == Init /\ [][Next]_<<ang, obs>>
UnitaryOK == GMatMul(obs.U, GDagger(obs.U)) = GMatScale(<<obs.den * obs.den, 0>>, GIdent(2))
\* a rotation about z (beta = 0) or a half-turn about an axis in the x-y plane composed with it (beta = pi): R[3][3] = +-1
AxisOK == obs.R[3][3] = (IF ang.pi THEN -1 ELSE 1) * obs.den * obs.den /\ obs.R[1][3] = 0 /\ obs.R[3][1] = 0
=============================================================================
