CONSTANTS NMax = 5
DMax = 4
MaxDim = 256
SPECIFICATION Spec
INVARIANT PartitionOK
INVARIANT SymOK
INVARIANT ClosedFormOK
