CONSTANTS DMax = 4
NSeeds = 40
SPECIFICATION Spec
INVARIANT RangeOK
