-------------------------------- MODULE MC_Classical --------------------------------
(* Contractivity on the classical subdomain, where everything is exactly rational: diagonal states p_i = a_i^2/A,
   q_i = b_i^2/B (A = sum a^2, B = sum b^2) and relabelling channels i |-> f(i).
     trace distance  D(p,q) = (1/2) sum |p_i - q_i|            numerator over the common denominator A*B
     fidelity        F(p,q) = (sum a_i b_i)^2 / (A B)
   Model theorems: D does not increase under any relabelling channel, F is symmetric and lies in [0,1]. *)
EXTENDS Integers, Sequences, FiniteSets, SequencesExt, TLC
CONSTANTS D, Vals
VARIABLES cfg, obs
SumSeq(s) == FoldLeft(LAMBDA x, y : x + y, 0, s)
Abs(x) == IF x < 0 THEN -x ELSE x
Sq(v) == [i \in 1..Len(v) |-> v[i] * v[i]]
Push(w, f, d) == [j \in 1..d |-> SumSeq([i \in 1..Len(w) |-> IF f[i] = j THEN w[i] ELSE 0])]
\* numerator of sum|p_i - q_i| over denominator A*B for weight vectors pa (sum A) and qb (sum B)
Dist2(pa, qb) == LET A == SumSeq(pa)  B == SumSeq(qb) IN SumSeq([i \in 1..Len(pa) |-> Abs(pa[i] * B - qb[i] * A)])
Vecs == {v \in [1..D -> Vals] : \E i \in 1..D : v[i] # 0}
\* relabelling maps: identity, cyclic shift, pairwise merges, total collapse, one mixed map (D >= 4 so that max|p-q| differs from (1/2) sum|p-q|)
Maps == {[i \in 1..D |-> i], [i \in 1..D |-> (i % D) + 1], [i \in 1..D |-> ((i + 1) \div 2)], [i \in 1..D |-> 1], [i \in 1..D |-> IF i <= 2 THEN i ELSE 2]}
Init == /\ cfg \in [a : Vecs, b : Vecs, f : Maps]
        /\ obs = [A |-> SumSeq(Sq(cfg.a)), B |-> SumSeq(Sq(cfg.b)), d2 |-> Dist2(Sq(cfg.a), Sq(cfg.b)),
                  d2after |-> Dist2(Push(Sq(cfg.a), cfg.f, D), Push(Sq(cfg.b), cfg.f, D)),
                  fnum |-> SumSeq([i \in 1..D |-> cfg.a[i] * cfg.b[i]]) * SumSeq([i \in 1..D |-> cfg.a[i] * cfg.b[i]])]
Next == UNCHANGED <<cfg, obs>>
Spec == Init /\ [][Next]_<<cfg, obs>>
Contractive == obs.d2after <= obs.d2
FidelityRange == obs.fnum >= 0 /\ obs.fnum <= obs.A * obs.B
DistRange == obs.d2 <= 2 * obs.A * obs.B
=============================================================================
