CONSTANTS LMax = 3
Dims = {2, 3}
MaxTotal = 27
SPECIFICATION Spec
INVARIANT TraceOK
INVARIANT TwoStepOK
