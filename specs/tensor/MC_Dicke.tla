-------------------------------- MODULE MC_Dicke --------------------------------
(* every (copies n, dimension d) within the bounds: occupation list, orbits, and the reduction table with its closed
   form; invariants: the orbits partition the basis, |orbit| = multinomial (orthonormality by counting), permutation
   invariance (orbits are closed under transpositions of qudits) and (count)^2 n^2 = a_r b_s M(a) M(b). *)
EXTENDS Dicke, TLC
CONSTANTS NMax, DMax, MaxDim
VARIABLES cfg, obs
Configs == {c \in [n : 1..NMax, d : 2..DMax] : c.d ^ c.n <= MaxDim}
MkObs(n, d, kl) == [klist |-> kl, orbit |-> [i \in 1..Len(kl) |-> Orbit(kl[i], d)], mult |-> [i \in 1..Len(kl) |-> Multinomial(kl[i])],
                    \* B2[r][s][i][j] = squared coefficient as <<num, den>>
                    B2 |-> [r \in 1..d |-> [s \in 1..d |-> [i \in 1..Len(kl) |-> [j \in 1..Len(kl) |-> Closed2(kl[i], kl[j], r, s)]]]]]
Init == cfg \in Configs /\ \E kl \in {KList(cfg.d, cfg.n)} : \E o \in {MkObs(cfg.n, cfg.d, kl)} : obs = o
Next == UNCHANGED <<cfg, obs>>
Spec == Init /\ [][Next]_<<cfg, obs>>
PartitionOK == /\ UNION {obs.orbit[i] : i \in 1..Len(obs.klist)} = 0..(cfg.d ^ cfg.n - 1)
               /\ \A i, j \in 1..Len(obs.klist) : i # j => obs.orbit[i] \cap obs.orbit[j] = {}
               /\ \A i \in 1..Len(obs.klist) : Cardinality(obs.orbit[i]) = obs.mult[i]
\* swapping two qudits maps every orbit to itself
SwapIdx(x, p, q, d, n) == LET dp == (x \div d^(n - p)) % d  dq == (x \div d^(n - q)) % d IN x + (dq - dp) * d^(n - p) + (dp - dq) * d^(n - q)
SymOK == \A i \in 1..Len(obs.klist) : \A p, q \in 1..cfg.n : {SwapIdx(x, p, q, cfg.d, cfg.n) : x \in obs.orbit[i]} = obs.orbit[i]
ClosedFormOK == \A r, s \in 1..cfg.d : \A i, j \in 1..Len(obs.klist) :
   LET a == obs.klist[i]  b == obs.klist[j]  c == CountB(a, b, r, s, cfg.d)  cf == obs.B2[r][s][i][j] IN
   c * c * cf[2] = cf[1] * obs.mult[i] * obs.mult[j]
=============================================================================
