CONSTANTS D = 4
Vals = {0, 1, 2}
SPECIFICATION Spec
INVARIANT Contractive
INVARIANT FidelityRange
INVARIANT DistRange
