-------------------------------- MODULE Dicke --------------------------------
(* Dicke states of n qudits of dimension d.  An occupation tuple k = (k_0..k_{d-1}) with sum n labels the uniform
   superposition of all strings (level digits, qudit 0 most significant) whose level counts are k; its amplitude is
   1/sqrt(M(k)) with M the multinomial coefficient.  numqi lists the tuples with k_0 slowest.
   Reduction of Sym^n to one copy:   B[r][s][a][b] = sum_t <r,t|D_a> <D_b|s,t>   over strings t of n-1 qudits
      = #{t : occ(t)+e_r = a  and  occ(t)+e_s = b} / sqrt(M(a) M(b)) = M(a - e_r) / sqrt(M(a) M(b))   if b = a - e_r + e_s,
   which numqi evaluates as sqrt(a_r b_s)/n; MC_Dicke checks the integer identity that makes the two equal. *)
EXTENDS Integers, Sequences, FiniteSets, SequencesExt
RECURSIVE Fact(_)
Fact(n) == IF n <= 1 THEN 1 ELSE n * Fact(n - 1)
SumSeq(s) == FoldLeft(LAMBDA a, b : a + b, 0, s)
Multinomial(k) == Fact(SumSeq(k)) \div FoldLeft(LAMBDA a, b : a * Fact(b), 1, k)
\* occupation tuples in the documented order (first entry slowest, each entry ascending)
RECURSIVE KList(_, _)
KList(d, n) == IF d = 1 THEN <<<<n>>>> ELSE
   FoldLeft(LAMBDA acc, x : acc \o [i \in 1..Len(KList(d - 1, n - x)) |-> <<x>> \o KList(d - 1, n - x)[i]], <<>>, [x \in 1..(n + 1) |-> x - 1])
Strings(d, n) == [1..n -> 0..(d - 1)]
Occ(s, d) == [lev \in 1..d |-> Cardinality({i \in 1..Len(s) : s[i] = lev - 1})]
FlatStr(s, d) == FoldLeft(LAMBDA acc, i : acc * d + s[i], 0, [i \in 1..Len(s) |-> i])
\* orbit of k as the set of flat basis indices (0-based)
Orbit(k, d) == {FlatStr(s, d) : s \in {t \in Strings(d, SumSeq(k)) : Occ(t, d) = k}}
Dec(k, r) == [k EXCEPT ![r] = k[r] - 1]
Inc(k, r) == [k EXCEPT ![r] = k[r] + 1]
\* numerator of B by counting strings t of n-1 qudits (definition)
CountB(a, b, r, s, d) == LET n == SumSeq(a) IN
   IF n = 1 THEN (IF Dec(a, r) = Dec(b, s) /\ a[r] >= 1 /\ b[s] >= 1 THEN 1 ELSE 0)
   ELSE Cardinality({t \in Strings(d, n - 1) : Inc(Occ(t, d), r) = a /\ Inc(Occ(t, d), s) = b})
\* the library's closed form, squared: a_r b_s / n^2  (zero unless b = a - e_r + e_s)
Closed2(a, b, r, s) == IF a[r] >= 1 /\ Inc(Dec(a, r), s) = b THEN <<a[r] * b[s], SumSeq(a) * SumSeq(a)>> ELSE <<0, 1>>
=============================================================================
