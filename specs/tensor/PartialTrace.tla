-------------------------------- MODULE PartialTrace --------------------------------
(* Partial trace over any subset of a list of subsystem dimensions, defined on matrix units by the index contraction:
       Tr_T ( |a><b| ) = delta(a_T, b_T) |a_K><b_K|
   with a, b mixed-radix multi-indices (subsystem 1 most significant), K the kept subsystems in ascending order,
   T the traced ones. *)
EXTENDS Integers, Sequences, FiniteSets, SequencesExt
ProdSeq(s) == FoldLeft(LAMBDA a, b : a * b, 1, s)
Total(dims) == ProdSeq(dims)
\* digits of flat index x (0-based) for dimension list dims
Digits(x, dims) == LET n == Len(dims) IN [i \in 1..n |-> (x \div ProdSeq(SubSeq(dims, i + 1, n))) % dims[i]]
Flat(dg, dims) == FoldLeft(LAMBDA acc, i : acc * dims[i] + dg[i], 0, [i \in 1..Len(dims) |-> i])
KeepSeq(n, K) == SelectSeq([i \in 1..n |-> i], LAMBDA i : i \in K)
Pick(s, idx) == [j \in 1..Len(idx) |-> s[idx[j]]]
\* for the unit |a><b| (flat indices, 0-based): 0 if the traced digits differ, else 1 + flat position (row-major) of the
\* surviving unit in the reduced matrix
PTUnit(a, b, dims, K) ==
  LET n == Len(dims)  ks == KeepSeq(n, K)  da == Digits(a, dims)  db == Digits(b, dims)  kd == Pick(dims, ks)
  IN IF \E i \in (1..n) \ K : da[i] # db[i] THEN 0
     ELSE 1 + Flat(Pick(da, ks), kd) * ProdSeq(kd) + Flat(Pick(db, ks), kd)
PTTable(dims, K) == [a \in 1..Total(dims) |-> [b \in 1..Total(dims) |-> PTUnit(a - 1, b - 1, dims, K)]]
\* apply to an integer matrix M (sequence of rows): result as a flat sequence of the reduced matrix
PTApply(M, dims, K) ==
  LET D == Total(dims)  R == ProdSeq(Pick(dims, KeepSeq(Len(dims), K))) IN
  [p \in 1..(R * R) |-> FoldLeft(LAMBDA acc, ab : IF PTUnit(ab[1] - 1, ab[2] - 1, dims, K) = p THEN acc + M[ab[1]][ab[2]] ELSE acc, 0,
                                 SetToSeq((1..D) \X (1..D)))]
=============================================================================
