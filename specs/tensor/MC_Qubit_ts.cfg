CONSTANTS DA = {2, 3, 5, 7}
DB = {1, 3, 5, 6}
SampleMod = 211
SampleRes = 3
SPECIFICATION Spec
INVARIANT ImageIsState
INVARIANT TraceDistanceContracts
INVARIANT FidelityMonotone
INVARIANT FidelityRange
INVARIANT UnitaryInvariant
INVARIANT IdentityChannel
