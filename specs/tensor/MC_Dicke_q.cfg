CONSTANTS NMax = 4
DMax = 3
MaxDim = 81
SPECIFICATION Spec
INVARIANT PartitionOK
INVARIANT SymOK
INVARIANT ClosedFormOK
