-------------------------------- MODULE MC_PartialTrace --------------------------------
(* every dimension list of length 2..LMax with entries in Dims and every keep subset (incl. empty and full);
   model theorems: the trace is preserved and tracing in two steps equals tracing at once (on matrix units).
   The keep argument is a SET of subsystems: the replay hands it to the implementation in every concrete form the function accepts (set, list,
   tuple, unsorted, with a repeat, NumPy integers, and a bare integer for a singleton) and expects the one answer of the specification. *)
EXTENDS PartialTrace, TLC
CONSTANTS LMax, Dims, MaxTotal
VARIABLES cfg, tab
DimLists == UNION {[1..n -> Dims] : n \in 2..LMax}
Init == /\ cfg \in {[dims |-> d, keep |-> K] : d \in {x \in DimLists : Total(x) <= MaxTotal}, K \in SUBSET (1..LMax)}
        /\ cfg.keep \subseteq 1..Len(cfg.dims)
        /\ \E t \in {PTTable(cfg.dims, cfg.keep)} : tab = t
Next == UNCHANGED <<cfg, tab>>
Spec == Init /\ [][Next]_<<cfg, tab>>
D == Total(cfg.dims)
\* trace preserved: the units landing on the diagonal of the reduced matrix are exactly the diagonal units
TraceOK == LET R == ProdSeq(Pick(cfg.dims, KeepSeq(Len(cfg.dims), cfg.keep))) IN
           \A a, b \in 1..D : (tab[a][b] # 0 /\ (tab[a][b] - 1) \div R = (tab[a][b] - 1) % R) <=> a = b
\* two steps: first trace out one more subsystem j, then the rest - equals tracing at once
TwoStepOK == \A j \in (1..Len(cfg.dims)) \ cfg.keep :
   LET n == Len(cfg.dims)
       K1 == (1..n) \ {j}                                   \* keep everything but j
       d1 == Pick(cfg.dims, KeepSeq(n, K1))             \* remaining dims
       pos(i) == Cardinality({k \in K1 : k <= i})           \* new position of subsystem i
       K2 == {pos(i) : i \in cfg.keep}
       R1 == Total(d1)
   IN \A a, b \in 1..D :
        LET u == PTUnit(a - 1, b - 1, cfg.dims, K1) IN
        tab[a][b] = (IF u = 0 THEN 0 ELSE PTUnit((u - 1) \div R1, (u - 1) % R1, d1, K2))
=============================================================================
