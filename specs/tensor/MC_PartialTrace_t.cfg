CONSTANTS LMax = 4
Dims = {2, 3, 4}
MaxTotal = 64
SPECIFICATION Spec
INVARIANT TraceOK
INVARIANT TwoStepOK
