-------------------------------- MODULE MC_GellMann --------------------------------
(* one state per dimension d; the state carries the basis.  Invariants (theorems about the documented basis):
   Hermitian, pairwise trace-orthogonal, c_k^2 Tr(M_k^2) = 2, and completeness: synthesis after analysis reproduces every
   matrix unit,  sum_k c_k^2 Tr(M_k E_pq) M_k = 2 E_pq  (cleared of denominators). *)
EXTENDS GellMann, TLC
CONSTANT DMax
VARIABLES d, basis
Init == d \in 2..DMax /\ \E b \in {Basis(d)} : basis = b
Next == UNCHANGED <<d, basis>>
Spec == Init /\ [][Next]_<<d, basis>>
CountOK == Len(basis) = d * d
HermOK == \A k \in 1..Len(basis) : GDagger(basis[k].m) = basis[k].m
OrthOK == \A k, l \in 1..Len(basis) : k # l => TrProd(basis[k].m, basis[l].m) = GZero
NormOK == \A k \in 1..Len(basis) : GScale(basis[k].c2[1], TrProd(basis[k].m, basis[k].m)) = <<2 * basis[k].c2[2], 0>>
CompleteOK == \E L \in {LcmOf([k \in 1..Len(basis) |-> basis[k].c2[2]])} :
   \A p, q \in 1..d :
     \A r, c \in 1..d :
        GSum([k \in 1..Len(basis) |-> GScale(basis[k].c2[1] * (L \div basis[k].c2[2]), GMul(basis[k].m[q][p], basis[k].m[r][c]))])
          = (IF r = p /\ c = q THEN <<2 * L, 0>> ELSE GZero)
=============================================================================
