-------------------------------- MODULE MC_PureFid --------------------------------
(* Fidelity on the exact subdomain of Gaussian-integer kets and rational mixtures of their projectors:
     F(psi, phi) = |<psi|phi>|^2 / (|psi|^2 |phi|^2)
     F(rho, psi) = <psi|rho|psi> / |psi|^2,   rho = (w1 P_v1 + w2 P_v2)/(w1 + w2)
   All argument forms of get_fidelity (ket/ket, ket/dm, dm/ket, dm/dm with a projector) must return these numbers, in
   either order.  Model theorems: values lie in [0,1] (Cauchy-Schwarz) and are symmetric by construction. *)
EXTENDS Ring, Rat, TLC
CONSTANTS DMax, NSeeds
VARIABLES cfg, obs
H(s, a, b) == ModI(ModI(s * 7919 + a * 104729 + b * 1299709, 1000003), 7) - 3
Vec(d, s) == [i \in 1..d |-> <<H(s, i, 1), H(s, i, 2)>>]
N2(v) == GSum([i \in 1..Len(v) |-> GMul(GConj(v[i]), v[i])])[1]
Ov2(u, v) == LET z == GSum([i \in 1..Len(u) |-> GMul(GConj(u[i]), v[i])]) IN z[1] * z[1] + z[2] * z[2]
Ok(v) == N2(v) > 0
Init == /\ cfg \in {c \in [d : 2..DMax, s : 1..NSeeds] : Ok(Vec(c.d, c.s)) /\ Ok(Vec(c.d, c.s + 50)) /\ Ok(Vec(c.d, c.s + 90))}
        /\ LET psi == Vec(cfg.d, cfg.s)  v1 == Vec(cfg.d, cfg.s + 50)  v2 == Vec(cfg.d, cfg.s + 90)  w1 == (cfg.s % 3) + 1  w2 == (cfg.s % 2) + 1 IN
           obs = [psi |-> psi, v1 |-> v1, v2 |-> v2, w1 |-> w1, w2 |-> w2,
                  fkk |-> R(Ov2(psi, v1), N2(psi) * N2(v1)),
                  frk |-> RDiv(RAdd(RMul(RFromInt(w1), R(Ov2(psi, v1), N2(v1))), RMul(RFromInt(w2), R(Ov2(psi, v2), N2(v2)))), RFromInt((w1 + w2) * N2(psi)))]
Next == UNCHANGED <<cfg, obs>>
Spec == Init /\ [][Next]_<<cfg, obs>>
RangeOK == /\ ~RIsNeg(obs.fkk) /\ ~RIsNeg(RSub(ROne, obs.fkk)) /\ ~RIsNeg(obs.frk) /\ ~RIsNeg(RSub(ROne, obs.frk))
=============================================================================
