CONSTANTS LMax = 5
Dims = {2, 3}
MaxTotal = 48
SPECIFICATION Spec
INVARIANT TraceOK
INVARIANT TwoStepOK
