-------------------------------- MODULE Channel --------------------------------
(* Quantum channels given by Kraus operators K[s][o][i] (Gaussian integers) in numqi's documented index conventions:
     Phi(rho)            = sum_s K_s rho K_s^dagger
     Choi  C[(i,o),(i',o')] = sum_s K[s][o][i] conj K[s][o'][i']      flat index (i-1)*dout + o   (in,out,in,out)
     Super S[(o,o'),(i,i')] = the same numbers, rows (o-1)*dout + o', columns (i-1)*din + i'        acting on row-major vec(rho)
     apply_choi(C, rho)[o][o'] = sum_{i,i'} C[(i,o),(i',o')] rho[i][i'] *)
EXTENDS Ring, FiniteSets
DIn(K) == Len(K[1][1])
DOut(K) == Len(K[1])
Term(K, o, i, o2, i2) == GSum([s \in 1..Len(K) |-> GMul(K[s][o][i], GConj(K[s][o2][i2]))])
ChoiOf(K) == LET di == DIn(K)  do == DOut(K) IN
   [r \in 1..(di * do) |-> [c \in 1..(di * do) |-> Term(K, ((r - 1) % do) + 1, ((r - 1) \div do) + 1, ((c - 1) % do) + 1, ((c - 1) \div do) + 1)]]
SuperOf(K) == LET di == DIn(K)  do == DOut(K) IN
   [r \in 1..(do * do) |-> [c \in 1..(di * di) |-> Term(K, ((r - 1) \div do) + 1, ((c - 1) \div di) + 1, ((r - 1) % do) + 1, ((c - 1) % di) + 1)]]
ApplyK(K, rho) == LET do == DOut(K)  di == DIn(K) IN
   [o \in 1..do |-> [o2 \in 1..do |-> GSum([x \in 1..(di * di) |-> GMul(Term(K, o, ((x - 1) \div di) + 1, o2, ((x - 1) % di) + 1), rho[((x - 1) \div di) + 1][((x - 1) % di) + 1])])]]
ApplyC(C, rho, di, do) ==
   [o \in 1..do |-> [o2 \in 1..do |-> GSum([x \in 1..(di * di) |-> GMul(C[((x - 1) \div di) * do + o][((x - 1) % di) * do + o2], rho[((x - 1) \div di) + 1][((x - 1) % di) + 1])])]]
ApplyS(S, rho, di, do) ==
   [o \in 1..do |-> [o2 \in 1..do |-> GSum([x \in 1..(di * di) |-> GMul(S[(o - 1) * do + o2][x], rho[((x - 1) \div di) + 1][((x - 1) % di) + 1])])]]
\* reshuffles between the two matrix forms (pure index maps)
ChoiToSuper(C, di, do) == [r \in 1..(do * do) |-> [c \in 1..(di * di) |-> C[((c - 1) \div di) * do + ((r - 1) \div do) + 1][((c - 1) % di) * do + ((r - 1) % do) + 1]]]
SuperToChoi(S, di, do) == [r \in 1..(di * do) |-> [c \in 1..(di * do) |-> S[((r - 1) % do) * do + ((c - 1) % do) + 1][((r - 1) \div do) * di + ((c - 1) \div do) + 1]]]
UnitM(d, i, j) == [r \in 1..d |-> [c \in 1..d |-> IF r = i /\ c = j THEN GOne ELSE GZero]]
\* trace preserving  <=>  sum_s K_s^dagger K_s = I  <=>  Tr_out C = I
KdK(K) == [i \in 1..DIn(K) |-> [i2 \in 1..DIn(K) |-> GSum([o \in 1..DOut(K) |-> Term(K, o, i2, o, i)])]]
TrOutChoi(C, di, do) == [i \in 1..di |-> [i2 \in 1..di |-> GSum([o \in 1..do |-> C[(i - 1) * do + o][(i2 - 1) * do + o]])]]
=============================================================================
