CONSTANTS DMax = 6
SPECIFICATION Spec
INVARIANT CountOK
INVARIANT HermOK
INVARIANT OrthOK
INVARIANT NormOK
INVARIANT CompleteOK
