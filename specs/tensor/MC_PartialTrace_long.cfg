CONSTANTS LMax = 6
Dims = {2, 3}
MaxTotal = 64
SPECIFICATION Spec
INVARIANT TraceOK
INVARIANT TwoStepOK
