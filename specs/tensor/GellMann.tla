-------------------------------- MODULE GellMann --------------------------------
(* Generalised Gell-Mann matrices of dimension d in numqi's documented order:
     symmetric  (pairs i<j, row-major):      E_ij + E_ji
     antisymmetric (same pairs):            -i E_ij + i E_ji
     diagonal l = 1..d-1:                    sqrt(2/(l(l+1))) diag(1,..,1 (l times), -l, 0,..)
     identity:                               sqrt(2/d) I
   Each matrix is written  G_k = c_k M_k  with c_k^2 = <<num, den>> rational and M_k a Gaussian-integer matrix. *)
EXTENDS Ring, FiniteSets
Pairs(d) == SelectSeq([x \in 1..(d * d) |-> <<((x - 1) \div d) + 1, ((x - 1) % d) + 1>>], LAMBDA p : p[1] < p[2])
E(d, i, j, v) == [r \in 1..d |-> [c \in 1..d |-> IF r = i /\ c = j THEN v ELSE GZero]]
MAdd(A, B) == [r \in 1..Len(A) |-> [c \in 1..Len(A) |-> GAdd(A[r][c], B[r][c])]]
SymG(d, p) == [c2 |-> <<1, 1>>, m |-> MAdd(E(d, p[1], p[2], GOne), E(d, p[2], p[1], GOne))]
AntiG(d, p) == [c2 |-> <<1, 1>>, m |-> MAdd(E(d, p[1], p[2], <<0, -1>>), E(d, p[2], p[1], <<0, 1>>))]
DiagG(d, l) == [c2 |-> <<2, l * (l + 1)>>, m |-> [r \in 1..d |-> [c \in 1..d |-> IF r # c THEN GZero ELSE IF r <= l THEN GOne ELSE IF r = l + 1 THEN <<-l, 0>> ELSE GZero]]]
IdG(d) == [c2 |-> <<2, d>>, m |-> GIdent(d)]
Basis(d) == [k \in 1..Len(Pairs(d)) |-> SymG(d, Pairs(d)[k])] \o [k \in 1..Len(Pairs(d)) |-> AntiG(d, Pairs(d)[k])]
            \o [l \in 1..(d - 1) |-> DiagG(d, l)] \o <<IdG(d)>>
TrProd(A, B) == GTrace(GMatMul(A, B))
RECURSIVE Gcd(_, _)
Gcd(a, b) == IF b = 0 THEN a ELSE Gcd(b, a % b)
LcmOf(s) == FoldLeft(LAMBDA a, b : (a * b) \div Gcd(a, b), 1, s)
=============================================================================
