CONSTANTS DMax = 4
TMax = 4
NSeeds = 3
SPECIFICATION Spec
INVARIANT ApplyOK
INVARIANT ShuffleOK
INVARIANT HermOK
INVARIANT TPOK
INVARIANT FamilyOK
