CONSTANTS DA = {3, 5}
DB = {2, 3}
SampleMod = 127
SampleRes = 3
SPECIFICATION Spec
INVARIANT ImageIsState
INVARIANT TraceDistanceContracts
INVARIANT FidelityMonotone
INVARIANT FidelityRange
INVARIANT UnitaryInvariant
INVARIANT IdentityChannel
