CONSTANTS DMax = 3
TMax = 2
NSeeds = 2
SPECIFICATION Spec
INVARIANT ApplyOK
INVARIANT ShuffleOK
INVARIANT HermOK
INVARIANT TPOK
INVARIANT FamilyOK
