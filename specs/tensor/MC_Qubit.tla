-------------------------------- MODULE MC_Qubit --------------------------------
(* Contractivity for genuinely quantum pairs of states, decided exactly on the qubit.
   A qubit state is rho = (I + r.sigma)/2.  The model takes every RATIONAL point of the closed Bloch ball whose purity defect
   is rational as well: integer 4-vectors (x, y, z, q) with x^2 + y^2 + z^2 + q^2 = D^2, q >= 0, meaning r = (x,y,z)/D and
   sqrt(1 - |r|^2) = q/D  (q = 0: pure state, (0,0,0,D): maximally mixed).  Every qubit channel acts affinely on r:
        dephasing(p)          r |-> diag(1-2p, 1-2p, 1) r
        depolarizing(p)       r |-> (1-p) r                              (numqi convention: (1-3p/4) rho + p/4 (X rho X + Y rho Y + Z rho Z))
        amplitude damping(g)  r |-> (s x, s y, (1-g) z + g),  s = sqrt(1-g) rational for g in {0, 9/25, 16/25, 1}
        unitary U = (a - i(bX + cY + dZ))/N, a^2+b^2+c^2+d^2 = N^2 = 9:  r |-> R(a,b,c,d) r  (rational rotation)
   All numbers are integers over the common denominators m D (m = 25 for the noise channels, 9 for the unitaries).
        trace distance   T(rho,sigma) = |r - s| / 2
        fidelity         F(rho,sigma) = (1 + r.s + sqrt((1-|r|^2)(1-|s|^2))) / 2        (Uhlmann fidelity, squared convention)
   Model theorems (invariants): the image is a state, T does not increase, F does not decrease (decided exactly although F after
   the channel is a quadratic irrational), both are invariant under unitaries, F is symmetric and in [0,1]. *)
EXTENDS Integers, Sequences, FiniteSets, TLC
CONSTANTS DA, DB,         \* sets of denominators for the first / second state
          SampleMod, SampleRes   \* the replayed sub-model keeps the instances with Key = SampleRes (mod SampleMod); 1, 0 = all
VARIABLES cfg, obs
Pts(D) == {p \in (-D..D) \X (-D..D) \X (-D..D) \X (0..D) : p[1]*p[1] + p[2]*p[2] + p[3]*p[3] + p[4]*p[4] = D*D}
Dot3(a, b) == a[1]*b[1] + a[2]*b[2] + a[3]*b[3]
Quats == {<<1, 2, 2, 0>>, <<2, -1, 0, 2>>, <<0, 2, 1, -2>>, <<2, 0, -2, 1>>, <<-1, 2, 0, 2>>}
Rot(q) == LET a == q[1] b == q[2] c == q[3] d == q[4] IN
   << <<a*a + b*b - c*c - d*d, 2*(b*c - a*d), 2*(b*d + a*c)>>,
      <<2*(b*c + a*d), a*a - b*b + c*c - d*d, 2*(c*d - a*b)>>,
      <<2*(b*d - a*c), 2*(c*d + a*b), a*a - b*b - c*c + d*d>> >>
Diag3(x, y, z) == << <<x, 0, 0>>, <<0, y, 0>>, <<0, 0, z>> >>
\* channel record: kind, j (rate = j/25) or quaternion, T (integer matrix), t (integer shift), m (denominator)
Channels ==
   {[kind |-> "dephasing", j |-> j, q |-> <<>>, T |-> Diag3(25 - 2*j, 25 - 2*j, 25), t |-> <<0, 0, 0>>, m |-> 25] : j \in {0, 5, 10, 15, 25}}
   \cup {[kind |-> "depolarizing", j |-> j, q |-> <<>>, T |-> Diag3(25 - j, 25 - j, 25 - j), t |-> <<0, 0, 0>>, m |-> 25] : j \in {0, 5, 10, 20, 25}}
   \cup {[kind |-> "amplitude_damping", j |-> sj[2], q |-> <<>>, T |-> Diag3(5 * sj[1], 5 * sj[1], 25 - sj[2]), t |-> <<0, 0, sj[2]>>, m |-> 25] : sj \in {<<5, 0>>, <<4, 9>>, <<3, 16>>, <<0, 25>>}}
   \cup {[kind |-> "unitary", j |-> 0, q |-> q, T |-> Rot(q), t |-> <<0, 0, 0>>, m |-> 9] : q \in Quats}
MatVec3(T, v) == [i \in 1..3 |-> T[i][1]*v[1] + T[i][2]*v[2] + T[i][3]*v[3]]
\* image of r = u/D : (T u + t D) / (m D)
Image(ch, u, D) == LET w == MatVec3(ch.T, u) IN <<w[1] + ch.t[1]*D, w[2] + ch.t[2]*D, w[3] + ch.t[3]*D>>
Observe(c) ==
   LET u == <<c.u[1], c.u[2], c.u[3]>>  v == <<c.v[1], c.v[2], c.v[3]>>  Du == c.Du  Dv == c.Dv  ch == c.ch  m == ch.m
       delta == [i \in 1..3 |-> u[i]*Dv - v[i]*Du]           \* r - s = delta / (Du Dv)
       delta1 == MatVec3(ch.T, delta)                        \* r' - s' = delta1 / (m Du Dv)   (the shift cancels)
       u1 == Image(ch, u, Du)  v1 == Image(ch, v, Dv)  M == m*Du  N == m*Dv
   IN [m |-> m, u1 |-> u1, v1 |-> v1, d2 |-> Dot3(delta, delta), d2a |-> Dot3(delta1, delta1),
       fnum |-> Du*Dv + Dot3(u, v) + c.u[4]*c.v[4],          \* F = fnum / (2 Du Dv)
       a |-> M*M - Dot3(u1, u1), b |-> N*N - Dot3(v1, v1), dot1 |-> Dot3(u1, v1),     \* F' = (M N + dot1 + sqrt(a b)) / (2 M N)
       y |-> m*m*(Dot3(u, v) + c.u[4]*c.v[4]) - Dot3(u1, v1)]                      \* F' >= F  <=>  sqrt(a b) >= y
Key(c) == 7*c.u[1] + 3*c.u[2] + 11*c.u[3] + 5*c.v[1] + 13*c.v[2] + c.v[3] + 17*c.ch.j + 19*c.ch.m + 1000
Init == /\ \E Du \in DA, Dv \in DB : \E u \in Pts(Du), v \in Pts(Dv), ch \in Channels : cfg = [u |-> u, Du |-> Du, v |-> v, Dv |-> Dv, ch |-> ch]
        /\ Key(cfg) % SampleMod = SampleRes
        /\ obs = Observe(cfg)
Next == UNCHANGED <<cfg, obs>>
Spec == Init /\ [][Next]_<<cfg, obs>>
ImageIsState == obs.a >= 0 /\ obs.b >= 0
TraceDistanceContracts == obs.d2a <= obs.m * obs.m * obs.d2
FidelityMonotone == obs.y <= 0 \/ (obs.y <= 30000 /\ obs.y * obs.y <= obs.a * obs.b)
FidelityRange == obs.fnum >= 0 /\ obs.fnum <= 2 * cfg.Du * cfg.Dv
UnitaryInvariant == cfg.ch.kind = "unitary" => /\ obs.d2a = obs.m * obs.m * obs.d2
                                               /\ obs.a = 81 * cfg.u[4] * cfg.u[4] /\ obs.b = 81 * cfg.v[4] * cfg.v[4]
                                               /\ obs.y = 81 * cfg.u[4] * cfg.v[4]        \* sqrt(a b) = y : fidelity unchanged
IdentityChannel == (cfg.ch.kind # "unitary" /\ cfg.ch.j = 0) => obs.u1 = [i \in 1..3 |-> 25 * cfg.u[i]] /\ obs.d2a = 625 * obs.d2
=============================================================================
