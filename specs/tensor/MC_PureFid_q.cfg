CONSTANTS DMax = 3
NSeeds = 12
SPECIFICATION Spec
INVARIANT RangeOK
