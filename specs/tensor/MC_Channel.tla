-------------------------------- MODULE MC_Channel --------------------------------
(* instances: dim_in, dim_out in 1..DMax (incl. non-square), 1..TMax Kraus terms with pseudo-random Gaussian-integer
   entries, plus trace-preserving integer families (relabelling channels K_s = |f(s)><s| and phased permutations).
   Invariants: the three `apply` definitions agree on every matrix unit, the reshuffles are mutually inverse and map the
   Choi matrix to the super-operator, the Choi matrix is Hermitian, trace preservation <=> Tr_out C = I. *)
EXTENDS Channel, TLC
CONSTANTS DMax, TMax, NSeeds
VARIABLES cfg, obs
H(s, a, b, c) == ModI(ModI(s * 7919 + a * 104729 + b * 1299709 + c * 15485863, 1000003), 5) - 2
RandK(di, do, t, s) == [k \in 1..t |-> [o \in 1..do |-> [i \in 1..di |-> <<H(s, k, o, i), H(s + 5, k, i, o)>>]]]
\* relabelling channel: basis state s is sent to f(s); trace preserving, generally not unital
Relabel(di, do, s) == [k \in 1..di |-> [o \in 1..do |-> [i \in 1..di |-> IF i = k /\ o = ModI(k * s + s, do) + 1 THEN GOne ELSE GZero]]]
PhasedPerm(d, s) == <<[o \in 1..d |-> [i \in 1..d |-> IF o = ModI(i + s, d) + 1 THEN GIPow(i * s) ELSE GZero]]>>
Configs == {[kind |-> "rand", di |-> a, do |-> b, t |-> t, s |-> s] : a \in 1..DMax, b \in 1..DMax, t \in 1..TMax, s \in 1..NSeeds}
           \cup {[kind |-> "relabel", di |-> a, do |-> b, t |-> a, s |-> s] : a \in 1..DMax, b \in 1..DMax, s \in 1..NSeeds}
           \cup {[kind |-> "perm", di |-> a, do |-> a, t |-> 1, s |-> s] : a \in 1..DMax, s \in 1..NSeeds}
KOf(c) == CASE c.kind = "rand" -> RandK(c.di, c.do, c.t, c.s) [] c.kind = "relabel" -> Relabel(c.di, c.do, c.s) [] OTHER -> PhasedPerm(c.di, c.s)
MkObs(c, K, C, S) == [K |-> K, C |-> C, S |-> S, tp |-> (KdK(K) = GIdent(c.di)),
                      out |-> [i \in 1..c.di |-> [j \in 1..c.di |-> ApplyK(K, UnitM(c.di, i, j))]]]
Init == cfg \in Configs /\ \E K \in {KOf(cfg)} : \E C \in {ChoiOf(K)} : \E S \in {SuperOf(K)} : \E o \in {MkObs(cfg, K, C, S)} : obs = o
Next == UNCHANGED <<cfg, obs>>
Spec == Init /\ [][Next]_<<cfg, obs>>
ApplyOK == \A i, j \in 1..cfg.di : /\ ApplyC(obs.C, UnitM(cfg.di, i, j), cfg.di, cfg.do) = obs.out[i][j]
                                   /\ ApplyS(obs.S, UnitM(cfg.di, i, j), cfg.di, cfg.do) = obs.out[i][j]
ShuffleOK == /\ ChoiToSuper(obs.C, cfg.di, cfg.do) = obs.S /\ SuperToChoi(obs.S, cfg.di, cfg.do) = obs.C
HermOK == GDagger(obs.C) = obs.C
TPOK == obs.tp <=> (TrOutChoi(obs.C, cfg.di, cfg.do) = GIdent(cfg.di))
FamilyOK == cfg.kind # "rand" => obs.tp
=============================================================================
