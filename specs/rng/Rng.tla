-------------------------------- MODULE Rng --------------------------------
(* Seeded random generation in numqi as a state machine over call histories.
   World state: the three process-global generators (numpy legacy, Python `random`, torch) with an abstract
   (seed, position) each, and a memo of the outputs already observed for seeded calls of the function under test.
   REQUIRED behaviour: the output of a seeded call is a function of (function, arguments, seed) only - whatever global
   seeding / drawing / unseeded calls happened in between.  A call that is given a freshly built generator object seeded
   with s is likewise a function of s.  Unseeded calls are unconstrained, and no call may be judged by anything but its
   own output (a generator created but not used cannot cause a rejection). *)
EXTENDS Naturals, Sequences, TLC
CONSTANTS Libs, Seeds
VARIABLES glob, memo, memoG
vars == <<glob, memo, memoG>>
None == "none"
RInit == /\ glob = [l \in Libs |-> [seed |-> 0, pos |-> 0]]
         /\ memo = [s \in Seeds |-> None]
         /\ memoG = [s \in Seeds |-> None]
GlobalSeed(l, v) == glob' = [glob EXCEPT ![l] = [seed |-> v, pos |-> 0]] /\ UNCHANGED <<memo, memoG>>
GlobalDraw(l) == glob' = [glob EXCEPT ![l].pos = @ + 1] /\ UNCHANGED <<memo, memoG>>
UnseededCall == UNCHANGED vars                       \* any output is allowed; the globals are not part of the contract
SeededCall(s, d) == /\ (memo[s] = None \/ memo[s] = d)
                    /\ memo' = [memo EXCEPT ![s] = d] /\ UNCHANGED <<glob, memoG>>
PassGenerator(s, d) == /\ (memoG[s] = None \/ memoG[s] = d)
                       /\ memoG' = [memoG EXCEPT ![s] = d] /\ UNCHANGED <<glob, memo>>
=============================================================================
