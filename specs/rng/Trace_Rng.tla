-------------------------------- MODULE Trace_Rng --------------------------------
(* Recorded histories of real calls validated against Rng.tla.  One trace = one call pattern (function + arguments) driven
   along one history; events carry the SHA-256 digest of the raw result.  A disabled SeededCall / PassGenerator event is a
   reproducibility violation.  "valid" events carry the outputs of the DISCRETE generators, whose membership in the
   advertised set is decided exactly here. *)
EXTENDS Rng, GF2, Sets, Json, IOUtils
Traces == JsonDeserialize(IOEnv.TRACE_FILE)
VARIABLES tid, l
Ev == Traces[tid][l]
RowBit(v, k) == (v \div (2^(k - 1))) % 2
Unpack(rows, n) == [i \in 1..2*n |-> [k \in 1..2*n |-> RowBit(rows[i], k)]]
AllBits(v) == \A k \in 1..Len(v) : v[k] \in {0, 1}
ValidOK(e) ==
  CASE e.kind = "F2" -> /\ Len(e.bits) = e.size /\ AllBits(e.bits)
                        /\ (e.not_zero => \E k \in 1..Len(e.bits) : e.bits[k] = 1)
                        /\ (e.not_one => \E k \in 1..Len(e.bits) : e.bits[k] = 0)
    [] e.kind = "SpF2" -> IsSymplectic(Unpack(e.m, e.n), e.n)
    [] e.kind = "Clifford" -> /\ IsSymplectic(Unpack(e.m, e.n), e.n) /\ Len(e.r) = 2 * e.n /\ AllBits(e.r)
    [] e.kind = "pauli" -> /\ Len(e.f2) = 2 * e.n + 2 /\ AllBits(e.f2)
                           /\ LET x == SubSeq(e.f2, 3, 2 + e.n)  z == SubSeq(e.f2, 3 + e.n, 2 + 2 * e.n)  herm == (e.f2[2] = Dot(x, z)) IN
                              (e.herm = "True" => herm) /\ (e.herm = "False" => ~herm)
    [] e.kind = "adjacent" -> /\ Len(e.rows) = e.n
                              /\ \A i, j \in 1..e.n : e.rows[i][j] \in {0, 1} /\ e.rows[i][j] = e.rows[j][i] /\ e.rows[i][i] = 0
    [] e.kind = "cont" -> ContOK(e)                 \* continuous outputs: membership claims on the rounded values (Sets.tla)
    [] OTHER -> FALSE
EvG == /\ Ev.op \in {"gseed", "gdraw"}
       /\ IF Ev.op = "gseed" THEN GlobalSeed(Ev.lib, 7) ELSE GlobalDraw(Ev.lib)
EvU == Ev.op = "unseeded" /\ UnseededCall
EvS == Ev.op = "seeded" /\ SeededCall(Ev.seed, Ev.digest)
EvP == Ev.op = "gen" /\ PassGenerator(Ev.seed, Ev.digest)
EvV == Ev.op = "valid" /\ ValidOK(Ev) /\ UNCHANGED vars
Step == EvG \/ EvU \/ EvS \/ EvP \/ EvV
Init == tid = 1 /\ l = 1 /\ RInit /\ TLCSet(1, 0)
Reset == glob' = [k \in Libs |-> [seed |-> 0, pos |-> 0]] /\ memo' = [s \in Seeds |-> None] /\ memoG' = [s \in Seeds |-> None]
Consume == l <= Len(Traces[tid]) /\ Step /\ l' = l + 1 /\ tid' = tid
Finish == /\ l = Len(Traces[tid]) + 1 /\ TLCSet(1, TLCGet(1) + 1)
          /\ tid < Len(Traces) /\ tid' = tid + 1 /\ l' = 1 /\ Reset
\* name of the failing membership claim (evaluated for rejected events only)
Why == IF Ev.op = "valid" /\ Ev.kind = "cont"
       THEN (IF ~(Required(Ev.fn, Ev.a) \subseteq {Ev.claims[i].c : i \in 1..Len(Ev.claims)}) THEN "a required claim is missing"
             ELSE Ev.claims[CHOOSE i \in 1..Len(Ev.claims) : ~ClaimOK(Ev.claims[i], Ev.S)].c)
       ELSE Ev.op
Stuck == /\ l <= Len(Traces[tid]) /\ ~ENABLED Step /\ PrintT(<<"REJECT", tid, l, Ev.op, Why>>)
         /\ tid < Len(Traces) /\ tid' = tid + 1 /\ l' = 1 /\ Reset
Next == Consume \/ Finish \/ Stuck
Spec == Init /\ [][Next]_<<tid, l, glob, memo, memoG>>
Post == PrintT(<<"ACCEPTED", TLCGet(1), Len(Traces)>>)
=============================================================================
