CONSTANTS Libs = {"numpy", "python", "torch"}
Seeds = {1, 2}
SPECIFICATION Spec
POSTCONDITION Post
