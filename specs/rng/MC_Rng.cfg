CONSTANTS Libs = {"numpy", "python", "torch"}
Seeds = {1, 2}
MaxLen = 4
SPECIFICATION Spec
INVARIANT MemoOK
