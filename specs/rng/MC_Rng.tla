-------------------------------- MODULE MC_Rng --------------------------------
(* Every history of length <= MaxLen over {seed a global generator, draw from a global generator, unseeded call, seeded
   call with one of two seeds, call with a fresh seeded generator object}.  In the model the function under test is the
   ideal one (digest = a function of the seed), so every history is a behaviour; the dump is the set of histories that
   the harness executes against the real functions.  Design invariant: the memo never holds two different outputs. *)
EXTENDS Rng
CONSTANT MaxLen
VARIABLE hist
Ideal(s) == ToString(s)                             \* the ideal function's "digest"
Init == RInit /\ hist = <<>>
Next == /\ Len(hist) < MaxLen
        /\ \/ \E l \in Libs : GlobalSeed(l, 7) /\ hist' = Append(hist, <<"gseed", l>>)
           \/ \E l \in Libs : GlobalDraw(l) /\ hist' = Append(hist, <<"gdraw", l>>)
           \/ UnseededCall /\ hist' = Append(hist, <<"unseeded", "">>)
           \/ \E s \in Seeds : SeededCall(s, Ideal(s)) /\ hist' = Append(hist, <<"seeded", s>>)
           \/ \E s \in Seeds : PassGenerator(s, Ideal(s)) /\ hist' = Append(hist, <<"gen", s>>)
Spec == Init /\ [][Next]_<<glob, memo, memoG, hist>>
MemoOK == \A s \in Seeds : memo[s] \in {None, Ideal(s)} /\ memoG[s] \in {None, Ideal(s)}
\* only histories that can distinguish a correct from an incorrect implementation are interesting: two seeded calls
\* (or two generator calls) with the same seed
Count(h, kind, s) == Len(SelectSeq(h, LAMBDA e : e[1] = kind /\ e[2] = s))
Relevant == \E s \in Seeds : Count(hist, "seeded", s) >= 2 \/ Count(hist, "gen", s) >= 2
=============================================================================
