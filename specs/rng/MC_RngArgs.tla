-------------------------------- MODULE MC_RngArgs --------------------------------
(* The admissible argument combinations of the continuous generators of numqi.random (the documented domain of each
   optional argument), enumerated by TLC; every state is one call descriptor that the harness executes for several seeds.
   d1, d2: dimensions; k: rank / number of terms / copies (0 = argument left at None); flag: the boolean option of the
   generator (tag_complex, return_dm, pure_term, kind = bures); batch: 0 = None. *)
EXTENDS Integers, FiniteSets, TLC
CONSTANT DMax
VARIABLE a
D(fn, d1, d2, k, flag, batch) == [fn |-> fn, d1 |-> d1, d2 |-> d2, k |-> k, flag |-> flag, batch |-> batch]
MinI(x, y) == IF x < y THEN x ELSE y
Calls ==
   {D("rand_haar_state", d, 0, 0, f, 0) : d \in 1..DMax, f \in BOOLEAN}
   \cup {D("rand_haar_unitary", d, 0, 0, TRUE, 0) : d \in 1..DMax}
   \cup {D("rand_special_orthogonal_matrix", d, 0, 0, f, b) : d \in 2..3, f \in BOOLEAN, b \in 0..2}
   \cup {D("rand_density_matrix", d, 0, k, f, 0) : d \in 1..DMax, k \in 0..DMax, f \in BOOLEAN} 
   \cup {D("rand_kraus_op", di, do, k, f, 0) : di \in 1..3, do \in 1..3, k \in 1..3, f \in BOOLEAN}
   \cup {D("rand_choi_op", di, do, k, TRUE, 0) : di \in 1..3, do \in 1..3, k \in 0..9}
   \cup {D("rand_povm", d, 0, k, TRUE, 0) : d \in 1..3, k \in 1..4}
   \cup {D("rand_bipartite_state", dA, dB, k, f, 0) : dA \in 1..3, dB \in 0..3, k \in 0..3, f \in BOOLEAN}
   \cup {D("rand_separable_dm", dA, dB, k, f, 0) : dA \in 1..3, dB \in 0..3, k \in 1..3, f \in BOOLEAN}
   \cup {D("rand_hermitian_matrix", d, 0, k, f, 0) : d \in 1..3, k \in 0..2, f \in BOOLEAN}
   \cup {D("rand_n_sphere", d, 0, 0, TRUE, b) : d \in 1..3, b \in 0..2}
   \cup {D("rand_n_ball", d, 0, 0, TRUE, b) : d \in 1..3, b \in 0..2}
   \cup {D("rand_ABk_density_matrix", dA, dB, k, TRUE, 0) : dA \in 2..3, dB \in {2}, k \in 1..2}
   \cup {D("rand_orthonormal_matrix_basis", n, d, 0, f, 0) : n \in 2..3, d \in 2..3, f \in BOOLEAN}      \* (a single basis, n = 1, is not supported by the generator and not documented)
\* the documented domain of each generator
Admissible(c) ==
  CASE c.fn = "rand_density_matrix" -> c.k <= c.d1
    [] c.fn = "rand_kraus_op" -> c.k * c.d2 >= c.d1                                  \* sum K^dagger K = I needs num_term * dim_out >= dim_in
    [] c.fn = "rand_choi_op" -> c.k = 0 \/ (c.k <= c.d1 * c.d2 /\ c.k * c.d2 >= c.d1)
    [] c.fn = "rand_bipartite_state" -> c.k <= MinI(c.d1, IF c.d2 = 0 THEN c.d1 ELSE c.d2)
    [] c.fn = "rand_hermitian_matrix" -> c.k = 0 \/ c.d1 >= 2                       \* the eigenvalue-range branch draws a special orthogonal matrix (dim >= 2)
    [] OTHER -> TRUE
Init == a \in {c \in Calls : Admissible(c)}
Next == UNCHANGED a
Spec == Init /\ [][Next]_a
TypeOK == a.d1 >= 1
=============================================================================
