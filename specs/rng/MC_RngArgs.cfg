CONSTANTS DMax = 4
SPECIFICATION Spec
INVARIANT TypeOK
