-------------------------------- MODULE Sets --------------------------------
(* Membership of CONTINUOUS random outputs in the sets numqi.random advertises, decided on the outputs rounded to Gaussian
   integers <<re, im>> at a scale S (entry = round(S * value)).  Every claim is a finite integer computation with an explicit
   tolerance that covers the rounding (relative 1/40 of the squared scale for quadratic forms):
     unit / ball      : sum |v_k|^2 = S^2  (<= S^2)
     real             : no imaginary parts
     hermitian        : M = M^dagger (one unit per component)              trace1 : Tr M = S
     gram             : A A^dagger = S * M  with A of at most `cols` columns - a CERTIFICATE of positive semidefiniteness and of
                        rank <= cols (the harness computes A; a matrix that is not PSD / has larger rank has no such A)
     between          : lo * S * I <= M <= hi * S * I  by two gram certificates (eigenvalue range)
     isometry/unitary : U^dagger U = S^2 I  (and U U^dagger = S^2 I)
     det1             : determinant of the matrix rounded at the smaller scale T equals T^n (n <= 3)
     sumto            : sum_k M_k = S * I                                  kraus : sum_k K_k^dagger K_k = S^2 I
     tp               : the Choi operator (index order in,out,in,out) has Tr_out = S * I_in
     symB             : invariance under the swap of the two B copies of a state on A (x) B (x) B
     orthomats        : Tr(M_i^dagger M_j) = S^2 delta_ij
   Required(fn, a) lists the claims an event of generator fn MUST carry, so that the harness cannot leave one out. *)
EXTENDS Ring, Integers, Sequences, FiniteSets, SequencesExt
IAbs(x) == IF x < 0 THEN -x ELSE x
Near(z, w, tol) == IAbs(z[1] - w[1]) <= tol /\ IAbs(z[2] - w[2]) <= tol
Norm2(v) == FoldLeft(LAMBDA a, z : a + z[1] * z[1] + z[2] * z[2], 0, v)
Tol2(S) == (S * S) \div 40
IdEntry(i, j, x) == IF i = j THEN <<x, 0>> ELSE GZero
\* (A A^dagger)[i][j], (U^dagger U)[i][j]
AAd(A, i, j) == GSum([k \in 1..Len(A[1]) |-> GMul(A[i][k], GConj(A[j][k]))])
UdU(U, i, j) == GSum([k \in 1..Len(U) |-> GMul(GConj(U[k][i]), U[k][j])])
GramOK(A, M, S, cols) == /\ Len(A) = Len(M) /\ (Len(A) > 0 => Len(A[1]) <= cols)
                         /\ \A i, j \in 1..Len(M) : Near(AAd(A, i, j), GScale(S, M[i][j]), Tol2(S))
\* Hermitian up to ONE unit per component: the two entries are rounded separately, and values that agree to the last bit of single
\* precision can fall on different sides of a rounding boundary (exact equality was a false alarm of the thorough tier: Trace1PSD float32)
HermOK(M) == \A i, j \in 1..Len(M) : Len(M[i]) = Len(M) /\ Near(M[i][j], GConj(M[j][i]), 1)
TraceOK(M, S) == IAbs(FoldLeft(LAMBDA a, i : a + M[i][i][1], 0, [i \in 1..Len(M) |-> i]) - S) <= Len(M) + 1
IsoOK(U, S) == \A i, j \in 1..Len(U[1]) : Near(UdU(U, i, j), IdEntry(i, j, S * S), Tol2(S))
CoIsoOK(U, S) == \A i, j \in 1..Len(U) : Near(AAd(U, i, j), IdEntry(i, j, S * S), Tol2(S))
Det2(m) == GAdd(GMul(m[1][1], m[2][2]), GNeg(GMul(m[1][2], m[2][1])))
Det3(m) == GAdd(GAdd(GMul(m[1][1], GAdd(GMul(m[2][2], m[3][3]), GNeg(GMul(m[2][3], m[3][2])))),
                     GNeg(GMul(m[1][2], GAdd(GMul(m[2][1], m[3][3]), GNeg(GMul(m[2][3], m[3][1])))))),
                GMul(m[1][3], GAdd(GMul(m[2][1], m[3][2]), GNeg(GMul(m[2][2], m[3][1])))))
RECURSIVE IPow(_, _)
IPow(b, n) == IF n = 0 THEN 1 ELSE b * IPow(b, n - 1)
DetOK(m, T) == LET n == Len(m)  d == IF n = 1 THEN m[1][1] ELSE IF n = 2 THEN Det2(m) ELSE Det3(m) IN Near(d, <<IPow(T, n), 0>>, IPow(T, n) \div 8)
SumOK(Ms, S) == \A i, j \in 1..Len(Ms[1]) : Near(GSum([k \in 1..Len(Ms) |-> Ms[k][i][j]]), IdEntry(i, j, S), Len(Ms) + 1)
KrausOK(Ks, S) == \A i, j \in 1..Len(Ks[1][1]) : Near(GSum([k \in 1..Len(Ks) |-> UdU(Ks[k], i, j)]), IdEntry(i, j, S * S), Tol2(S))
TPOK(C, di, do, S) == \A i, j \in 1..di : Near(GSum([o \in 1..do |-> C[(i - 1) * do + o][(j - 1) * do + o]]), IdEntry(i, j, S), do + 1)
SwapIdx(r, dA, dB) == LET a == (r - 1) \div (dB * dB)  b1 == ((r - 1) \div dB) % dB  b2 == (r - 1) % dB IN a * dB * dB + b2 * dB + b1 + 1
SymBOK(M, dA, dB) == \A r, c \in 1..Len(M) : Near(M[r][c], M[SwapIdx(r, dA, dB)][SwapIdx(c, dA, dB)], 2)
MatIP(A, B) == GSum([i \in 1..Len(A) |-> GSum([j \in 1..Len(A[1]) |-> GMul(GConj(A[i][j]), B[i][j])])])
OrthoMatsOK(Ms, S) == \A i, j \in 1..Len(Ms) : Near(MatIP(Ms[i], Ms[j]), IdEntry(i, j, S * S), Tol2(S))
RealV(v) == \A k \in 1..Len(v) : v[k][2] = 0
RealM(M) == \A i \in 1..Len(M) : RealV(M[i])
Shift(M, x, sgn) == [i \in 1..Len(M) |-> [j \in 1..Len(M) |-> GAdd(GScale(sgn, M[i][j]), IdEntry(i, j, x))]]      \* sgn * M + x I
ClaimOK(c, S) ==
  CASE c.c = "unit" -> IAbs(Norm2(c.v) - S * S) <= Tol2(S)
    [] c.c = "ball" -> Norm2(c.v) <= S * S + Tol2(S)
    [] c.c = "realv" -> RealV(c.v)
    [] c.c = "real" -> RealM(c.M)
    [] c.c = "shape" -> Len(c.M) = c.rows /\ \A i \in 1..Len(c.M) : Len(c.M[i]) = c.cols
    [] c.c = "len" -> Len(c.v) = c.n
    [] c.c = "hermitian" -> HermOK(c.M)
    [] c.c = "trace1" -> TraceOK(c.M, S)
    [] c.c = "gram" -> GramOK(c.A, c.M, S, c.cols)
    [] c.c = "between" -> /\ GramOK(c.A, Shift(c.M, -(c.lo * S), 1), S, Len(c.M))        \* M - lo I >= 0
                          /\ GramOK(c.B, Shift(c.M, c.hi * S, -1), S, Len(c.M))           \* hi I - M >= 0
    [] c.c = "isometry" -> IsoOK(c.M, S)
    [] c.c = "unitary" -> IsoOK(c.M, S) /\ CoIsoOK(c.M, S) /\ Len(c.M) = Len(c.M[1])
    [] c.c = "det1" -> DetOK(c.M, c.T)
    [] c.c = "sumto" -> SumOK(c.Ms, S)
    [] c.c = "kraus" -> KrausOK(c.Ms, S)
    [] c.c = "tp" -> TPOK(c.M, c.di, c.do, S)
    [] c.c = "symB" -> SymBOK(c.M, c.dA, c.dB)
    [] c.c = "orthomats" -> OrthoMatsOK(c.Ms, S)
    [] OTHER -> FALSE
\* the claims every event of a generator must carry (a = the call descriptor)
Required(fn, a) ==
  CASE fn = "rand_haar_state" -> {"unit", "len"} \cup (IF a.flag THEN {} ELSE {"realv"})
    [] fn = "rand_haar_unitary" -> {"unitary", "shape"}
    [] fn = "rand_special_orthogonal_matrix" -> {"unitary", "det1", "shape"} \cup (IF a.flag THEN {} ELSE {"real"})
    [] fn = "rand_density_matrix" -> {"hermitian", "trace1", "gram", "shape"}
    [] fn = "rand_kraus_op" -> {"kraus"} \cup (IF a.flag THEN {} ELSE {"real"})
    [] fn = "rand_choi_op" -> {"hermitian", "gram", "tp", "shape"}
    [] fn = "rand_povm" -> {"sumto", "gram", "hermitian"}
    [] fn = "rand_bipartite_state" -> IF a.flag THEN {"hermitian", "trace1", "gram", "shape"} ELSE {"unit", "len"}
    [] fn = "rand_separable_dm" -> {"hermitian", "trace1", "gram", "shape"}
    [] fn = "rand_hermitian_matrix" -> {"hermitian", "shape"} \cup (IF a.k = 0 THEN {} ELSE {"between"}) \cup (IF a.flag THEN {} ELSE {"real"})
    [] fn = "rand_n_sphere" -> {"unit", "realv", "len"}
    [] fn = "rand_n_ball" -> {"ball", "realv", "len"}
    [] fn = "rand_ABk_density_matrix" -> {"hermitian", "trace1", "gram", "shape"} \cup (IF a.k = 2 THEN {"symB"} ELSE {})
    [] fn = "rand_orthonormal_matrix_basis" -> {"orthomats", "sumto"}        \* each basis: mutually orthogonal unit projectors resolving the identity
    [] OTHER -> {"no such generator"}
ContOK(e) == /\ Required(e.fn, e.a) \subseteq {e.claims[i].c : i \in 1..Len(e.claims)}
             /\ \A i \in 1..Len(e.claims) : ClaimOK(e.claims[i], e.S)
=============================================================================
