SPECIFICATION Spec
CONSTANTS
  Keys = {"a", "b"}
  Universe = {0, 1, 2}
  MaxOps = 3
INVARIANT NoDupOK
INVARIANT OrderedOK
INVARIANT FunctionOfSetOK
INVARIANT IdempotentOK
