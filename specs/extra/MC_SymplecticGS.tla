-------------------------------- MODULE MC_SymplecticGS --------------------------------
(* Symplectic Gram-Schmidt over F2 (numqi.group.spf2.schmidt_orthogonalization): from a list of vectors of F2^{2n} it extracts
   hyperbolic pairs (e_1..e_m, f_1..f_m) with <e_i, f_j> = delta_ij and <e_i, e_j> = <f_i, f_j> = 0.  The model enumerates
   every list of K vectors and computes what any correct procedure must return: m = rank(Gram matrix)/2, where the Gram matrix
   G_ij = <v_i, v_j> is alternating; its rank over F2 is computed by elimination. *)
EXTENDS GF2, Integers, Sequences, FiniteSets, TLC
CONSTANTS N, K
VARIABLES vs, m
Gram(v) == [i \in 1..Len(v) |-> [j \in 1..Len(v) |-> SympForm(v[i], v[j], N)]]
\* rank over F2 by Gaussian elimination on the rows
RECURSIVE RankRows(_, _)
RankRows(rows, c) == IF rows = {} \/ c = 0 THEN 0
   ELSE LET piv == {r \in rows : r[c] = 1} IN
        IF piv = {} THEN RankRows(rows, c - 1)
        ELSE LET p == CHOOSE r \in piv : TRUE IN 1 + RankRows({(IF r[c] = 1 THEN XorV(r, p) ELSE r) : r \in rows \ {p}} \ {ZeroV(Len(p))}, c - 1)
Rank(M) == RankRows({M[i] : i \in 1..Len(M)} \ {ZeroV(Len(M[1]))}, Len(M[1]))
Init == vs \in [1..K -> BitSeq(2 * N)] /\ m = Rank(Gram(vs)) \div 2
Next == UNCHANGED <<vs, m>>
Spec == Init /\ [][Next]_<<vs, m>>
EvenRank == Rank(Gram(vs)) % 2 = 0            \* an alternating form has even rank
=============================================================================
