SPECIFICATION Spec
CONSTANTS
  NPerm = 5
  NPart = 8
  NNumber = 120
  NSym = 5
INVARIANT OrbitsOK
INVARIANT ConjOK
INVARIANT GaussOK
INVARIANT SymmetrizerOK
