CONSTANT NMax = 4
SPECIFICATION Spec
INVARIANT LenOK
INVARIANT PauliOK
INVARIANT BondOK
