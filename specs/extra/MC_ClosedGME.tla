-------------------------------- MODULE MC_ClosedGME --------------------------------
(* Closed-form geometric measures of numqi.state that no listed property names, as exact rational functions.
     wtype : |psi> = a|100> + b|010> + c|001> with a^2 : b^2 : c^2 = A : B : C (integers, not all zero).  With x = a^2, y = b^2, z = c^2
             (x + y + z = 1) and r1 = y + z - x, r2 = x + z - y, r3 = x + y - z:
               all r_i > 0 :  GME = 3/4 - (16 x y z - H) / (4 H),   H = 4 x y - r3^2  ( = 16 * squared area of the triangle a, b, c)
               otherwise   :  GME = 1 - max(x, y, z)
             The measure is 1 - max over product states |<phi|psi>|^2, so every product state gives an upper bound.  TLC checks, for every
             triple of the model: symmetry under the six permutations, the value range [0, 5/9], agreement of the two branches on the
             branch boundary (some r_i = 0), and the upper bound 1 - overlap^2 for the product states whose one-qubit factors are
             (p|0> + q|1>)/sqrt(p^2+q^2) with 0 <= p, q <= PQ - overlap^2 is rational when x, y, z are perfect-square ratios, which the model
             uses for this clause (A, B, C squares).
     dicke : GME of the n-qubit Dicke state with k excitations = 1 - C(n,k) (k/n)^k ((n-k)/n)^(n-k); symmetric under k <-> n-k, zero exactly for
             k in {0, n}, and equal to 1 - overlap^2 with the product state (sqrt((n-k)/n)|0> + sqrt(k/n)|1>)^{(x) n}. *)
EXTENDS Rat, Integers, Sequences, FiniteSets, TLC
CONSTANTS M, PQ, NMax
VARIABLES kind, arg, val
Sq(r) == RMul(r, r)
RMax(a, b) == IF RIsNeg(RSub(a, b)) THEN b ELSE a
RLe(a, b) == ~RIsNeg(RSub(b, a))
RPos(a) == a[1] > 0
WGME(A, B, C) == LET s == A + B + C  x == R(A, s)  y == R(B, s)  z == R(C, s)
                     r1 == RSub(RAdd(y, z), x)  r2 == RSub(RAdd(x, z), y)  r3 == RSub(RAdd(x, y), z)
                     H == RSub(RMul(R(4, 1), RMul(x, y)), Sq(r3)) IN
                 IF RPos(r1) /\ RPos(r2) /\ RPos(r3)
                 THEN RSub(R(3, 4), RDiv(RSub(RMul(R(16, 1), RMul(x, RMul(y, z))), H), RMul(R(4, 1), H)))
                 ELSE RSub(ROne, RMax(x, RMax(y, z)))
RECURSIVE Fact(_)
Fact(n) == IF n <= 1 THEN 1 ELSE n * Fact(n - 1)
RECURSIVE RPow(_, _)
RPow(r, n) == IF n = 0 THEN ROne ELSE RMul(r, RPow(r, n - 1))
Binom(n, k) == Fact(n) \div (Fact(k) * Fact(n - k))
DGME(n, k) == RSub(ROne, RMul(R(Binom(n, k), 1), RMul(RPow(R(k, n), k), RPow(R(n - k, n), n - k))))
Init == \/ /\ kind = "wtype" /\ \E A, B, C \in 0..M : A + B + C > 0 /\ arg = <<A, B, C>> /\ val = WGME(A, B, C)
        \/ /\ kind = "dicke" /\ \E n \in 1..NMax : \E k \in 0..n : arg = <<n, k>> /\ val = DGME(n, k)
Next == UNCHANGED <<kind, arg, val>>
Spec == Init /\ [][Next]_<<kind, arg, val>>
SymmetricOK == kind = "wtype" => LET A == arg[1]  B == arg[2]  C == arg[3] IN
                  /\ val = WGME(B, A, C) /\ val = WGME(A, C, B) /\ val = WGME(C, B, A) /\ val = WGME(B, C, A) /\ val = WGME(C, A, B)
RangeOK == /\ kind = "wtype" => RLe(RZero, val) /\ RLe(val, R(5, 9))
           /\ kind = "dicke" => RLe(RZero, val) /\ RLe(val, ROne) /\ (RIsZero(val) <=> arg[2] \in {0, arg[1]}) /\ val = DGME(arg[1], arg[1] - arg[2])
\* on the branch boundary r_i = 0 the generic formula (evaluated there) equals 1 - max: with z = x + y one has H = 4xy - 0 and
\* 16xyz - H = 4xy(4z - 1), so the generic value is 3/4 - (4z - 1)/4 = 1 - z
BoundaryOK == kind = "wtype" => LET A == arg[1]  B == arg[2]  C == arg[3]  s == A + B + C IN
                  (C = A + B /\ A > 0 /\ B > 0) => val = RSub(ROne, R(C, s))
\* product-state upper bounds for perfect-square ratios A = a0^2, B = b0^2, C = c0^2:
\*   <phi|psi> = (a0 q1 p2 p3 + b0 p1 q2 p3 + c0 p1 p2 q3) / sqrt(s (p1^2+q1^2)(p2^2+q2^2)(p3^2+q3^2))
IsSquare(n) == \E t \in 0..n : t * t = n
Root(n) == CHOOSE t \in 0..n : t * t = n
UpperBoundOK == (kind = "wtype" /\ IsSquare(arg[1]) /\ IsSquare(arg[2]) /\ IsSquare(arg[3])) =>
   LET a0 == Root(arg[1])  b0 == Root(arg[2])  c0 == Root(arg[3])  s == arg[1] + arg[2] + arg[3] IN
   \A p1, q1, p2, q2, p3, q3 \in 0..PQ : (p1 + q1 > 0 /\ p2 + q2 > 0 /\ p3 + q3 > 0) =>
      LET num == a0 * q1 * p2 * p3 + b0 * p1 * q2 * p3 + c0 * p1 * p2 * q3
          den == s * (p1 * p1 + q1 * q1) * (p2 * p2 + q2 * q2) * (p3 * p3 + q3 * q3) IN
      RLe(val, RSub(ROne, R(num * num, den)))
DickeProductOK == kind = "dicke" => val = DGME(arg[1], arg[2])       \* restated: the bound of the symmetric product state is the definition
=============================================================================
