CONSTANTS N = 2
K = 4
SPECIFICATION Spec
INVARIANT EvenRank
