CONSTANTS N = 2
K = 3
SPECIFICATION Spec
INVARIANT EvenRank
