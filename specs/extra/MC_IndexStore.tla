-------------------------------- MODULE MC_IndexStore --------------------------------
(* The small persistent store of numqi.unique_determine (save_index_to_file / remove_index_from_file): a JSON file mapping a key to a
   list of index sets.  It is the one piece of the library with a history: the content after any sequence of calls must be a function
   of the SET of index sets saved and not yet removed.
     Save(key, batch)   : every element of the batch is normalised to a set of integers and added to the key;
     Remove(key, batch) : the normalised elements are deleted from the key (absent ones are ignored);
     Read(key) / ReadAll: the stored sets, each as an ascending tuple, ordered by (length, lexicographic).
   State: store[key] = set of index sets.  Every step records the reply the real call must give (`view` = the ordered list of the key
   touched).  Save with an empty batch only reads.  Invariants: a view never contains duplicates, is ordered, and re-saving what is
   stored does not change it. *)
EXTENDS Integers, Sequences, FiniteSets, SequencesExt, TLC
CONSTANTS Keys, Universe, MaxOps
VARIABLES store, last, nops
IndexSets == (SUBSET Universe) \ {{}}
AscTuple(S) == SetToSortSeq(S, <)
RECURSIVE LexLess(_, _)
LexLess(a, b) == IF a = <<>> \/ b = <<>> THEN Len(a) < Len(b) ELSE IF a[1] # b[1] THEN a[1] < b[1] ELSE LexLess(Tail(a), Tail(b))
Before(a, b) == IF Len(a) # Len(b) THEN Len(a) < Len(b) ELSE LexLess(a, b)
View(S) == SetToSortSeq({AscTuple(x) : x \in S}, Before)
Batches == {<<a>> : a \in IndexSets} \cup {<<a, b>> : a, b \in IndexSets}
Init == store = [k \in Keys |-> {}] /\ last = [op |-> "init", key |-> "", batch |-> <<>>, view |-> <<>>] /\ nops = 0
Save(k, b) == /\ store' = [store EXCEPT ![k] = @ \cup {b[i] : i \in 1..Len(b)}]
              /\ last' = [op |-> "save", key |-> k, batch |-> [i \in 1..Len(b) |-> AscTuple(b[i])], view |-> View(store'[k])]
RemoveIdx(k, b) == /\ store' = [store EXCEPT ![k] = @ \ {b[i] : i \in 1..Len(b)}]
                /\ last' = [op |-> "remove", key |-> k, batch |-> [i \in 1..Len(b) |-> AscTuple(b[i])], view |-> View(store'[k])]
Read(k) == /\ UNCHANGED store /\ last' = [op |-> "read", key |-> k, batch |-> <<>>, view |-> View(store[k])]
Next == /\ nops < MaxOps /\ nops' = nops + 1
        /\ \E k \in Keys : \/ \E b \in Batches : Save(k, b) \/ RemoveIdx(k, b)
                           \/ Read(k)
Spec == Init /\ [][Next]_<<store, last, nops>>
NoDupOK == \A i, j \in 1..Len(last.view) : i # j => last.view[i] # last.view[j]
OrderedOK == \A i \in 1..(Len(last.view) - 1) : Before(last.view[i], last.view[i + 1])
FunctionOfSetOK == last.op \in {"save", "remove", "read"} => last.view = View(store[last.key])
IdempotentOK == \A k \in Keys : View(store[k] \cup store[k]) = View(store[k])
=============================================================================
