CONSTANTS M = 3
SPECIFICATION Spec
INVARIANT BoundsOK
INVARIANT MonotoneOK
INVARIANT EquivOrderOK
