SPECIFICATION Spec
CONSTANTS
  Keys = {"a", "b"}
  Universe = {0, 1, 2, 3}
  MaxOps = 12
INVARIANT NoDupOK
INVARIANT OrderedOK
INVARIANT FunctionOfSetOK
