-------------------------------- MODULE MC_Query --------------------------------
(* Discrete helpers of numqi.query.utils and numqi.utils, which the query-complexity models and every constructor that sizes a
   register are built on.  One state per call; `out` is the value the real call must return (or "reject" where the documented
   precondition fails and the code must raise).
     xbit(m, n)          : the 2^m x n table whose row x is the little-endian binary expansion of x padded to n columns
     hamming(x)          : number of ones of x
     modmap(nb, q)       : x |-> hamming(x) mod q  for x < 2^nb
     exactmap(nb, S)     : x |-> 1 if hamming(x) \in S else 0
     measure(bm, part)   : row i carries ones exactly on the columns of block bm[i] of the partition `part`
     numqubit(N, kind)   : exact / ceil / floor of log2 N  (exact rejects non powers of two)
     c2r(A) / r2c        : A = R + iJ  |->  [[R, -J], [J, R]]  on Gaussian-integer matrices, a ring monomorphism with left inverse r2c
   Invariants are the algebraic laws the tables obey (TLC evaluates them in every state). *)
EXTENDS Integers, Sequences, FiniteSets, SequencesExt, FiniteSetsExt, TLC
VARIABLES inst, out
Pow2(k) == FoldLeft(LAMBDA acc, i : 2 * acc, 1, [i \in 1..k |-> i])
RECURSIVE HW(_)
HW(x) == IF x = 0 THEN 0 ELSE (x % 2) + HW(x \div 2)
Bit(x, i) == (x \div Pow2(i)) % 2                        \* i = 0 is the least significant bit
RECURSIVE Log2Floor(_)
Log2Floor(x) == IF x <= 1 THEN 0 ELSE 1 + Log2Floor(x \div 2)
IsPow2(x) == Pow2(Log2Floor(x)) = x
Log2Ceil(x) == IF IsPow2(x) THEN Log2Floor(x) ELSE Log2Floor(x) + 1
Binom(n, k) == Cardinality({x \in 0..(Pow2(n) - 1) : HW(x) = k})
XBit(m, n) == [r \in 1..Pow2(m) |-> [c \in 1..n |-> IF c <= m THEN Bit(r - 1, c - 1) ELSE 0]]
ModMap(nb, q) == [x \in 1..Pow2(nb) |-> HW(x - 1) % q]
ExactMap(nb, S) == [x \in 1..Pow2(nb) |-> IF HW(x - 1) \in S THEN 1 ELSE 0]
SumSeq(s) == FoldLeft(LAMBDA acc, v : acc + v, 0, s)
Offset(part, b) == SumSeq(SubSeq(part, 1, b))               \* columns before block b+1 (blocks are numbered from 0)
Measure(bm, part) == [r \in 1..Len(bm) |-> [c \in 1..SumSeq(part) |->
                        IF c > Offset(part, bm[r]) /\ c <= Offset(part, bm[r] + 1) THEN 1 ELSE 0]]
NumQubit(N, kind) == CASE kind = "exact" -> IF IsPow2(N) THEN Log2Floor(N) ELSE -1
                       [] kind = "ceil" -> Log2Ceil(N)
                       [] OTHER -> Log2Floor(N)
\* Gaussian integers as <<re, im>>
GAdd(a, b) == <<a[1] + b[1], a[2] + b[2]>>
GMul(a, b) == <<a[1] * b[1] - a[2] * b[2], a[1] * b[2] + a[2] * b[1]>>
GMatMul(A, B) == [r \in 1..Len(A) |-> [c \in 1..Len(B[1]) |->
                    FoldLeft(LAMBDA acc, k : GAdd(acc, GMul(A[r][k], B[k][c])), <<0, 0>>, [k \in 1..Len(B) |-> k])]]
IMatMul(A, B) == [r \in 1..Len(A) |-> [c \in 1..Len(B[1]) |->
                    FoldLeft(LAMBDA acc, k : acc + A[r][k] * B[k][c], 0, [k \in 1..Len(B) |-> k])]]
C2R(A) == LET m == Len(A)  n == Len(A[1]) IN
          [r \in 1..(2 * m) |-> [c \in 1..(2 * n) |->
             IF r <= m THEN (IF c <= n THEN A[r][c][1] ELSE -A[r][c - n][2])
                       ELSE (IF c <= n THEN A[r - m][c][2] ELSE A[r - m][c - n][1])]]
R2C(M) == LET m == Len(M) \div 2  n == Len(M[1]) \div 2 IN [r \in 1..m |-> [c \in 1..n |-> <<M[r][c], M[r + m][c]>>]]
GVals == {<<0, 0>>, <<1, 0>>, <<0, 1>>, <<-1, 2>>, <<2, -1>>}
GMats(m, n) == [1..m -> [1..n -> GVals]]
Partitions == {<<1>>, <<2>>, <<1, 1>>, <<2, 1>>, <<1, 3>>, <<1, 1, 1>>, <<2, 1, 2>>, <<1, 2, 1, 1>>}
Bitmaps(p, len) == [1..len -> 0..(Len(p) - 1)]
NQArgs == (1..70) \cup UNION {{Pow2(k) - 1, Pow2(k), Pow2(k) + 1} : k \in 7..29}
Instances ==
    {[kind |-> "xbit", m |-> m, n |-> n] : m \in 1..5, n \in 1..9} \cup
    {[kind |-> "hamming", x |-> x] : x \in (0..300) \cup UNION {{Pow2(k) - 1, Pow2(k), Pow2(k) + 1} : k \in 9..30}} \cup
    {[kind |-> "modmap", nb |-> nb, q |-> q] : nb \in 1..6, q \in 1..5} \cup
    {[kind |-> "exactmap", nb |-> nb, S |-> S] : nb \in {1, 2, 3}, S \in (SUBSET (0..3)) \ {{}}} \cup
    {[kind |-> "exactmap", nb |-> 5, S |-> S] : S \in {{0}, {5}, {0, 5}, {2, 3}, {1, 4, 5}}} \cup
    {[kind |-> "measure", part |-> p, bm |-> b] : p \in Partitions, b \in {<<0>>}} \cup
    UNION {{[kind |-> "measure", part |-> p, bm |-> b] : b \in Bitmaps(p, IF Len(p) <= 2 THEN 4 ELSE 3)} : p \in Partitions} \cup
    {[kind |-> "numqubit", N |-> N, how |-> h] : N \in NQArgs, h \in {"exact", "ceil", "floor"}} \cup
    {[kind |-> "c2r", A |-> A, B |-> B] : A \in GMats(1, 2), B \in GMats(2, 1)} \cup
    {[kind |-> "c2r", A |-> A, B |-> A] : A \in {a \in GMats(2, 2) : a[1][1] # a[2][2] /\ a[1][2] = <<2, -1>>}}
Legal(i) == CASE i.kind = "xbit" -> i.m <= i.n
              [] i.kind = "exactmap" -> \A s \in i.S : s <= i.nb
              [] OTHER -> TRUE
Eval(i) == CASE i.kind = "xbit" -> XBit(i.m, i.n)
             [] i.kind = "hamming" -> HW(i.x)
             [] i.kind = "modmap" -> ModMap(i.nb, i.q)
             [] i.kind = "exactmap" -> ExactMap(i.nb, i.S)
             [] i.kind = "measure" -> Measure(i.bm, i.part)
             [] i.kind = "numqubit" -> NumQubit(i.N, i.how)
             [] OTHER -> <<C2R(i.A), C2R(i.B), C2R(GMatMul(i.A, i.B))>>
Init == inst \in Instances /\ out = (IF Legal(inst) THEN Eval(inst) ELSE -1)
Next == UNCHANGED <<inst, out>>
Spec == Init /\ [][Next]_<<inst, out>>
\* ---- laws
XBitOK == (inst.kind = "xbit" /\ Legal(inst)) =>
            /\ \A r \in 1..Len(out) : SumSeq([c \in 1..inst.n |-> out[r][c] * Pow2(c - 1)]) = r - 1     \* row r spells r-1
            /\ \A r, s \in 1..Len(out) : r # s => out[r] # out[s]
HammingOK == inst.kind = "hamming" =>
            /\ out = Cardinality({i \in 0..30 : Bit(inst.x, i) = 1})
            /\ (inst.x > 0 => out = HW(inst.x - 1) + 1 - (CHOOSE t \in 0..30 : Bit(inst.x, t) = 1 /\ \A u \in 0..(t - 1) : Bit(inst.x, u) = 0))
ModMapOK == inst.kind = "modmap" =>
            \A c \in 0..(inst.q - 1) : Cardinality({x \in 1..Len(out) : out[x] = c})
                                       = SumSeq([k \in 1..(inst.nb + 1) |-> IF (k - 1) % inst.q = c THEN Binom(inst.nb, k - 1) ELSE 0])
ExactMapOK == (inst.kind = "exactmap" /\ Legal(inst)) =>
            SumSeq(out) = SumSeq([k \in 1..(inst.nb + 1) |-> IF (k - 1) \in inst.S THEN Binom(inst.nb, k - 1) ELSE 0])
MeasureOK == inst.kind = "measure" =>
            /\ \A r \in 1..Len(out) : SumSeq(out[r]) = inst.part[inst.bm[r] + 1]
            /\ \A r, s \in 1..Len(out) : (inst.bm[r] # inst.bm[s]) => \A c \in 1..Len(out[r]) : out[r][c] * out[s][c] = 0
NumQubitOK == inst.kind = "numqubit" =>
            CASE inst.how = "exact" -> (out = -1 \/ Pow2(out) = inst.N)
              [] inst.how = "ceil" -> (Pow2(out) >= inst.N /\ (out = 0 \/ Pow2(out - 1) < inst.N))
              [] OTHER -> (Pow2(out) <= inst.N /\ Pow2(out) > inst.N \div 2)
C2ROK == inst.kind = "c2r" =>
            /\ IMatMul(out[1], out[2]) = out[3]                               \* multiplicative
            /\ R2C(out[1]) = inst.A /\ R2C(out[3]) = GMatMul(inst.A, inst.B)     \* left inverse
=============================================================================
