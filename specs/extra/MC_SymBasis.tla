-------------------------------- MODULE MC_SymBasis --------------------------------
(* The orthonormal bases of the symmetric and the antisymmetric subspace of (C^d)^{(x) r} that numqi.matrix_space builds
   (get_symmetric_basis, get_antisymmetric_basis) and that the hierarchical rank test contracts tensors with.
     label      : a non-decreasing (symmetric) / strictly increasing (antisymmetric) index tuple over 0..d-1, in lexicographic order
                  (the order of itertools.combinations_with_replacement / combinations);
     element    : |label>_S = sqrt(prod_i m_i! / r!) * sum over the DISTINCT rearrangements t of the label of |t>
                  |label>_A = 1/sqrt(r!) * sum_p sign(p) |label o p>
   An entry is recorded as <<flat index, sign, num, den>> meaning sign * sqrt(num/den); flat index = sum t[i] d^{r-i} (C order).
   Invariants (properties of the construction, checked by TLC for every (d, r) of the model): the number of elements is the
   binomial coefficient, every element has unit norm, distinct elements have disjoint supports (hence orthogonal), exchanging two
   tensor factors multiplies an element by +1 / -1, and together the elements carry every rearrangement exactly once. *)
EXTENDS Integers, Sequences, FiniteSets, SequencesExt, FiniteSetsExt, Functions, TLC
CONSTANTS Dims, Ranks
VARIABLES kind, d, r, rows
Tuples(dd, rr) == [1..rr -> 0..(dd - 1)]
NonDec(t) == \A i \in 1..(Len(t) - 1) : t[i] <= t[i + 1]
StrictInc(t) == \A i \in 1..(Len(t) - 1) : t[i] < t[i + 1]
RECURSIVE LexLess(_, _)
LexLess(a, b) == IF a = <<>> THEN FALSE ELSE IF a[1] # b[1] THEN a[1] < b[1] ELSE LexLess(Tail(a), Tail(b))
Labels(k, dd, rr) == SetToSortSeq({t \in Tuples(dd, rr) : IF k = "sym" THEN NonDec(t) ELSE StrictInc(t)}, LexLess)
Perms(rr) == {p \in [1..rr -> 1..rr] : \A i, j \in 1..rr : i # j => p[i] # p[j]}
Inversions(p) == Cardinality({<<i, j>> \in (1..Len(p)) \X (1..Len(p)) : i < j /\ p[i] > p[j]})
Sign(p) == IF Inversions(p) % 2 = 0 THEN 1 ELSE -1
RECURSIVE Fact(_)
Fact(n) == IF n <= 1 THEN 1 ELSE n * Fact(n - 1)
RECURSIVE IPow(_, _)
IPow(b, n) == IF n = 0 THEN 1 ELSE b * IPow(b, n - 1)
Flat(t, dd) == FoldLeft(LAMBDA a, x : a * dd + x, 0, t)
Mult(t, dd) == FoldLeft(LAMBDA a, v : a * Fact(Cardinality({i \in 1..Len(t) : t[i] = v})), 1, [v \in 1..dd |-> v - 1])
Compose(t, p) == [i \in 1..Len(t) |-> t[p[i]]]
SymElement(c, dd, rr) == {<<Flat(t, dd), 1, Mult(c, dd), Fact(rr)>> : t \in {Compose(c, p) : p \in Perms(rr)}}
AntiElement(c, dd, rr) == {<<Flat(Compose(c, p), dd), Sign(p), 1, Fact(rr)>> : p \in Perms(rr)}
Rows(k, dd, rr) == LET L == Labels(k, dd, rr) IN [i \in 1..Len(L) |-> IF k = "sym" THEN SymElement(L[i], dd, rr) ELSE AntiElement(L[i], dd, rr)]
Init == /\ kind \in {"sym", "anti"} /\ d \in Dims /\ r \in Ranks /\ (kind = "anti" => r <= d)
        /\ rows = Rows(kind, d, r)
Next == UNCHANGED <<kind, d, r, rows>>
Spec == Init /\ [][Next]_<<kind, d, r, rows>>
Binom(n, k) == Fact(n) \div (Fact(k) * Fact(n - k))
CountOK == Len(rows) = IF kind = "sym" THEN Binom(d + r - 1, r) ELSE Binom(d, r)
\* unit norm: sum of num/den over the support = 1 (all entries of one element share num and den)
UnitOK == \A i \in 1..Len(rows) : \A e \in rows[i] : Cardinality(rows[i]) * e[3] = e[4]
DisjointOK == \A i, j \in 1..Len(rows) : i # j => {e[1] : e \in rows[i]} \cap {e[1] : e \in rows[j]} = {}
\* exchanging the first two tensor factors of the flat index
Unflat(f, dd, rr) == [i \in 1..rr |-> (f \div IPow(dd, rr - i)) % dd]
SwapFlat(f, dd, rr) == LET t == Unflat(f, dd, rr) IN Flat([i \in 1..rr |-> IF i = 1 THEN t[2] ELSE IF i = 2 THEN t[1] ELSE t[i]], dd)
ExchangeOK == r >= 2 => \A i \in 1..Len(rows) : \A e \in rows[i] :
                 <<SwapFlat(e[1], d, r), IF kind = "sym" THEN e[2] ELSE -e[2], e[3], e[4]>> \in rows[i]
CoverOK == kind = "sym" => UNION {{e[1] : e \in rows[i]} : i \in 1..Len(rows)} = 0..(IPow(d, r) - 1)
=============================================================================
