-------------------------------- MODULE MC_Qudit --------------------------------
(* Weyl-Heisenberg (generalised Pauli) matrices of dimension d in {2, 4, 8}, where the d-th roots of unity live in Z[w],
   w = e^{i pi/4}:   X |k> = |k+1 mod d>,   Z |k> = u^k |k>,   H[j][k] = u^{jk} / sqrt d,   u = w^{8/d}.
   Invariants: Z X = u X Z,  X^d = Z^d = I,  H is unitary and H X H^dagger = Z. *)
EXTENDS Ring, Integers, Sequences, SequencesExt, TLC
VARIABLES d, X, Z, H
U(dd, k) == OWPow(((8 \div dd) * k) % 8)
MkX(dd) == [r \in 1..dd |-> [c \in 1..dd |-> IF r - 1 = (c % dd) THEN OOne ELSE OZero]]
MkZ(dd) == [r \in 1..dd |-> [c \in 1..dd |-> IF r = c THEN U(dd, r - 1) ELSE OZero]]
MkH(dd) == [r \in 1..dd |-> [c \in 1..dd |-> U(dd, (r - 1) * (c - 1))]]           \* times sqrt d
Init == d \in {2, 4, 8} /\ X = MkX(d) /\ Z = MkZ(d) /\ H = MkH(d)
Next == UNCHANGED <<d, X, Z, H>>
Spec == Init /\ [][Next]_<<d, X, Z, H>>
MPow(M, k) == FoldLeft(LAMBDA acc, i : OMatMul(M, acc), OIdent(Len(M)), [i \in 1..k |-> i])
CommutationOK == OMatMul(Z, X) = OMatScale(U(d, 1), OMatMul(X, Z))
OrderOK == MPow(X, d) = OIdent(d) /\ MPow(Z, d) = OIdent(d)
FourierOK == /\ OMatMul(H, ODagger(H)) = OMatScale(<<d, 0, 0, 0>>, OIdent(d))
             /\ OMatMul(OMatMul(H, X), ODagger(H)) = OMatScale(<<d, 0, 0, 0>>, Z)
=============================================================================
