SPECIFICATION Spec
INVARIANT CommutationOK
INVARIANT OrderOK
INVARIANT FourierOK
