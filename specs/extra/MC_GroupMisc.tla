-------------------------------- MODULE MC_GroupMisc --------------------------------
(* Small discrete helpers of numqi.group that the listed group property (C14) does not name.  One state per object:
     perm       : a permutation p of 0..n-1 (as the sequence p[1..n] over 0..n-1) with its orbits and its sign - permutation_to_cycle_notation
                  must return cycles (c_0, c_1, ...) with p[c_i] = c_{i+1} (cyclically) whose supports are exactly the orbits;
     partition  : a partition with its conjugate - get_young_diagram_transpose, get_young_diagram_mask, check_young_diagram;
     number     : n with Euler's totient and primality - hf_Euler_totient, hf_is_prime (Gauss: sum over the divisors of phi = n);
     symmetrizer: a Young diagram with its first standard tableau (rows filled left to right, top to bottom) and the Young symmetrizer as
                  the set of <<permutation, sign>> terms  sum_{q in Col(T)} sum_{p in Row(T)} sign(q) q.p ; invariant: the number of terms is
                  prod(row lengths)! * prod(column lengths)!, all terms distinct (Row(T) and Col(T) meet in the identity only). *)
EXTENDS Young, Partition, Integers, Sequences, FiniteSets, SequencesExt, FiniteSetsExt, TLC
CONSTANTS NPerm, NPart, NNumber, NSym
VARIABLES kind, obj
Perm0(n) == {p \in [1..n -> 0..(n - 1)] : \A i, j \in 1..n : i # j => p[i] # p[j]}
RECURSIVE OrbitOf(_, _, _)
OrbitOf(p, x, acc) == IF x \in acc THEN acc ELSE OrbitOf(p, p[x + 1], acc \cup {x})
Orbits(p) == {OrbitOf(p, x, {}) : x \in 0..(Len(p) - 1)}
Inversions(p) == Cardinality({ij \in (1..Len(p)) \X (1..Len(p)) : ij[1] < ij[2] /\ p[ij[1]] > p[ij[2]]})
Sign(p) == IF Inversions(p) % 2 = 0 THEN 1 ELSE -1
Conj(sh) == [c \in 1..sh[1] |-> ColLen(sh, c)]
Gcd(a, b) == Max({g \in 1..a : a % g = 0 /\ b % g = 0})
Totient(n) == Cardinality({x \in 1..n : Gcd(n, x) = 1})
IsPrime(n) == n >= 2 /\ \A x \in 2..(n - 1) : n % x # 0
\* first standard tableau of a shape: labels 0..N-1 row by row
Offset(sh, r) == FoldLeft(LAMBDA a, i : a + sh[i], 0, [i \in 1..(r - 1) |-> i])
RowSets(sh) == {{Offset(sh, r) + c - 1 : c \in 1..sh[r]} : r \in 1..Len(sh)}
ColSets(sh) == {{Offset(sh, r) + c - 1 : r \in {rr \in 1..Len(sh) : sh[rr] >= c}} : c \in 1..sh[1]}
Preserves(p, blocks) == \A b \in blocks : \A x \in b : p[x + 1] \in b
Compose(q, p) == [i \in 1..Len(p) |-> q[p[i] + 1]]                      \* (q.p)(i) = q(p(i))
Symmetrizer(sh) == LET n == SumSh(sh)  R == {p \in Perm0(n) : Preserves(p, RowSets(sh))}  C == {q \in Perm0(n) : Preserves(q, ColSets(sh))} IN
                   [rows |-> R, cols |-> C, terms |-> {<<Compose(q, p), Sign(q)>> : q \in C, p \in R}]
Init == \/ /\ kind = "perm" /\ \E n \in 1..NPerm : \E p \in Perm0(n) : obj = [p |-> p, orbits |-> Orbits(p), sign |-> Sign(p)]
        \/ /\ kind = "partition" /\ \E n \in 1..NPart : \E sh \in Parts(n, n) : obj = [sh |-> sh, conj |-> Conj(sh)]
        \/ /\ kind = "number" /\ \E n \in 1..NNumber : obj = [n |-> n, phi |-> Totient(n), prime |-> IsPrime(n)]
        \/ /\ kind = "symmetrizer" /\ \E n \in 1..NSym : \E sh \in Parts(n, n) : obj = [sh |-> sh] @@ Symmetrizer(sh)
Next == UNCHANGED <<kind, obj>>
Spec == Init /\ [][Next]_<<kind, obj>>
OrbitsOK == kind = "perm" => /\ UNION obj.orbits = 0..(Len(obj.p) - 1) /\ \A a, b \in obj.orbits : a # b => a \cap b = {}
                             /\ obj.sign = (IF (Len(obj.p) - Cardinality(obj.orbits)) % 2 = 0 THEN 1 ELSE -1)      \* sign = (-1)^(n - #cycles)
ConjOK == kind = "partition" => /\ Conj(obj.conj) = obj.sh /\ SumSh(obj.conj) = SumSh(obj.sh) /\ F(obj.conj) = F(obj.sh)
GaussOK == kind = "number" => /\ FoldLeft(LAMBDA a, x : a + (IF obj.n % x = 0 THEN Totient(x) ELSE 0), 0, [x \in 1..obj.n |-> x]) = obj.n
                              /\ (obj.prime <=> (obj.n >= 2 /\ obj.phi = obj.n - 1))
ProdFact(s) == FoldLeft(LAMBDA a, b : a * Fact(b), 1, s)
SymmetrizerOK == kind = "symmetrizer" => /\ Cardinality(obj.rows) = ProdFact(obj.sh) /\ Cardinality(obj.cols) = ProdFact(Conj(obj.sh))
                                         /\ Cardinality({t[1] : t \in obj.terms}) = Cardinality(obj.rows) * Cardinality(obj.cols)
                                         /\ obj.rows \cap obj.cols = {[i \in 1..SumSh(obj.sh) |-> i - 1]}
=============================================================================
