-------------------------------- MODULE MC_LocalBasis --------------------------------
(* The operator basis of nearest-neighbour two-local Hamiltonians on an open chain of n qubits
   (numqi.maximum_entropy.get_1dchain_2local_pauli_basis): for every bond b = 1..n-1 and every pair of Pauli letters (p, q) # (I, I), in the
   order II < IX < IY < ... < ZZ, the operator  1^(b-1) (x) p (x) q (x) 1^(n-1-b);  with the option with_I the identity OF THE REGISTER
   (2^n x 2^n) comes first.  One state per call, `out` = the list the call must return (Gaussian-integer matrices).
   Invariants: the documented length, every element Hermitian with square 1, the non-identity ones traceless, and the 15 operators of
   one bond mutually trace-orthogonal. *)
EXTENDS Ring, Integers, Sequences, SequencesExt, TLC
CONSTANT NMax
VARIABLES inst, out
P(k) == CASE k = 0 -> <<<<GOne, GZero>>, <<GZero, GOne>>>>
          [] k = 1 -> <<<<GZero, GOne>>, <<GOne, GZero>>>>
          [] k = 2 -> <<<<GZero, <<0, -1>>>>, <<<<0, 1>>, GZero>>>>
          [] OTHER -> <<<<GOne, GZero>>, <<GZero, <<-1, 0>>>>>>
Term(n, b, code) == GKron(GKron(GIdent(2^(b - 1)), GKron(P(code \div 4), P(code % 4))), GIdent(2^(n - 1 - b)))
Chain(n, withI) == (IF withI THEN <<GIdent(2^n)>> ELSE <<>>) \o [idx \in 1..(15 * (n - 1)) |-> Term(n, ((idx - 1) \div 15) + 1, ((idx - 1) % 15) + 1)]
Init == inst \in [n : 2..NMax, withI : BOOLEAN] /\ out = Chain(inst.n, inst.withI)
Next == UNCHANGED <<inst, out>>
Spec == Init /\ [][Next]_<<inst, out>>
Off == IF inst.withI THEN 1 ELSE 0
LenOK == Len(out) = 15 * (inst.n - 1) + Off
PauliOK == \A i \in 1..Len(out) : /\ GDagger(out[i]) = out[i] /\ GMatMul(out[i], out[i]) = GIdent(2^inst.n)
                                  /\ (i > Off => GTrace(out[i]) = GZero)
BondOK == \A b \in 0..(inst.n - 2) : \A i, j \in 1..15 : i < j => GTrace(GMatMul(out[Off + 15 * b + i], out[Off + 15 * b + j])) = GZero
=============================================================================
