-------------------------------- MODULE MC_SchurWeyl --------------------------------
(* Schur-Weyl duality as numqi.group.symext uses it for the symmetric-extension SDPs:
      (C^d)^{(x) k}  =  (+)_{lambda |- k, at most d rows}  S_lambda (x) W_lambda
   get_sud_symmetric_irrep_basis(d, k) returns, per Young diagram with at most d rows, one orthonormal basis of a copy of W_lambda for
   every standard tableau: f_lambda = dim S_lambda copies (hook length formula, Young.tla) of dimension
      dim W_lambda = prod over the boxes (i, j) of (d + j - i) / hook(i, j)            (hook content formula).
   One state per (d, k) holds the table <<shape, f, dimW>> in the order of Parts(k, k) restricted to at most d rows.  TLC checks the two
   counting identities the decomposition must satisfy - sum f_lambda dimW_lambda = d^k and sum over ALL diagrams f_lambda^2 = k! -
   and that every dimW is a positive integer (the quotient is exact). *)
EXTENDS Young, Partition, Integers, Sequences, FiniteSets, SequencesExt, TLC
CONSTANTS Dims, Ks
VARIABLES d, k, table
Content(sh, dd) == FoldLeft(LAMBDA acc, r : acc * ProdSeq([c \in 1..sh[r] |-> dd + c - r]), 1, [r \in 1..Len(sh) |-> r])
DimW(sh, dd) == Content(sh, dd) \div ProdSeq(HookList(sh))
RECURSIVE LexGreater(_, _)
LexGreater(a, b) == IF a = <<>> \/ b = <<>> THEN Len(a) > Len(b) ELSE IF a[1] # b[1] THEN a[1] > b[1] ELSE LexGreater(Tail(a), Tail(b))
Diagrams(kk) == SetToSortSeq(Parts(kk, kk), LexGreater)
Table(dd, kk) == LET D == SelectSeq(Diagrams(kk), LAMBDA sh : Len(sh) <= dd) IN [i \in 1..Len(D) |-> <<D[i], F(D[i]), DimW(D[i], dd)>>]
Init == d \in Dims /\ k \in Ks /\ table = Table(d, k)
Next == UNCHANGED <<d, k, table>>
Spec == Init /\ [][Next]_<<d, k, table>>
RECURSIVE IPow(_, _)
IPow(b, n) == IF n = 0 THEN 1 ELSE b * IPow(b, n - 1)
SumSeq(s) == FoldLeft(LAMBDA a, b : a + b, 0, s)
DecompositionOK == SumSeq([i \in 1..Len(table) |-> table[i][2] * table[i][3]]) = IPow(d, k)
RegularOK == LET D == Diagrams(k) IN SumSeq([i \in 1..Len(D) |-> F(D[i]) * F(D[i])]) = Fact(k)
ExactOK == \A i \in 1..Len(table) : table[i][3] >= 1 /\ table[i][3] * ProdSeq(HookList(table[i][1])) = Content(table[i][1], d)
\* the rows cut off by "at most d rows" are exactly those whose W_lambda vanishes
CutOK == \A sh \in Parts(k, k) : Len(sh) > d <=> Content(sh, d) = 0
=============================================================================
