-------------------------------- MODULE MC_VectorSpace --------------------------------
(* The vector-space helpers of numqi.matrix_space that the structured decomposition (C20) does not name:
     is_vector_linear_independent(V, field)     <=>  rank_field(V) = |V|
     reduce_vector_space(V)                     an orthonormal family of rank_C(V) vectors with the span of V
     get_vector_orthogonal_basis(V)             an orthonormal family of m - rank_C(V) vectors orthogonal to V
     is_vector_space_equivalent(V, W, field)    <=>  rank_field(V) = rank_field(W) = rank_field(V u W)
   on families of Gaussian-integer vectors of C^m (exact ranks by the fraction-free elimination of MatrixSpace.tla; over the reals a
   complex vector counts as its realification).  One state per pair of families; `obs` = the ranks the calls must reproduce.
   Invariants: rank bounds, rank_R between rank_C and 2 rank_C, monotonicity under union, and the two notions of equivalence ordered
   (equal complex spans of families closed under i are equal real spans - checked on the families that contain i v for every v). *)
EXTENDS MatrixSpace, Integers, Sequences, SequencesExt, TLC
CONSTANTS M
Entries == {<<0, 0>>, <<1, 0>>, <<0, 1>>, <<1, -1>>}
VARIABLES fam, obs
Vecs == [1..M -> Entries]
\* families: one, two or three vectors; the pool is thinned deterministically so that the instance stays small but contains dependent,
\* real-dependent-only and independent families
Pool == {v \in Vecs : v[1] \in {<<1, 0>>, <<0, 0>>, <<0, 1>>}}
Fams == {<<a>> : a \in Pool} \cup {<<a, b>> : a, b \in Pool} \cup {<<a, b, [k \in 1..M |-> GMul(<<0, 1>>, a[k])]>> : a, b \in Pool}
MkObs(V, W) == [rcV |-> RankC(V), rrV |-> RankR(V), rcW |-> RankC(W), rrW |-> RankR(W), rcU |-> RankC(V \o W), rrU |-> RankR(V \o W)]
Init == \E V \in Fams : \E W \in {V, Reverse(V), <<V[1]>>, <<[k \in 1..M |-> GAdd(V[1][k], V[Len(V)][k])], V[Len(V)]>>, <<[k \in 1..M |-> <<1, 0>>]>>} :
           fam = <<V, W>> /\ obs = MkObs(V, W)
Next == UNCHANGED <<fam, obs>>
Spec == Init /\ [][Next]_<<fam, obs>>
BoundsOK == /\ obs.rcV <= Len(fam[1]) /\ obs.rcV <= M /\ obs.rrV <= Len(fam[1]) /\ obs.rrV <= 2 * M
            /\ obs.rcV <= obs.rrV /\ obs.rrV <= 2 * obs.rcV
MonotoneOK == obs.rcU >= obs.rcV /\ obs.rcU >= obs.rcW /\ obs.rcU <= obs.rcV + obs.rcW /\ obs.rrU >= obs.rrV /\ obs.rrU <= obs.rrV + obs.rrW
EquivC == obs.rcV = obs.rcU /\ obs.rcW = obs.rcU
EquivR == obs.rrV = obs.rrU /\ obs.rrW = obs.rrU
EquivOrderOK == EquivR => EquivC              \* equal real spans are equal complex spans
=============================================================================
