SPECIFICATION Spec
INVARIANT GroupOrderOK
INVARIANT IdentityOK
INVARIANT SizeOK
INVARIANT CommuteOK
