CONSTANTS N = 2
K = 5
SPECIFICATION Spec
INVARIANT EvenRank
