SPECIFICATION Spec
CONSTANTS
  M = 9
  PQ = 3
  NMax = 8
INVARIANT SymmetricOK
INVARIANT RangeOK
INVARIANT BoundaryOK
INVARIANT UpperBoundOK
