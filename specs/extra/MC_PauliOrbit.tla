-------------------------------- MODULE MC_PauliOrbit --------------------------------
(* Orbits of sets of two-qubit Pauli operators (phases dropped) under the Clifford group, i.e. of sets of vectors of F2^4 under
   Sp(4, F2): numqi.gate.get_pauli_subset_equivalent(subset, 2).  Pauli index = base-4 digits (I, X, Y, Z = 0..3, first qubit most
   significant); vector (x1, x2, z1, z2) with X = (1,0), Y = (1,1), Z = (0,1).  The group is enumerated by brute force (720 of the
   65536 binary 4x4 matrices); the orbit of a subset is the set of its images. *)
EXTENDS GF2, Integers, FiniteSets, Sequences, TLC
VARIABLES subset, orbit
N == 2
Group == {M \in [1..4 -> BitSeq(4)] : IsSymplectic(M, N)}
Letter(x, z) == IF x = 0 /\ z = 0 THEN 0 ELSE IF x = 1 /\ z = 0 THEN 1 ELSE IF x = 1 /\ z = 1 THEN 2 ELSE 3
IdxOf(v) == 4 * Letter(v[1], v[3]) + Letter(v[2], v[4])
XOf(l) == IF l \in {1, 2} THEN 1 ELSE 0
ZOf(l) == IF l \in {2, 3} THEN 1 ELSE 0
VecOf(i) == <<XOf(i \div 4), XOf(i % 4), ZOf(i \div 4), ZOf(i % 4)>>
RowTimes(v, M) == [j \in 1..4 |-> SumSeq([k \in 1..4 |-> v[k] * M[k][j]]) % 2]          \* row vector times matrix
Image(S, M) == {IdxOf(RowTimes(VecOf(i), M)) : i \in S}
Subsets == {S \in SUBSET (0..15) : Cardinality(S) \in 1..2} \cup {{1, 4, 5}, {1, 2, 3}, {5, 10, 15}, {1, 3, 4, 12}}
Init == subset \in Subsets /\ orbit = {Image(subset, M) : M \in Group}
Next == UNCHANGED <<subset, orbit>>
Spec == Init /\ [][Next]_<<subset, orbit>>
GroupOrderOK == Cardinality(Group) = 720
\* the identity always stays put; a subset without the identity is mapped to subsets without it; commutation structure is preserved
IdentityOK == \A T \in orbit : (0 \in T) <=> (0 \in subset)
SizeOK == \A T \in orbit : Cardinality(T) = Cardinality(subset)
CommuteOK == \A T \in orbit : Cardinality({p \in T \X T : SympForm(VecOf(p[1]), VecOf(p[2]), N) = 1}) = Cardinality({p \in subset \X subset : SympForm(VecOf(p[1]), VecOf(p[2]), N) = 1})
=============================================================================
