SPECIFICATION Spec
CONSTANTS
  Dims = {2, 3, 4}
  Ks = {1, 2, 3, 4, 5}
INVARIANT DecompositionOK
INVARIANT RegularOK
INVARIANT ExactOK
INVARIANT CutOK
