SPECIFICATION Spec
INVARIANT XBitOK
INVARIANT HammingOK
INVARIANT ModMapOK
INVARIANT ExactMapOK
INVARIANT MeasureOK
INVARIANT NumQubitOK
INVARIANT C2ROK
