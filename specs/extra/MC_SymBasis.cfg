SPECIFICATION Spec
CONSTANTS
  Dims = {2, 3, 4}
  Ranks = {1, 2, 3, 4}
INVARIANT CountOK
INVARIANT UnitOK
INVARIANT DisjointOK
INVARIANT ExchangeOK
INVARIANT CoverOK
