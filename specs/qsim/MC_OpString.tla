-------------------------------- MODULE MC_OpString --------------------------------
(* Operator strings: numqi.sim.state.inner_product_psi0_O_psi1(psi0, psi1, [[(A, ia), (B, ib), ...], ...]) evaluates
   <psi0| A_ia B_ib ... |psi1> - a MATRIX PRODUCT of embedded operators, read from left to right, whose factors may act on
   the same qubits and need not commute.  The model enumerates every word g_1 .. g_m (m <= MaxLen) over single-qubit gates,
   Swap and two generic two-qubit matrices on every ordered pair of n <= QN qubits; the state Run(word)|0..0> is
   g_m ... g_1 |0..0>, so the operator string [g_m, ..., g_1] must reproduce its amplitudes:  <e_r| g_m ... g_1 |e_0> = psi[r]. *)
EXTENDS Circuit, TLC
CONSTANTS QN, MaxLen, MaxLenTop          \* MaxLenTop: word length on the largest register
VARIABLES n, word, psi
G(op, mat, tg) == [op |-> op, mat |-> mat, par |-> <<>>, ctrl |-> {}, tg |-> tg]
Pairs(m) == {<<i, j>> \in (1..m) \X (1..m) : i # j}
Vocab(m) == {G(o, "", <<q>>) : o \in {"X", "Z", "H", "S", "T"}, q \in 1..m}
            \cup {G("Swap", "", t) : t \in {p \in Pairs(m) : p[1] < p[2]}}
            \cup {G("double", b, t) : b \in {"B1", "B2"}, t \in Pairs(m)}
Words(m) == UNION {[1..k -> Vocab(m)] : k \in 1..(IF m = QN /\ QN > 1 THEN MaxLenTop ELSE MaxLen)}
Init == /\ n \in 1..QN /\ word \in Words(n) /\ gates = <<>>
        /\ \E st \in {Run(word, Base(n), n)} : psi = st
Next == UNCHANGED <<n, word, psi, gates>>
Spec == Init /\ [][Next]_<<n, word, psi, gates>>
\* the same amplitudes from the explicit product of embedded matrices
ProductOK == \E U \in {UnitaryM(word, n)} : psi.e = U.e /\ \A r \in 1..2^n : psi.v[r] = U.m[r][1]
=============================================================================
