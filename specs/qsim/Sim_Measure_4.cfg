CONSTANTS QN = 4
Depth = 10
SPECIFICATION Spec
INVARIANT AliveOK
INVARIANT LogOK
