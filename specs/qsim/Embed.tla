-------------------------------- MODULE Embed --------------------------------
(* Embedding of a k-qubit operator into n qubits - the textbook definition, and gate application on state vectors.
   Qubit 1 of the spec (= qubit 0 of numqi) is the most significant bit of the basis index; the first listed target
   is the most significant bit of the k-bit sub-index; a controlled operator acts on the subspace where ALL control
   bits are 1 and is the identity elsewhere.  Entries live in Z[w]; a scalar exponent ge says that the true matrix is
   M / sqrt2^ge, so the identity part of a controlled embedding is scaled by sqrt2^ge to keep one common scale. *)
EXTENDS Ring, FiniteSets
QBit(b, q, n) == (b \div 2^(n - q)) % 2
RangeOf(tg) == {tg[j] : j \in 1..Len(tg)}
SubIdx(b, tg, n) == FoldLeft(LAMBDA acc, j : 2 * acc + QBit(b, tg[j], n), 0, [j \in 1..Len(tg) |-> j])
AgreeOutside(a, b, tg, n) == \A q \in (1..n) \ RangeOf(tg) : QBit(a, q, n) = QBit(b, q, n)
AllOnes(b, ctrl, n) == \A q \in ctrl : QBit(b, q, n) = 1
\* definition: entry [r][c] = <r-1| Op |c-1>
Embedded(U, ge, tg, ctrl, n) ==
  TLCEval([r \in 1..2^n |-> [c \in 1..2^n |->
     IF ~AllOnes(c - 1, ctrl, n) THEN (IF r = c THEN OSqrt2Pow(ge) ELSE OZero)
     ELSE IF AgreeOutside(c - 1, r - 1, tg, n) THEN U[SubIdx(r - 1, tg, n) + 1][SubIdx(c - 1, tg, n) + 1] ELSE OZero]])
ApplyDef(v, U, ge, tg, ctrl, n) == OMatVec(Embedded(U, ge, tg, ctrl, n), v)
\* second formulation (index relabelling); MC_Embed checks ApplyFast = ApplyDef
\* Repl(b, tg, a): basis index b with the target bits replaced by the bits of a (tg[1] most significant)
RECURSIVE Repl(_, _, _, _, _)
Repl(b, tg, a, n, j) == IF j > Len(tg) THEN b
   ELSE LET cur == QBit(b, tg[j], n)  new == (a \div 2^(Len(tg) - j)) % 2
        IN Repl(b + (new - cur) * 2^(n - tg[j]), tg, a, n, j + 1)
ApplyFast(v, U, ge, tg, ctrl, n) ==
  LET K == 2^Len(tg)  s == OSqrt2Pow(ge) IN
  TLCEval([r \in 1..2^n |->
     IF AllOnes(r - 1, ctrl, n)
     THEN OSum([a \in 1..K |-> OMul(U[SubIdx(r - 1, tg, n) + 1][a], v[Repl(r - 1, tg, a - 1, n, 1) + 1])])
     ELSE OMul(s, v[r])])
BasisVec(n, b) == [r \in 1..2^n |-> IF r = b + 1 THEN OOne ELSE OZero]
\* matrix unit E_ij of size K
UnitMat(K, i, j) == [r \in 1..K |-> [c \in 1..K |-> IF r = i /\ c = j THEN OOne ELSE OZero]]
\* ordered tuples of distinct qubits
Tuples(n, k) == {t \in [1..k -> 1..n] : \A i, j \in 1..k : i # j => t[i] # t[j]}
=============================================================================
