CONSTANTS QN = 3
MaxLen = 3
MaxLenTop = 3
SPECIFICATION Spec
INVARIANT ProductOK
