CONSTANTS QN = 4
Depth = 8
WithU = FALSE
SPECIFICATION Spec
INVARIANT NormOK
INVARIANT UnitaryOK
INVARIANT RunOK
INVARIANT MargOK
INVARIANT DefOK
