CONSTANTS NTop = 7
SPECIFICATION Spec
INVARIANT SupportOK
INVARIANT DefOK
