-------------------------------- MODULE Gates --------------------------------
(* The gate vocabulary of numqi.sim.Circuit as exact matrices over Z[w] with a scale exponent: a gate is [m, e] and
   denotes m / sqrt2^e.  Rotation angles are indexed: theta = k*pi/2 (so theta/2 = k*pi/4), phases phi = p*pi/4;
   2cos(k pi/4) = w^k + w^-k,   2 sin(k pi/4) = -i (w^k - w^-k). *)
EXTENDS Ring
G1(a, b, c, d) == <<<<a, b>>, <<c, d>>>>
Diag(s) == [r \in 1..Len(s) |-> [c \in 1..Len(s) |-> IF r = c THEN s[r] ELSE OZero]]
Perm(p) == [r \in 1..Len(p) |-> [c \in 1..Len(p) |-> IF p[c] = r THEN OOne ELSE OZero]]    \* column c -> row p[c]
C2(k) == OAdd(OWPow(k), OWPow(-k))                          \* 2 cos(k pi/4)
S2(k) == OMul(ONeg(OI), OSub(OWPow(k), OWPow(-k)))          \* 2 sin(k pi/4)
NegI == ONeg(OI)
GX == [m |-> G1(OZero, OOne, OOne, OZero), e |-> 0]
GY == [m |-> G1(OZero, NegI, OI, OZero), e |-> 0]
GZ == [m |-> G1(OOne, OZero, OZero, ONeg(OOne)), e |-> 0]
GH == [m |-> G1(OOne, OOne, OOne, ONeg(OOne)), e |-> 1]
GS == [m |-> G1(OOne, OZero, OZero, OI), e |-> 0]
GT == [m |-> G1(OOne, OZero, OZero, OW), e |-> 0]
GSwap == [m |-> Perm(<<1, 3, 2, 4>>), e |-> 0]
GRx(k) == [m |-> G1(C2(k), OMul(NegI, S2(k)), OMul(NegI, S2(k)), C2(k)), e |-> 2]
GRy(k) == [m |-> G1(C2(k), ONeg(S2(k)), S2(k), C2(k)), e |-> 2]
GRz(k) == [m |-> G1(OWPow(-k), OZero, OZero, OWPow(k)), e |-> 0]
GRzz(k) == [m |-> Diag(<<OWPow(-k), OWPow(k), OWPow(k), OWPow(-k)>>), e |-> 0]
\* u3(theta, phi, lambda) = [[c, -s e^{i lambda}], [s e^{i phi}, c e^{i(phi+lambda)}]]
GU3(k, p, l) == [m |-> G1(C2(k), ONeg(OMul(S2(k), OWPow(l))), OMul(S2(k), OWPow(p)), OMul(C2(k), OWPow(p + l))), e |-> 2]
\* user-registered gate of the test-suite kind: ry(b) * rx(a)
GRyRx(a, b) == [m |-> OMatMul(GRy(b).m, GRx(a).m), e |-> 4]
\* the Grover-type oracles of numqi.query (user-registered gates of kind 'custom', acting on the WHOLE register of 2 nq qubits read as
\* |x>|y>): the amplitude of |x>|x> is multiplied by the phase, everything else is untouched.  GroverOracle: phase -1;
\* FractionalGroverOracle(theta): phase exp(-i pi theta), theta = k/4 on the grid, i.e. w^-k.
OracleDiag(nq, ph, other) == Diag([r \in 1..(2^(2 * nq)) |-> IF (r - 1) \div (2^nq) = (r - 1) % (2^nq) THEN ph ELSE other])
GOracle(nq) == [m |-> OracleDiag(nq, ONeg(OOne), OOne), e |-> 0]
GFOracle(nq, k) == [m |-> OracleDiag(nq, OWPow(-k), OOne), e |-> 0]
\* generic matrices handed to single/double/triple_qubit_gate and controlled_*: some non-unitary on purpose
GenM(name) ==
  CASE name = "A1" -> [m |-> G1(OOne, <<2,0,0,0>>, OI, OZero), e |-> 0]                 \* [[1,2],[i,0]]  non-unitary
    [] name = "A2" -> [m |-> G1(OZero, OW, OOne, OZero), e |-> 0]                        \* [[0,w],[1,0]]  unitary
    [] name = "B1" -> [m |-> Perm(<<1, 2, 4, 3>>), e |-> 0]                              \* CNOT matrix
    [] name = "B2" -> [m |-> [r \in 1..4 |-> [c \in 1..4 |-> IF r = c THEN OOne ELSE IF r = 1 /\ c = 3 THEN OI ELSE IF r = 4 /\ c = 2 THEN <<0,0,0,2>> ELSE OZero]], e |-> 0]
    [] name = "D1" -> [m |-> Perm(<<1, 2, 3, 4, 5, 6, 8, 7>>), e |-> 0]                  \* Toffoli matrix
    [] name = "D2" -> [m |-> Perm(<<1, 2, 3, 4, 5, 7, 6, 8>>), e |-> 0]                  \* Fredkin matrix
    [] name = "D3" -> [m |-> [r \in 1..8 |-> [c \in 1..8 |-> IF r = c THEN OOne ELSE IF r = 2 /\ c = 7 THEN OW ELSE OZero]], e |-> 0]
    \* 16 x 16 for quadruple_qubit_gate: a 4-cycle of basis states 2 -> 7 -> 12 -> 13 -> 2 (no symmetry under any qubit permutation) / the same with a
    \* non-unitary off-diagonal entry
    [] name = "E1" -> [m |-> Perm(<<1, 7, 3, 4, 5, 6, 12, 8, 9, 10, 11, 13, 2, 14, 15, 16>>), e |-> 0]
    [] name = "E2" -> [m |-> [r \in 1..16 |-> [c \in 1..16 |-> IF r = c THEN OOne ELSE IF r = 3 /\ c = 14 THEN OW ELSE IF r = 9 /\ c = 2 THEN <<0,0,2,0>> ELSE OZero]], e |-> 0]
\* the semantic function: matrix of a gate record g = [op, par, ctrl, tg]
GateMat(g) ==
  CASE g.op \in {"X"} -> GX [] g.op = "Y" -> GY [] g.op = "Z" -> GZ [] g.op = "H" -> GH [] g.op = "S" -> GS [] g.op = "T" -> GT
    [] g.op = "Swap" -> GSwap
    [] g.op \in {"cnot", "toffoli"} -> GX [] g.op = "cy" -> GY [] g.op = "cz" -> GZ
    [] g.op \in {"rx", "crx"} -> GRx(g.par[1]) [] g.op \in {"ry", "cry"} -> GRy(g.par[1]) [] g.op \in {"rz", "crz"} -> GRz(g.par[1])
    [] g.op = "rzz" -> GRzz(g.par[1])
    [] g.op \in {"u3", "cu3"} -> GU3(g.par[1], g.par[2], g.par[3])
    [] g.op = "ry_rx" -> GRyRx(g.par[1], g.par[2])
    [] g.op = "oracle" -> GOracle(Len(g.tg) \div 2) [] g.op = "foracle" -> GFOracle(Len(g.tg) \div 2, g.par[1])
    [] g.op \in {"single", "double", "triple", "quadruple", "csingle", "cdouble"} -> GenM(g.mat)
IsUnitaryG(G) == OMatMul(G.m, ODagger(G.m)) = OMatScale(<<2^G.e, 0, 0, 0>>, OIdent(Len(G.m)))
=============================================================================
