CONSTANTS NMax = 4
KMax = 3
SPECIFICATION Spec
INVARIANT FastOK
