-------------------------------- MODULE Sim_Grad --------------------------------
(* Random parametrised circuits with parameter sharing (tlc -simulate):  every parametrised gate gets either a fresh
   parameter cell, the cell of an earlier gate object of the same kind (append_gate re-use) or a placeholder cell that other
   gates may also reference.  The observation is the loss, the exact gradient for every (cell, slot) and
   the coefficients of the loss as a linear form of the input state (= its gradient with respect to the input state).
   Self-check (shift rule for amplitude-linear losses): for a cell used by exactly one rotation gate
   dL/dtheta = [L(theta+pi) - L(theta-pi)] / 4   (L has frequency theta/2). *)
EXTENDS Grad, TLC
CONSTANTS QN, Depth
VARIABLES obs, ncell
vars == <<gates, obs, ncell>>
Sh(op, ctrl, tg) == [op |-> op, mat |-> "", par |-> <<>>, ctrl |-> ctrl, tg |-> tg, cell |-> 0, holder |-> FALSE]
Q == 1..QN
T1 == Tuples(QN, 1)
T2 == Tuples(QN, 2)
Others(t) == Q \ RangeOf(t)
PShapes == {Sh(o, {}, t) : o \in {"rx", "ry", "rz", "u3"}, t \in T1} \cup {Sh("rzz", {}, t) : t \in T2}
           \cup UNION {{Sh(o, c, t) : o \in {"crx", "cry", "crz", "cu3"}, c \in (SUBSET Others(t)) \ {{}}} : t \in T1}
           \cup (IF QN % 2 = 0 THEN {Sh("foracle", {}, [i \in 1..QN |-> i])} ELSE {})           \* custom parametrised gate on the whole register
FShapes == (IF QN % 2 = 0 THEN {Sh("oracle", {}, [i \in 1..QN |-> i])} ELSE {}) \cup {Sh(o, {}, t) : o \in {"H", "S", "T", "X"}, t \in T1} \cup {Sh(o, {t[1]}, <<t[2]>>) : o \in {"cnot", "cz"}, t \in T2}
           \* generic-matrix gates: unitary matrices only - the reverse sweep un-computes the state with U^T, which is the
           \* documented contract of single/double_qubit_gate ("the unitary matrix of the gate")
           \cup {[Sh("single", {}, t) EXCEPT !.mat = "A2"] : t \in T1} \cup {[Sh("double", {}, t) EXCEPT !.mat = "B1"] : t \in T2}
NPar(op) == IF op \in {"u3", "cu3"} THEN 3 ELSE 1
Cells(gs) == {gs[i].cell : i \in {j \in 1..Len(gs) : IsParam(gs[j].op)}}
MkObs(gs, n) == [n |-> n, loss |-> FoldLeft(LAMBDA a, R : [val |-> Inner(Phi(n), R.v), e |-> R.e], 0, <<Run(gs, Base(n), n)>>),
                 grad |-> [c \in 1..ncell' |-> IF c \in Cells(gs)
                              THEN LET i0 == CHOOSE i \in 1..Len(gs) : IsParam(gs[i].op) /\ gs[i].cell = c IN [s \in 1..NPar(gs[i0].op) |-> DCell(gs, c, s, n)]
                              ELSE <<>>],
                 \* the loss is linear in the input state: amp[j] = <Phi | U | e_j> is its coefficient, so for ANY input state psi the loss is
                 \* Re sum_j amp[j] psi[j] and the gradient with respect to psi[j] (PyTorch convention dL/dRe + i dL/dIm) is conj(amp[j])
                 amp |-> [j \in 1..2^n |-> FoldLeft(LAMBDA a, R : [val |-> Inner(Phi(n), R.v), e |-> R.e], 0, <<Run(gs, [v |-> BasisVec(n, j - 1), e |-> 0], n)>>)]]
Init == CInit /\ ncell = 0 /\ obs = [n |-> 0, loss |-> [val |-> OZero, e |-> 0], grad |-> <<>>, amp |-> <<>>]
Step(newgates) == gates' = newgates /\ \E n \in {NumQ(newgates)} : \E o \in {MkObs(newgates, n)} : obs' = o
\* a parametrised gate with a fresh cell (own object, or a new placeholder entry when the kind supports placeholders)
DoFresh == \E s \in {RandomElement(PShapes)} : \E x \in {RandomElement(0..1023)} : \E r \in {[k |-> x % 8, p |-> (x \div 8) % 8, l |-> (x \div 64) % 8]} : \E h \in {x >= 512} :
             /\ ncell' = ncell + 1
             /\ Step(Append(gates, [s EXCEPT !.par = SubSeq(<<r.k, r.p, r.l>>, 1, NPar(s.op)), !.cell = ncell + 1, !.holder = h /\ s.ctrl = {} /\ s.op # "foracle"]))
\* share the parameter cell of an earlier gate: same object re-appended (own cells) / same placeholder entry (holder cells)
Sharable == {i \in 1..Len(gates) : IsParam(gates[i].op)}
DoShare == Sharable # {} /\ \E i \in {RandomElement(Sharable)} :
             \E s \in {RandomElement({x \in PShapes : x.op = gates[i].op /\ Cardinality(x.ctrl) = Cardinality(gates[i].ctrl)})} :
             /\ ncell' = ncell
             /\ Step(Append(gates, [s EXCEPT !.par = gates[i].par, !.cell = gates[i].cell, !.holder = gates[i].holder]))
DoFixed == \E s \in {RandomElement(FShapes)} : ncell' = ncell /\ Step(Append(gates, s))
Next == /\ Len(gates) < Depth
        /\ \E c \in {RandomElement(1..10)} : IF c <= 5 THEN DoFresh ELSE IF c <= 7 /\ Sharable # {} THEN DoShare ELSE DoFixed
Spec == Init /\ [][Next]_vars
\* ---- self-check of the derivative formulas: parameter-shift identity for single-use rotation cells
Shifted(gs, i, d) == [gs EXCEPT ![i].par = <<(gs[i].par[1] + d) % 8>>]
LossOf(gs, n) == FoldLeft(LAMBDA a, R : [val |-> Inner(Phi(n), R.v), e |-> R.e], 0, <<Run(gs, Base(n), n)>>)
RealPart2(x) == <<2 * x[1], x[2] - x[4]>>          \* 2 Re(x) = 2a + (b - d) sqrt2  as <<int, sqrt2 coefficient>>
ShiftOK == \A i \in 1..Len(gates) :
   (gates[i].op \in {"rx", "ry", "rz", "rzz", "crx", "cry", "crz"} /\ Cardinality({j \in 1..Len(gates) : IsParam(gates[j].op) /\ gates[j].cell = gates[i].cell}) = 1) =>
      \E lp \in {LossOf(Shifted(gates, i, 2), obs.n)} : \E lm \in {LossOf(Shifted(gates, i, 6), obs.n)} : \E g \in {obs.grad[gates[i].cell][1]} :
         \* g.val / sqrt2^g.e = (lp.val - lm.val) / (4 sqrt2^lp.e),  g.e = lp.e + 2  =>  2 Re(g.val) = Re(lp.val - lm.val)
         /\ g.e = lp.e + 2 /\ lp.e = lm.e
         /\ RealPart2(OScale(2, g.val)) = RealPart2(OSub(lp.val, lm.val))
\* the loss of the run from |0..0> is the first coefficient
AmpOK == obs.n > 0 => obs.amp[1] = obs.loss
=============================================================================
