-------------------------------- MODULE KL --------------------------------
(* Knill-Laflamme inner products <q_i| E |q_j> for Gaussian-integer code words q (K rows of length 2^n) and Pauli-string
   errors E, and the gradient of  L = Re sum_{E,i,j} c[E][i][j] <q_i|E|q_j>  by formal differentiation of the
   sesquilinear polynomial in Re q, Im q (PyTorch convention  grad = dL/dRe q + i dL/dIm q):
        dS/dx_{k,a} = sum_{E,j} c[E][k][j] (E q_j)_a + sum_{E,i} c[E][i][k] (conj(q_i) E)_a
        dS/dy_{k,a} = -i sum_{E,j} c[E][k][j] (E q_j)_a + i sum_{E,i} c[E][i][k] (conj(q_i) E)_a  *)
EXTENDS PauliEnc
PauliMat(letters) == DenseStr(letters, 0)
EV(M, v) == GMatVec(M, v)
VE(v, M) == [a \in 1..Len(v) |-> GSum([b \in 1..Len(v) |-> GMul(GConj(v[b]), M[b][a])])]         \* (conj(v) M)_a
IP(q, M) == [i \in 1..Len(q) |-> [j \in 1..Len(q) |-> GSum([a \in 1..Len(q[1]) |-> GMul(GConj(q[i][a]), EV(M, q[j])[a])])]]
GradKL(q, mats, coef) ==
  [k \in 1..Len(q) |-> [a \in 1..Len(q[1]) |->
     LET t1 == GSum([e \in 1..Len(mats) |-> GSum([j \in 1..Len(q) |-> GMul(coef[e][k][j], EV(mats[e], q[j])[a])])])
         t2 == GSum([e \in 1..Len(mats) |-> GSum([i \in 1..Len(q) |-> GMul(coef[e][i][k], VE(q[i], mats[e])[a])])])
         dx == GAdd(t1, t2)
         dy == GAdd(GMul(<<0, -1>>, t1), GMul(<<0, 1>>, t2))
     IN <<dx[1], dy[1]>>]]
=============================================================================
