-------------------------------- MODULE MC_Measure --------------------------------
(* Exhaustive: every n <= NMax, every non-empty ascending qubit subset, every member of a structured state family
   (basis states, products of |+-> / |+-i>, GHZ, W, graph states, states with zero-probability outcomes, a Clifford+T
   state, states with a nearly certain outcome).  One state per (n, family member, subset); it carries the Born marginals and, for every outcome in the
   support, the projected vector.  Invariants = the measurement axioms on the model. *)
EXTENDS Measure, TLC
CONSTANT NMax
VARIABLES cfg, obs
G(op, tg) == [op |-> op, mat |-> "", par |-> <<>>, ctrl |-> {}, tg |-> tg]
GC(op, c, t) == [op |-> op, mat |-> "", par |-> <<>>, ctrl |-> {c}, tg |-> <<t>>]
GP(op, t, k) == [op |-> op, mat |-> "", par |-> <<k>>, ctrl |-> {}, tg |-> <<t>>]
Each(n, F(_)) == [q \in 1..n |-> F(q)]
\* preparation circuits (applied to |0..0>)
Prep(n, fam) ==
  CASE fam = "zero" -> <<>>
    [] fam = "basis" -> [q \in 1..((n + 1) \div 2) |-> G("X", <<2 * q - 1>>)]                 \* |1010..>
    [] fam = "plus" -> Each(n, LAMBDA q : G("H", <<q>>))
    [] fam = "mixedprod" -> Each(n, LAMBDA q : G("H", <<q>>)) \o [q \in 1..(n \div 2) |-> G("S", <<2 * q>>)] \o <<G("Z", <<1>>)>>
    [] fam = "ghz" -> <<G("H", <<1>>)>> \o [q \in 1..(n - 1) |-> GC("cnot", q, q + 1)]
    [] fam = "graphline" -> Each(n, LAMBDA q : G("H", <<q>>)) \o [q \in 1..(n - 1) |-> GC("cz", q, q + 1)]
    [] fam = "graphstar" -> Each(n, LAMBDA q : G("H", <<q>>)) \o [q \in 1..(n - 1) |-> GC("cz", 1, q + 1)]
    [] fam = "zeroprob" -> <<G("H", <<n>>)>> \o (IF n > 1 THEN <<GC("cnot", n, 1)>> ELSE <<>>)    \* (|0..0> + |1..1>) on first/last
    [] fam = "cliffT" -> Each(n, LAMBDA q : G("H", <<q>>)) \o <<G("T", <<1>>)>> \o (IF n > 1 THEN <<GC("cnot", 1, n), GP("ry", n, 1), G("T", <<n>>), GP("rx", 1, 3)>> ELSE <<GP("rx", 1, 1)>>)
Fams == {"zero", "basis", "plus", "mixedprod", "ghz", "graphline", "graphstar", "zeroprob", "cliffT", "W", "near12", "near14"}
\* nearly certain outcomes: amplitude 2^k on |0..0> and i on every single-excitation state (unnormalised): the outcome 0..0 of any subset
\* has probability 1 - m / (4^k + n) with m = number of measured qubits - 6e-8 m for k = 12, 3.7e-9 m for k = 14: NOT certain, so the
\* state must still be projected and renormalised, and the other outcomes stay in the support
NearVec(n, k) == [r \in 1..2^n |-> IF r = 1 THEN <<2^k, 0, 0, 0>> ELSE IF \E q \in 1..n : r - 1 = 2^(n - q) THEN OI ELSE OZero]
\* W state with integer amplitudes (unnormalised): sum of the single-excitation basis states
WVec(n) == [r \in 1..2^n |-> IF \E q \in 1..n : r - 1 = 2^(n - q) THEN OOne ELSE OZero]
StateOf(n, fam) == IF fam = "W" THEN WVec(n) ELSE IF fam = "near12" THEN NearVec(n, 12) ELSE IF fam = "near14" THEN NearVec(n, 14) ELSE Run(Prep(n, fam), Base(n), n).v
Configs == {[n |-> n, fam |-> f, mask |-> m] : n \in 1..NMax, f \in Fams, m \in 1..(2^NMax - 1)}
MkObs(n, v, S) == [psi |-> v, n2 |-> ONorm2(v), marg |-> Marg(v, S, n),
                   post |-> [o \in 1..2^Cardinality(S) |-> IF Marg(v, S, n)[o] # OZero THEN Project(v, S, o - 1, n) ELSE <<>>]]
Init == /\ gates = <<>> /\ cfg \in {c \in Configs : c.mask < 2^c.n}
        /\ \E v \in {StateOf(cfg.n, cfg.fam)} : \E o \in {MkObs(cfg.n, v, MaskSet(cfg.mask, cfg.n))} : obs = o
Next == UNCHANGED <<cfg, obs, gates>>
Spec == Init /\ [][Next]_<<cfg, obs, gates>>
S0 == MaskSet(cfg.mask, cfg.n)
\* probabilities are real, non-negative (as elements a + b sqrt2: components 3 zero, 2 = -4) and sum to the squared norm
IsRealZ2(x) == x[3] = 0 /\ x[2] = -x[4]
SumOK == OSum(obs.marg) = obs.n2 /\ \A o \in 1..Len(obs.marg) : IsRealZ2(obs.marg[o])
\* measuring again: the projected state has all its weight on the same outcome, and projecting again changes nothing
RepeatOK == \A o \in 1..Len(obs.post) : obs.post[o] # <<>> =>
              /\ Marg(obs.post[o], S0, cfg.n)[o] = obs.marg[o]
              /\ \A o2 \in 1..Len(obs.post) : o2 # o => Marg(obs.post[o], S0, cfg.n)[o2] = OZero
              /\ Project(obs.post[o], S0, o - 1, cfg.n) = obs.post[o]
\* the projections of all outcomes add up to the state (resolution of the identity)
ResolveOK == \A r \in 1..2^cfg.n : OSum([o \in 1..Len(obs.post) |-> IF obs.post[o] = <<>> THEN OZero ELSE obs.post[o][r]]) = obs.psi[r]
SupportOK == Support(obs.psi, S0, cfg.n) # {}
=============================================================================
