CONSTANTS NMax = 5
SPECIFICATION Spec
INVARIANT SumOK
INVARIANT RepeatOK
INVARIANT ResolveOK
INVARIANT SupportOK
