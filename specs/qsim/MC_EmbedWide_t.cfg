CONSTANTS NTop = 9
SPECIFICATION Spec
INVARIANT SupportOK
INVARIANT DefOK
