-------------------------------- MODULE MC_Graph --------------------------------
(* Graph states: every simple graph on n <= NMax vertices.  The preparation circuit of numqi.sim.build_graph_state is
   H on every qubit followed by CZ on every edge (ascending edge list).  Model theorems checked in every state:
     (1) Run(circuit) |0..0>  has amplitudes  (-1)^(number of edges inside the support of b) / sqrt2^n,
     (2) the state is the +1 eigenvector of K_i = X_i prod_{j in N(i)} Z_j for every vertex i. *)
EXTENDS Circuit, TLC
CONSTANT NMax
VARIABLES n, edges, psi
Pairs(m) == {<<i, j>> \in (1..m) \X (1..m) : i < j}
G(op, ctrl, tg) == [op |-> op, mat |-> "", par |-> <<>>, ctrl |-> ctrl, tg |-> tg]
EdgeSeq(E) == SetToSortSeq(E, LAMBDA a, b : a[1] < b[1] \/ (a[1] = b[1] /\ a[2] < b[2]))
Prep(m, E) == [q \in 1..m |-> G("H", {}, <<q>>)] \o [k \in 1..Cardinality(E) |-> G("cz", {EdgeSeq(E)[k][1]}, <<EdgeSeq(E)[k][2]>>)]
Init == /\ n \in 1..NMax /\ edges \in SUBSET Pairs(n) /\ gates = <<>>
        /\ \E st \in {Run(Prep(n, edges), Base(n), n)} : psi = st
Next == UNCHANGED <<n, edges, psi, gates>>
Spec == Init /\ [][Next]_<<n, edges, psi, gates>>
InSupport(b, e) == QBit(b, e[1], n) = 1 /\ QBit(b, e[2], n) = 1
ClosedFormOK == psi.e = n /\ \A r \in 1..2^n : psi.v[r] = (IF Cardinality({e \in edges : InSupport(r - 1, e)}) % 2 = 0 THEN OOne ELSE ONeg(OOne))
Nbr(i) == {j \in 1..n : <<i, j>> \in edges \/ <<j, i>> \in edges}
ApplyK(v, i) == FoldLeft(LAMBDA acc, j : ApplyFast(acc, GZ.m, 0, <<j>>, {}, n), ApplyFast(v, GX.m, 0, <<i>>, {}, n), SetToSeq(Nbr(i)))
StabOK == \A i \in 1..n : ApplyK(psi.v, i) = psi.v
=============================================================================
