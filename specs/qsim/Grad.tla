-------------------------------- MODULE Grad --------------------------------
(* Exact derivatives of circuit losses by the product rule in FORWARD mode (no reverse sweep appears here).
   Loss  L(theta) = Re <phi| U(theta) |0..0>  with a Gaussian-integer phi.  Every parametrised gate refers to a parameter
   cell; several gates may refer to one cell (the same gate object appended twice / extend_circuit / the same placeholder
   entry used by two gates).  dL/d(cell c, slot s) = sum over the gates g referring to c of
        Re <phi| U_m ... (d_s U_g) ... U_1 |0..0>.
   Gate derivatives at grid angles are exact:  d rx = (-i/2) X rx,  d ry = (-i/2) Y ry,  d rz = (-i/2) Z rz,
   d rzz = (-i/2) ZZ rzz,  the three partials of u3 written out below, and the fractional Grover oracle of numqi.query (a
   user-registered parametrised gate whose backward pass is hand written in the gate class; derivative in units of pi).  The derivative of a controlled gate is the
   derivative block on the all-ones control subspace and ZERO elsewhere. *)
EXTENDS Circuit
MI == ONeg(OI)
DX == G1(OZero, MI, MI, OZero)                 \* -i X
DY == G1(OZero, ONeg(OOne), OOne, OZero)       \* -i Y
DZ == G1(MI, OZero, OZero, OI)                 \* -i Z
DZZ == Diag(<<MI, OI, OI, MI>>)                \* -i Z(x)Z
\* derivative matrix [m, e] of the gate g with respect to its parameter slot s
DGate(g, s) ==
  LET k == g.par[1] IN
  CASE g.op \in {"rx", "crx"} -> [m |-> OMatMul(DX, GRx(k).m), e |-> 4]
    [] g.op \in {"ry", "cry"} -> [m |-> OMatMul(DY, GRy(k).m), e |-> 4]
    [] g.op \in {"rz", "crz"} -> [m |-> OMatMul(DZ, GRz(k).m), e |-> 2]
    [] g.op = "rzz" -> [m |-> OMatMul(DZZ, GRzz(k).m), e |-> 2]
    \* d/dtheta exp(-i pi theta) = -i pi exp(-i pi theta) on the marked amplitudes, zero elsewhere: stated IN UNITS OF pi
    [] g.op = "foracle" -> [m |-> OracleDiag(Len(g.tg) \div 2, OMul(MI, OWPow(-k)), OZero), e |-> 0]
    [] g.op \in {"u3", "cu3"} ->
         LET p == g.par[2]  l == g.par[3]  c == C2(k)  sn == S2(k) IN
         CASE s = 1 -> [m |-> G1(ONeg(sn), ONeg(OMul(c, OWPow(l))), OMul(c, OWPow(p)), ONeg(OMul(sn, OWPow(p + l)))), e |-> 4]
           [] s = 2 -> [m |-> G1(OZero, OZero, OMul(OI, OMul(sn, OWPow(p))), OMul(OI, OMul(c, OWPow(p + l)))), e |-> 2]
           [] OTHER -> [m |-> G1(OZero, OMul(MI, OMul(sn, OWPow(l))), OZero, OMul(OI, OMul(c, OWPow(p + l)))), e |-> 2]
NSlots(op) == IF op \in {"u3", "cu3"} THEN 3 ELSE 1
IsParam(op) == op \in {"rx", "ry", "rz", "rzz", "u3", "crx", "cry", "crz", "cu3", "foracle"}
\* derivative operator applied to a vector: zero outside the all-ones control subspace
ApplyD(v, U, tg, ctrl, n) ==
  LET K == 2^Len(tg) IN
  TLCEval([r \in 1..2^n |->
     IF AllOnes(r - 1, ctrl, n)
     THEN OSum([a \in 1..K |-> OMul(U[SubIdx(r - 1, tg, n) + 1][a], v[Repl(r - 1, tg, a - 1, n, 1) + 1])])
     ELSE OZero])
Inner(a, b) == OSum([r \in 1..Len(a) |-> OMul(OConj(a[r]), b[r])])
\* the fixed Gaussian-integer target vector
Phi(n) == [r \in 1..2^n |-> <<(r % 3) + 1, 0, IF r % 2 = 0 THEN 2 * r - 5 ELSE 3 - r, 0>>]
\* one term of the product rule: gate i replaced by its derivative
TermWith(gs, i, s, n, pre, D) ==
   FoldLeft(LAMBDA acc, g : ApplyG(acc, g, n), [v |-> ApplyD(pre.v, D.m, gs[i].tg, gs[i].ctrl, n), e |-> pre.e + D.e], SubSeq(gs, i + 1, Len(gs)))
Term(gs, i, s, n) == FoldLeft(LAMBDA a, pre : FoldLeft(LAMBDA b, D : TermWith(gs, i, s, n, pre, D), 0, <<DGate(gs[i], s)>>), 0, <<Run(SubSeq(gs, 1, i - 1), Base(n), n)>>)
\* <phi| dU/d(c,s) |0>  as [val in Z[w], e]   (all terms of one (cell,slot) share the exponent)
VecAdd(a, b) == [r \in 1..Len(a) |-> OAdd(a[r], b[r])]
DCell(gs, c, s, n) ==
   LET idx == SelectSeq([i \in 1..Len(gs) |-> i], LAMBDA i : IsParam(gs[i].op) /\ gs[i].cell = c) IN
   FoldLeft(LAMBDA acc, i : FoldLeft(LAMBDA a2, T : [val |-> OAdd(acc.val, Inner(Phi(n), T.v)), e |-> T.e], 0, <<Term(gs, i, s, n)>>), [val |-> OZero, e |-> 0], idx)
=============================================================================
