-------------------------------- MODULE Sim_Circuit --------------------------------
(* Random programs over the full gate vocabulary of the Circuit class (tlc -simulate).  Each step draws ONE successor
   (RandomElement bound once through a singleton quantifier) and recomputes the observations from the gate list:
   the state after the circuit, its Born marginals for every qubit subset, a Pauli-string matrix element and - when WithU -
   the circuit unitary.  Invariants are spec self-checks: norm preservation / unitarity when every gate is unitary,
   and Unitary(gates) e_0 = Run(gates, e_0) always. *)
EXTENDS Circuit, TLC
CONSTANTS QN, Depth, WithU
VARIABLES obs, ops       \* ops: the public calls that produced `gates` (what the harness replays)
vars == <<gates, obs, ops>>
\* hold = 0: ordinary gate; hold = j > 0: the parameters are the placeholder entry P[op][j] (re-bound by every setP)
Sh(op, mat, ctrl, tg) == [op |-> op, mat |-> mat, par |-> <<>>, ctrl |-> ctrl, tg |-> tg, hold |-> 0]
Q == 1..QN
T1 == Tuples(QN, 1)
T2 == Tuples(QN, 2)
T3 == IF QN >= 3 THEN Tuples(QN, 3) ELSE {}
T4 == IF QN >= 4 THEN Tuples(QN, 4) ELSE {}
Others(t) == Q \ RangeOf(t)
Shapes ==
   {Sh(o, "", {}, t) : o \in {"X", "Y", "Z", "H", "S", "T", "rx", "ry", "rz", "u3", "ry_rx"}, t \in T1}
   \cup {Sh(o, "", {}, t) : o \in {"Swap", "rzz"}, t \in T2}
   \cup {Sh(o, "", {t[1]}, <<t[2]>>) : o \in {"cnot", "cy", "cz"}, t \in T2}
   \cup {Sh("toffoli", "", {t[1], t[2]}, <<t[3]>>) : t \in T3}
   \cup UNION {{Sh(o, "", c, t) : o \in {"crx", "cry", "crz", "cu3"}, c \in (SUBSET Others(t)) \ {{}}} : t \in T1}
   \cup {Sh("single", m, {}, t) : m \in {"A1", "A2"}, t \in T1}
   \cup {Sh("double", m, {}, t) : m \in {"B1", "B2"}, t \in T2}
   \cup {Sh("triple", m, {}, t) : m \in {"D1", "D2", "D3"}, t \in T3}
   \cup {Sh("quadruple", m, {}, t) : m \in {"E1", "E2"}, t \in T4}
   \cup UNION {{Sh("csingle", m, c, t) : m \in {"A1", "A2"}, c \in (SUBSET Others(t)) \ {{}}} : t \in T1}
   \cup UNION {{Sh("cdouble", m, c, t) : m \in {"B1", "B2"}, c \in (SUBSET Others(t)) \ {{}}} : t \in T2}
NPar(op) == IF op \in {"rx", "ry", "rz", "rzz", "crx", "cry", "crz"} THEN 1 ELSE IF op \in {"u3", "cu3"} THEN 3 ELSE IF op = "ry_rx" THEN 2 ELSE 0
\* ---- observations
Mask(S, n) == FoldLeft(LAMBDA acc, q : 2 * acc + (IF q \in S THEN 1 ELSE 0), 0, [q \in 1..n |-> q])
SubsetOf(mask, n) == {q \in 1..n : (mask \div 2^(n - q)) % 2 = 1}
Marginal(v, S, n) == [o \in 1..2^Cardinality(S) |-> OSum([r \in 1..2^n |-> IF KeepIdx(r - 1, S, n) = o - 1 THEN OMul(v[r], OConj(v[r])) ELSE OZero])]
Inner(a, b) == OSum([r \in 1..Len(a) |-> OMul(OConj(a[r]), b[r])])
EmptyObs == [n |-> 0, psi |-> <<>>, e |-> 0, marg |-> <<>>, xy |-> OZero, u |-> <<>>, ue |-> 0, unitary |-> TRUE]
\* psi, U are bound to concrete values by the caller (singleton quantifiers)
MkObs(gs, n, psi, U) ==
       [n |-> n, psi |-> psi.v, e |-> psi.e,
             marg |-> [mask \in 1..(2^n - 1) |-> Marginal(psi.v, SubsetOf(mask, n), n)],
             \* <psi| X_1 Y_n |psi> * 2^e   (X on the first qubit applied after Y on the last)
             xy |-> Inner(psi.v, ApplyFast(ApplyFast(psi.v, GY.m, 0, <<n>>, {}, n), GX.m, 0, <<1>>, {}, n)),
             u |-> U.m, ue |-> U.e,
             unitary |-> \A i \in 1..Len(gs) : IsUnitaryG(GateMat(gs[i]))]
Init == CInit /\ ops = <<>> /\ obs = EmptyObs
Step(newgates, call) == /\ gates' = newgates /\ ops' = Append(ops, call)
                        /\ \E n \in {NumQ(newgates)} : \E psi \in {Run(newgates, Base(n), n)} :
                           \E U \in {IF WithU THEN UnitaryM(newgates, n) ELSE [m |-> <<>>, e |-> 0]} :
                           \E o \in {MkObs(newgates, n, psi, U)} : obs' = o
DoAdd == \E s \in {RandomElement(Shapes)} : \E x \in {RandomElement(0..511)} : \E k \in {x % 8} : \E p \in {(x \div 8) % 8} : \E l \in {x \div 64} :
            LET g == [s EXCEPT !.par = SubSeq(<<k, p, l>>, 1, NPar(s.op))] IN Step(Append(gates, g), [call |-> "add", g |-> g, src |-> 0, d |-> 0])
\* append_gate: re-use an existing Gate object (same matrix) on freshly chosen wires of the same arity
DoReuse == gates # <<>> /\ \E i \in {RandomElement(1..Len(gates))} :
            \E s \in {RandomElement({x \in Shapes : x.op = gates[i].op /\ x.mat = gates[i].mat /\ Cardinality(x.ctrl) = Cardinality(gates[i].ctrl)})} :
            LET g == [s EXCEPT !.par = gates[i].par, !.hold = gates[i].hold] IN Step(Append(gates, g), [call |-> "reuse", g |-> g, src |-> i, d |-> 0])
\* extend_circuit with a second circuit object that holds plain copies (current parameter values) of the first k gates
DoExtend == gates # <<>> /\ \E k \in {RandomElement(1..Len(gates))} :
              Step(gates \o [i \in 1..k |-> [gates[i] EXCEPT !.hold = 0]], [call |-> "extend", g |-> Sh("", "", {}, <<>>), src |-> k, d |-> 0])
\* placeholder parameters: a gate whose parameters are P[op][j]; the library binds them at setP time
HolderOps == {"rx", "ry", "rz", "u3", "rzz"}
NHold(op) == Cardinality({gates[i].hold : i \in {k \in 1..Len(gates) : gates[k].op = op /\ gates[k].hold > 0}})
DoAddHolder == \E s \in {RandomElement({x \in Shapes : x.op \in HolderOps})} : \E x \in {RandomElement(0..511)} :
                 LET g == [s EXCEPT !.par = SubSeq(<<x % 8, (x \div 8) % 8, x \div 64>>, 1, NPar(s.op)), !.hold = NHold(s.op) + 1]
                 IN Step(Append(gates, g), [call |-> "addP", g |-> g, src |-> 0, d |-> 0])
\* setP: a placeholder entry gets a new value; EVERY gate bound to it must follow (also after earlier setP calls)
Held == {i \in 1..Len(gates) : gates[i].hold > 0}
DoSetP == Held # {} /\ \E i \in {RandomElement(Held)} : \E x \in {RandomElement(0..511)} :
            LET newpar == SubSeq(<<x % 8, (x \div 8) % 8, x \div 64>>, 1, NPar(gates[i].op))
                g2 == [k \in 1..Len(gates) |-> IF gates[k].op = gates[i].op /\ gates[k].hold = gates[i].hold THEN [gates[k] EXCEPT !.par = newpar] ELSE gates[k]]
            IN Step(g2, [call |-> "setP", g |-> g2[i], src |-> i, d |-> 0])
DoShift == gates # <<>> /\ NumQ(gates) < QN /\ Step([i \in 1..Len(gates) |-> ShiftG(gates[i], 1)], [call |-> "shift", g |-> Sh("", "", {}, <<>>), src |-> 0, d |-> 1])
DoShiftBack == gates # <<>> /\ (\A i \in 1..Len(gates) : \A q \in RangeOf(gates[i].tg) \cup gates[i].ctrl : q >= 2)
               /\ Step([i \in 1..Len(gates) |-> ShiftG(gates[i], -1)], [call |-> "shift", g |-> Sh("", "", {}, <<>>), src |-> 0, d |-> -1])
Next == /\ Len(ops) < Depth
        /\ \E c \in {RandomElement(1..12)} :
             IF c = 1 /\ ENABLED DoShift THEN DoShift
             ELSE IF c = 2 /\ ENABLED DoShiftBack THEN DoShiftBack
             ELSE IF c = 3 /\ gates # <<>> /\ Len(gates) <= Depth THEN DoExtend
             ELSE IF c = 4 /\ gates # <<>> THEN DoReuse
             ELSE IF c = 5 THEN DoAddHolder
             ELSE IF c = 6 /\ Held # {} THEN DoSetP
             ELSE DoAdd
Spec == Init /\ [][Next]_vars
\* ---- spec self-checks
NormOK == (obs.n > 0 /\ obs.unitary) => ONorm2(obs.psi) = <<2^obs.e, 0, 0, 0>>
UnitaryOK == (WithU /\ obs.n > 0 /\ obs.unitary) => OMatMul(obs.u, ODagger(obs.u)) = OMatScale(<<2^obs.ue, 0, 0, 0>>, OIdent(2^obs.n))
RunOK == (WithU /\ obs.n > 0) => (obs.ue = obs.e /\ [r \in 1..2^obs.n |-> obs.u[r][1]] = obs.psi)
MargOK == obs.n > 0 => \A mask \in 1..(2^obs.n - 1) : OSum(obs.marg[mask]) = ONorm2(obs.psi)
DefOK == obs.n > 0 => \E g \in {gates[Len(gates)]} : \E G \in {GateMat(gates[Len(gates)])} :
                         \E prev \in {Run(SubSeq(gates, 1, Len(gates) - 1), Base(obs.n), obs.n)} :
                         ApplyDef(prev.v, G.m, G.e, g.tg, g.ctrl, obs.n) = obs.psi
=============================================================================
