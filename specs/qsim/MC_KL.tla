-------------------------------- MODULE MC_KL --------------------------------
(* instances: n qubits, K = 2^k code words with pseudo-random Gaussian-integer entries in -3..3 (a deterministic hash of
   the instance seed), all single-qubit Pauli errors plus two weight-2 errors, integer coefficient tensors *)
EXTENDS KL, TLC
CONSTANTS NSeeds, NMax
VARIABLES cfg, obs
H(s, a, b, c) == ModI(ModI(s * 7919 + a * 104729 + b * 1299709 + c * 15485863, 1000003), 7) - 3
Words(n, k, s) == [i \in 1..2^k |-> [a \in 1..2^n |-> <<H(s, i, a, 1), H(s, i, a, 2)>>]]
Errs(n) == [e \in 1..(3 * n) |-> [q \in 1..n |-> IF q = ((e - 1) \div 3) + 1 THEN ModI(e - 1, 3) + 1 ELSE 0]]
           \o (IF n >= 2 THEN <<[q \in 1..n |-> IF q = 1 THEN 1 ELSE IF q = n THEN 2 ELSE 0], [q \in 1..n |-> IF q <= 2 THEN 3 ELSE 0]>> ELSE <<>>)
Coef(n, k, s) == [e \in 1..Len(Errs(n)) |-> [i \in 1..2^k |-> [j \in 1..2^k |-> <<H(s + 1, e, i, j), H(s + 2, e, j, i)>>]]]
Configs == {[n |-> n, k |-> k, s |-> s] : n \in 1..NMax, k \in 0..1, s \in 1..NSeeds}
MkObs(n, k, s, q, mats, coef) == [q |-> q, errs |-> Errs(n), coef |-> coef, ip |-> [e \in 1..Len(mats) |-> IP(q, mats[e])], grad |-> GradKL(q, mats, coef)]
Init == /\ cfg \in Configs
        /\ \E q \in {Words(cfg.n, cfg.k, cfg.s)} : \E mats \in {[e \in 1..Len(Errs(cfg.n)) |-> PauliMat(Errs(cfg.n)[e])]} : \E coef \in {Coef(cfg.n, cfg.k, cfg.s)} :
           \E o \in {MkObs(cfg.n, cfg.k, cfg.s, q, mats, coef)} : obs = o
Next == UNCHANGED <<cfg, obs>>
Spec == Init /\ [][Next]_<<cfg, obs>>
\* Hermitian errors: <q_i|E|q_j> = conj <q_j|E|q_i>
HermOK == \A e \in 1..Len(obs.ip) : \A i, j \in 1..Len(obs.q) : obs.ip[e][i][j] = GConj(obs.ip[e][j][i])
=============================================================================
