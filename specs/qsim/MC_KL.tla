-------------------------------- MODULE MC_KL --------------------------------
(* instances: n qubits, K = 2^k code words with pseudo-random Gaussian-integer entries in -3..3 (a deterministic hash of
   the instance seed), all single-qubit Pauli errors plus two weight-2 errors, integer coefficient tensors.
   An error is a SEQUENCE of Pauli words applied in list order (the library's op_list convention: the first factor acts first), i.e. the
   operator word_m ... word_2 word_1; besides the one-word errors the instances carry products of words that overlap on a qubit and do
   not commute (X then Z on one qubit; a two-qubit word then a one-qubit word; three factors), which are not Hermitian. *)
EXTENDS KL, TLC
CONSTANTS NSeeds, NMax
VARIABLES cfg, obs
H(s, a, b, c) == ModI(ModI(s * 7919 + a * 104729 + b * 1299709 + c * 15485863, 1000003), 7) - 3
Words(n, k, s) == [i \in 1..2^k |-> [a \in 1..2^n |-> <<H(s, i, a, 1), H(s, i, a, 2)>>]]
W1(n, qq, l) == [q \in 1..n |-> IF q = qq THEN l ELSE 0]
W2(n, q1, l1, q2, l2) == [q \in 1..n |-> IF q = q1 THEN l1 ELSE IF q = q2 THEN l2 ELSE 0]
Errs(n) == [e \in 1..(3 * n) |-> <<W1(n, ((e - 1) \div 3) + 1, ModI(e - 1, 3) + 1)>>]
           \o (IF n >= 2 THEN <<<<W2(n, 1, 1, n, 2)>>, <<W2(n, 1, 3, 2, 3)>>>> ELSE <<>>)
           \o <<<<W1(n, 1, 1), W1(n, 1, 3)>>, <<W1(n, n, 2), W1(n, n, 1), W1(n, n, 3)>>>>                              \* X then Z;  Y then X then Z on one qubit
           \o (IF n >= 2 THEN <<<<W2(n, 1, 1, 2, 3), W1(n, 1, 2)>>, <<W1(n, 1, 3), W2(n, 1, 1, 2, 1), W1(n, 2, 2)>>>> ELSE <<>>)
ErrMat(err) == FoldLeft(LAMBDA acc, w : GMatMul(PauliMat(w), acc), PauliMat(err[1]), Tail(err))                         \* word_m ... word_1
Coef(n, k, s) == [e \in 1..Len(Errs(n)) |-> [i \in 1..2^k |-> [j \in 1..2^k |-> <<H(s + 1, e, i, j), H(s + 2, e, j, i)>>]]]
Configs == {[n |-> n, k |-> k, s |-> s] : n \in 1..NMax, k \in 0..1, s \in 1..NSeeds}
\* The loss the variational code search minimises (numqi.qec.knill_laflamme_loss, kind L2) on the same inner products z[e][i][j]:
\*      L = sum_e ( sum_{i<j} |z_ij|^2 + sum_i |z_ii - m_e|^2 ),   m_e = (1/K) sum_i z_ii.
\* K^2 L is an integer, and dL = Re sum c dz with c_ij = 2 conj z_ij (i<j), c_ii = 2 conj(z_ii - m_e), c_ij = 0 (i>j) - the mean drops
\* out because sum_i (z_ii - m_e) = 0 - so K grad L = GradKL(q, mats, K c) with the integer tensor K c.
DiagSum(z) == GSum([i \in 1..Len(z) |-> z[i][i]])
Abs2(w) == w[1] * w[1] + w[2] * w[2]
LossK2(ip) == LET K == Len(ip[1]) IN
   FoldLeft(LAMBDA acc, e : acc + K * K * FoldLeft(LAMBDA a2, i : a2 + FoldLeft(LAMBDA a3, j : a3 + (IF i < j THEN Abs2(ip[e][i][j]) ELSE 0), 0, [j \in 1..K |-> j]), 0, [i \in 1..K |-> i])
                                 + FoldLeft(LAMBDA a2, i : a2 + Abs2(GAdd(GScale(K, ip[e][i][i]), GNeg(DiagSum(ip[e])))), 0, [i \in 1..K |-> i]),
            0, [e \in 1..Len(ip) |-> e])
CoefL(ip) == LET K == Len(ip[1]) IN
   [e \in 1..Len(ip) |-> [i \in 1..K |-> [j \in 1..K |->
       IF i < j THEN GScale(2 * K, GConj(ip[e][i][j])) ELSE IF i = j THEN GScale(2, GConj(GAdd(GScale(K, ip[e][i][i]), GNeg(DiagSum(ip[e]))))) ELSE GZero]]]
MkObs(n, k, s, q, mats, coef) == LET ip == [e \in 1..Len(mats) |-> IP(q, mats[e])] IN
   [q |-> q, errs |-> Errs(n), coef |-> coef, ip |-> ip, grad |-> GradKL(q, mats, coef), lossK2 |-> LossK2(ip), gradLK |-> GradKL(q, mats, CoefL(ip))]
Init == /\ cfg \in Configs
        /\ \E q \in {Words(cfg.n, cfg.k, cfg.s)} : \E mats \in {[e \in 1..Len(Errs(cfg.n)) |-> ErrMat(Errs(cfg.n)[e])]} : \E coef \in {Coef(cfg.n, cfg.k, cfg.s)} :
           \E o \in {MkObs(cfg.n, cfg.k, cfg.s, q, mats, coef)} : obs = o
Next == UNCHANGED <<cfg, obs>>
Spec == Init /\ [][Next]_<<cfg, obs>>
\* Hermitian errors: <q_i|E|q_j> = conj <q_j|E|q_i>
LossOK == obs.lossK2 >= 0
HermOK == \A e \in {x \in 1..Len(obs.ip) : Len(obs.errs[x]) = 1} : \A i, j \in 1..Len(obs.q) : obs.ip[e][i][j] = GConj(obs.ip[e][j][i])
=============================================================================
