-------------------------------- MODULE MC_KL --------------------------------
(* instances: n qubits, K = 2^k code words with pseudo-random Gaussian-integer entries in -3..3 (a deterministic hash of
   the instance seed), all single-qubit Pauli errors plus two weight-2 errors, integer coefficient tensors *)
EXTENDS KL, TLC
CONSTANTS NSeeds, NMax
VARIABLES cfg, obs
H(s, a, b, c) == ModI(ModI(s * 7919 + a * 104729 + b * 1299709 + c * 15485863, 1000003), 7) - 3
Words(n, k, s) == [i \in 1..2^k |-> [a \in 1..2^n |-> <<H(s, i, a, 1), H(s, i, a, 2)>>]]
Errs(n) == [e \in 1..(3 * n) |-> [q \in 1..n |-> IF q = ((e - 1) \div 3) + 1 THEN ModI(e - 1, 3) + 1 ELSE 0]]
           \o (IF n >= 2 THEN <<[q \in 1..n |-> IF q = 1 THEN 1 ELSE IF q = n THEN 2 ELSE 0], [q \in 1..n |-> IF q <= 2 THEN 3 ELSE 0]>> ELSE <<>>)
Coef(n, k, s) == [e \in 1..Len(Errs(n)) |-> [i \in 1..2^k |-> [j \in 1..2^k |-> <<H(s + 1, e, i, j), H(s + 2, e, j, i)>>]]]
Configs == {[n |-> n, k |-> k, s |-> s] : n \in 1..NMax, k \in 0..1, s \in 1..NSeeds}
\* The loss the variational code search minimises (numqi.qec.knill_laflamme_loss, kind L2) on the same inner products z[e][i][j]:
\*      L = sum_e ( sum_{i<j} |z_ij|^2 + sum_i |z_ii - m_e|^2 ),   m_e = (1/K) sum_i z_ii.
\* K^2 L is an integer, and dL = Re sum c dz with c_ij = 2 conj z_ij (i<j), c_ii = 2 conj(z_ii - m_e), c_ij = 0 (i>j) - the mean drops
\* out because sum_i (z_ii - m_e) = 0 - so K grad L = GradKL(q, mats, K c) with the integer tensor K c.
DiagSum(z) == GSum([i \in 1..Len(z) |-> z[i][i]])
Abs2(w) == w[1] * w[1] + w[2] * w[2]
LossK2(ip) == LET K == Len(ip[1]) IN
   FoldLeft(LAMBDA acc, e : acc + K * K * FoldLeft(LAMBDA a2, i : a2 + FoldLeft(LAMBDA a3, j : a3 + (IF i < j THEN Abs2(ip[e][i][j]) ELSE 0), 0, [j \in 1..K |-> j]), 0, [i \in 1..K |-> i])
                                 + FoldLeft(LAMBDA a2, i : a2 + Abs2(GAdd(GScale(K, ip[e][i][i]), GNeg(DiagSum(ip[e])))), 0, [i \in 1..K |-> i]),
            0, [e \in 1..Len(ip) |-> e])
CoefL(ip) == LET K == Len(ip[1]) IN
   [e \in 1..Len(ip) |-> [i \in 1..K |-> [j \in 1..K |->
       IF i < j THEN GScale(2 * K, GConj(ip[e][i][j])) ELSE IF i = j THEN GScale(2, GConj(GAdd(GScale(K, ip[e][i][i]), GNeg(DiagSum(ip[e]))))) ELSE GZero]]]
MkObs(n, k, s, q, mats, coef) == LET ip == [e \in 1..Len(mats) |-> IP(q, mats[e])] IN
   [q |-> q, errs |-> Errs(n), coef |-> coef, ip |-> ip, grad |-> GradKL(q, mats, coef), lossK2 |-> LossK2(ip), gradLK |-> GradKL(q, mats, CoefL(ip))]
Init == /\ cfg \in Configs
        /\ \E q \in {Words(cfg.n, cfg.k, cfg.s)} : \E mats \in {[e \in 1..Len(Errs(cfg.n)) |-> PauliMat(Errs(cfg.n)[e])]} : \E coef \in {Coef(cfg.n, cfg.k, cfg.s)} :
           \E o \in {MkObs(cfg.n, cfg.k, cfg.s, q, mats, coef)} : obs = o
Next == UNCHANGED <<cfg, obs>>
Spec == Init /\ [][Next]_<<cfg, obs>>
\* Hermitian errors: <q_i|E|q_j> = conj <q_j|E|q_i>
LossOK == obs.lossK2 >= 0
HermOK == \A e \in 1..Len(obs.ip) : \A i, j \in 1..Len(obs.q) : obs.ip[e][i][j] = GConj(obs.ip[e][j][i])
=============================================================================
