CONSTANTS NMax = 5
SPECIFICATION Spec
INVARIANT ClosedFormOK
INVARIANT StabOK
