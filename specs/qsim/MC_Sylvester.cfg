SPECIFICATION Spec
INVARIANT OrthOK
INVARIANT RootOK
INVARIANT SylvOK
INVARIANT SymOK
