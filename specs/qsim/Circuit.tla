-------------------------------- MODULE Circuit --------------------------------
(* numqi.sim.Circuit as a state machine.  The abstract state is the list of gate records
       [op, mat, par, ctrl, tg]   (op = the public method that created it; ctrl a set, tg an ordered tuple; 1-based qubits)
   One action per public method family.  The circuit's register has as many qubits as the largest index in use.
   Run(gates, psi) applies the embedded operators in order; Unitary(gates) is their ordered product. *)
EXTENDS Gates, Embed
VARIABLE gates
Max2(a, b) == IF a > b THEN a ELSE b
SetMax(S) == CHOOSE x \in S : \A y \in S : y <= x
GateTop(g) == SetMax(RangeOf(g.tg) \cup g.ctrl)
RECURSIVE NumQ(_)
NumQ(gs) == IF gs = <<>> THEN 0 ELSE Max2(NumQ(Tail(gs)), GateTop(Head(gs)))
\* state vectors: [v, e] denotes v / sqrt2^e
\* Accumulations are written with FoldLeft (evaluated by TLC's Java module override on concrete values): a recursive
\* operator whose lazily passed argument is referenced many times can be re-evaluated at every reference.
ApplyWith(st, G, g, n) == [v |-> ApplyFast(st.v, G.m, G.e, g.tg, g.ctrl, n), e |-> st.e + G.e]
\* a measure gate [op |-> "measure", tg |-> ascending qubits, out |-> observed outcome index] projects onto the outcome
\* (the vector is left unnormalised; the state it denotes is v / ||v||)
KeepIdx(b, S, n) == FoldLeft(LAMBDA acc, q : IF q \in S THEN 2 * acc + QBit(b, q, n) ELSE acc, 0, [q \in 1..n |-> q])
Project(v, S, o, n) == [r \in 1..2^n |-> IF KeepIdx(r - 1, S, n) = o THEN v[r] ELSE OZero]
ApplyG(st, g, n) == IF g.op = "measure" THEN [v |-> Project(st.v, RangeOf(g.tg), g.out, n), e |-> st.e]
                    ELSE FoldLeft(LAMBDA acc, G : ApplyWith(acc, G, g, n), st, <<GateMat(g)>>)
Run(gs, st, n) == FoldLeft(LAMBDA acc, g : ApplyG(acc, g, n), st, gs)
Base(n) == [v |-> BasisVec(n, 0), e |-> 0]
MulEmb(R, G, g, n) == [m |-> OMatMul(Embedded(G.m, G.e, g.tg, g.ctrl, n), R.m), e |-> R.e + G.e]
UnitaryM(gs, n) == FoldLeft(LAMBDA R, g : FoldLeft(LAMBDA acc, G : MulEmb(acc, G, g, n), R, <<GateMat(g)>>), [m |-> OIdent(2^n), e |-> 0], gs)
\* ---- actions
CInit == gates = <<>>
AddGate(g) == gates' = Append(gates, g)                                  \* every gate-appending method incl. append_gate
Extend(gs) == gates' = gates \o gs                                       \* extend_circuit
ShiftG(g, d) == [g EXCEPT !.tg = [j \in 1..Len(g.tg) |-> g.tg[j] + d], !.ctrl = {q + d : q \in g.ctrl}]
Shift(d) == gates' = [i \in 1..Len(gates) |-> ShiftG(gates[i], d)]       \* shift_qubit_index_
WellFormed(g, n) == /\ \A j \in 1..Len(g.tg) : g.tg[j] \in 1..n
                    /\ g.ctrl \subseteq 1..n /\ g.ctrl \cap RangeOf(g.tg) = {}
                    /\ \A i, j \in 1..Len(g.tg) : i # j => g.tg[i] # g.tg[j]
=============================================================================
