CONSTANTS NMax = 3
KMax = 3
SPECIFICATION Spec
INVARIANT FastOK
