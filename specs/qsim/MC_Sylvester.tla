-------------------------------- MODULE MC_Sylvester --------------------------------
(* instances n = 2, 3; invariants: Q orthogonal, root^(2^r) = A, and the gradient satisfies the Sylvester equation(s):
     r = 1:  S X + X S = G            r = 2:  with B = root^2:  root Y + Y root = G,  B X + X B = Y  (Y eliminated) *)
EXTENDS Sylvester, TLC
VARIABLES cfg, obs
CS == {<<R(3, 5), R(4, 5)>>, <<R(4, 5), R(-3, 5)>>, <<R(0, 1), R(1, 1)>>, <<R(-3, 5), R(4, 5)>>}
Spectra(n) == IF n = 2 THEN {<<R(1, 1), R(2, 1)>>, <<R(1, 2), R(1, 2)>>, <<R(3, 1), R(1, 2)>>}
              ELSE {<<R(1, 1), R(2, 1), R(3, 1)>>, <<R(1, 2), R(1, 2), R(2, 1)>>, <<R(1, 1), R(1, 1), R(1, 1)>>, <<R(2, 1), R(1, 2), R(3, 1)>>}
GSet(n) == IF n = 2 THEN {<<<<1, 2>>, <<2, -1>>>>, <<<<0, 1>>, <<1, 0>>>>} ELSE {<<<<1, 2, 0>>, <<2, -1, 3>>, <<0, 3, 2>>>>, <<<<0, 0, 1>>, <<0, 1, 0>>, <<1, 0, 0>>>>}
ToR(G) == [i \in 1..Len(G) |-> [j \in 1..Len(G) |-> RFromInt(G[i][j])]]
QOf(n, c1, c2) == IF n = 2 THEN Givens(2, 1, 2, c1) ELSE RMatMul(Givens(3, 1, 2, c1), Givens(3, 2, 3, c2))
Configs == {[n |-> n, c1 |-> c1, c2 |-> c2, t |-> t, G |-> G, r |-> r] : n \in 2..3, c1 \in CS, c2 \in {<<R(3, 5), R(4, 5)>>, <<R(0, 1), R(1, 1)>>, <<R(1, 1), R(0, 1)>>}, t \in Spectra(2) \cup Spectra(3), G \in GSet(2) \cup GSet(3), r \in 1..2}
\* keep every intermediate below 2^31: two Givens factors only with denominator 5, fourth roots only for n = 2
Small(c) == /\ (c.n = 3 => (c.c1 \in {<<R(3, 5), R(4, 5)>>, <<R(0, 1), R(1, 1)>>, <<R(4, 5), R(-3, 5)>>} /\ c.c2 \in {<<R(0, 1), R(1, 1)>>, <<R(1, 1), R(0, 1)>>}))
            /\ (c.r = 2 => c.n = 2)
Init == /\ cfg \in {c \in Configs : Len(c.t) = c.n /\ Len(c.G) = c.n /\ (c.n = 3 \/ c.c2 = <<R(3, 5), R(4, 5)>>) /\ Small(c)}
        /\ \E Q \in {QOf(cfg.n, cfg.c1, cfg.c2)} : \E G \in {ToR(cfg.G)} :
             obs = [Q |-> Q, A |-> Conj(Q, RDiag([i \in 1..cfg.n |-> RPow(cfg.t[i], 2 * cfg.r)])), root |-> Conj(Q, RDiag(cfg.t)), X |-> GradX(Q, cfg.t, G, cfg.r)]
Next == UNCHANGED <<cfg, obs>>
Spec == Init /\ [][Next]_<<cfg, obs>>
OrthOK == RMatMul(obs.Q, RTr(obs.Q)) = RIdent(cfg.n)
RootOK == LET S2 == RMatMul(obs.root, obs.root) IN (IF cfg.r = 1 THEN S2 ELSE RMatMul(S2, S2)) = obs.A
SylvOK == LET S == obs.root  B == RMatMul(S, S)  G == ToR(cfg.G) IN
   IF cfg.r = 1 THEN RMatAdd(RMatMul(S, obs.X), RMatMul(obs.X, S)) = G
   ELSE LET Y == RMatAdd(RMatMul(B, obs.X), RMatMul(obs.X, B)) IN RMatAdd(RMatMul(S, Y), RMatMul(Y, S)) = G
SymOK == obs.X = RTr(obs.X) /\ obs.A = RTr(obs.A)
=============================================================================
