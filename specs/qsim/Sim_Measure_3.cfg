CONSTANTS QN = 3
Depth = 9
SPECIFICATION Spec
INVARIANT AliveOK
INVARIANT LogOK
