CONSTANTS NMax = 6
SPECIFICATION Spec
INVARIANT SumOK
INVARIANT RepeatOK
INVARIANT ResolveOK
INVARIANT SupportOK
