CONSTANTS QN = 3
MaxLen = 3
MaxLenTop = 2
SPECIFICATION Spec
INVARIANT ProductOK
