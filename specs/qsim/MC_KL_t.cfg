CONSTANTS NSeeds = 12
NMax = 4
SPECIFICATION Spec
INVARIANT HermOK
INVARIANT LossOK
