CONSTANTS QN = 3
Depth = 8
WithU = TRUE
SPECIFICATION Spec
INVARIANT NormOK
INVARIANT UnitaryOK
INVARIANT RunOK
INVARIANT MargOK
INVARIANT DefOK
