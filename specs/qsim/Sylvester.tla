-------------------------------- MODULE Sylvester --------------------------------
(* Exact derivative of the principal square root of a positive definite matrix on a rational family:
       A = Q diag(t^(2^r)) Q^T,   Q a product of Pythagorean Givens rotations (rational orthogonal), t_i > 0 rational,
   so that  A^(1/2^r) = Q diag(t) Q^T  is rational as well (r = 1: square root, r = 2: fourth root = `repeat` twice).
   For the loss  L = Tr(G A^(1/2^r))  with a symmetric integer G, the gradient X = dL/dA solves the chain of Sylvester
   equations; in the eigenbasis, with G' = Q^T G Q,
       r = 1:  X'_ij = G'_ij / (t_i + t_j)              r = 2:  X'_ij = G'_ij / ((t_i + t_j)(t_i^2 + t_j^2)).
   Degenerate spectra (t_i = t_j) are included; singular matrices are not (the square root is not differentiable there). *)
EXTENDS Rat
RMat(n, f(_, _)) == [i \in 1..n |-> [j \in 1..n |-> f(i, j)]]
RMatMul(A, B) == [i \in 1..Len(A) |-> [j \in 1..Len(B[1]) |-> RSum([k \in 1..Len(B) |-> RMul(A[i][k], B[k][j])])]]
RMatAdd(A, B) == [i \in 1..Len(A) |-> [j \in 1..Len(A[1]) |-> RAdd(A[i][j], B[i][j])]]
RTr(A) == [j \in 1..Len(A[1]) |-> [i \in 1..Len(A) |-> A[i][j]]]
RDiag(v) == [i \in 1..Len(v) |-> [j \in 1..Len(v) |-> IF i = j THEN v[i] ELSE RZero]]
RIdent(n) == RDiag([i \in 1..n |-> ROne])
\* Givens rotation in the (p,q) plane with (cos, sin) = cs
Givens(n, p, q, cs) == [i \in 1..n |-> [j \in 1..n |->
   IF i = p /\ j = p THEN cs[1] ELSE IF i = q /\ j = q THEN cs[1] ELSE IF i = p /\ j = q THEN RNeg(cs[2]) ELSE IF i = q /\ j = p THEN cs[2]
   ELSE IF i = j THEN ROne ELSE RZero]]
RPow(x, k) == IF k = 1 THEN x ELSE IF k = 2 THEN RMul(x, x) ELSE RMul(RMul(x, x), RMul(x, x))
Conj(Q, D) == RMatMul(RMatMul(Q, D), RTr(Q))
\* gradient in the eigenbasis
Denom(t, i, j, r) == IF r = 1 THEN RAdd(t[i], t[j]) ELSE RMul(RAdd(t[i], t[j]), RAdd(RMul(t[i], t[i]), RMul(t[j], t[j])))
GradX(Q, t, G, r) == LET Gp == RMatMul(RMatMul(RTr(Q), G), Q)
                         Xp == [i \in 1..Len(t) |-> [j \in 1..Len(t) |-> RDiv(Gp[i][j], Denom(t, i, j, r))]]
                     IN Conj(Q, Xp)
\* LogScalar: at a scalar matrix A = c I (c > 0) the matrix logarithm has the Frechet derivative H |-> H / c, so the gradient of
\* <G, logm(A)> with respect to A is G / c - the one family on which the backward of the (transcendental) logarithm is rational.
LogScalarGrad(G, c) == [i \in 1..Len(G) |-> [j \in 1..Len(G) |-> RDiv(G[i][j], c)]]
=============================================================================
