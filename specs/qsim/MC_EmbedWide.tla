-------------------------------- MODULE MC_EmbedWide --------------------------------
(* Routing on WIDE registers (n = 6 .. NTop qubits): index bookkeeping that only shows with many qubits (more labels than a
   small table holds, strides beyond one byte ...).  The exhaustive model MC_Embed stops at 4 qubits; here a fixed family of
   target tuples (low and high qubits, ascending and not) and control sets is applied to a few basis columns with a generic
   gate matrix whose entries are pairwise different (entry [r][c] = r + i c), so that any misrouting changes the result. *)
EXTENDS Embed, TLC
CONSTANT NTop
VARIABLES cfg, out
GenU(K) == [r \in 1..K |-> [c \in 1..K |-> <<r, 0, c, 0>>]]
TargetsOf(n) == {<<n>>, <<1>>, <<n, 1>>, <<1, n>>, <<2, n - 1>>, <<n - 1, 3, n>>, <<4, 1, n>>, <<n, n - 1, n - 2>>, <<2, 3, 4>>}
CtrlOf(n, t) == {c \in {{}, {n - 2}, {2, n - 3}, {5}, {1, 2, 3}} : c \cap RangeOf(t) = {} /\ c \subseteq 1..n}
Cols(n) == {0, 2^n - 1, (2^n - 1) \div 3, 2 * ((2^n - 1) \div 3), 2^(n - 1) + 5, 37 % 2^n}
Init == /\ cfg \in UNION {UNION {{[n |-> n, tg |-> t, ctrl |-> c, col |-> b] : c \in CtrlOf(n, t), b \in Cols(n)} : t \in TargetsOf(n)} : n \in 6..NTop}
        /\ out = ApplyFast(BasisVec(cfg.n, cfg.col), GenU(2^Len(cfg.tg)), 0, cfg.tg, cfg.ctrl, cfg.n)
Next == UNCHANGED <<cfg, out>>
Spec == Init /\ [][Next]_<<cfg, out>>
\* the column of the embedded operator has its support exactly where the definition says: rows that agree with the column
\* outside the targets (controls all ones), or the column itself when a control bit is zero
SupportOK == \A r \in 1..2^cfg.n : (out[r] # OZero) =>
                IF AllOnes(cfg.col, cfg.ctrl, cfg.n) THEN AgreeOutside(cfg.col, r - 1, cfg.tg, cfg.n) ELSE r - 1 = cfg.col
DefOK == cfg.n <= 6 => out = ApplyDef(BasisVec(cfg.n, cfg.col), GenU(2^Len(cfg.tg)), 0, cfg.tg, cfg.ctrl, cfg.n)
=============================================================================
