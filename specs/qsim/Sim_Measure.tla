-------------------------------- MODULE Sim_Measure --------------------------------
(* Random circuits with mid-circuit measure gates (tlc -simulate).  A measure step picks a random ascending qubit subset
   and an outcome from the support of the state AT THAT POINT; the recorded log holds, for every measure gate in program
   order, the outcome, the Born marginals and the squared norm of the state just before it (computed with the final
   register size, as the library runs the whole program on the final register).  shift_qubit_index_ steps move the whole
   program - measure gates included - to higher qubits. *)
EXTENDS Measure, TLC
CONSTANTS QN, Depth
VARIABLES obs, ops
vars == <<gates, obs, ops>>
Sh(op, ctrl, tg) == [op |-> op, mat |-> "", par |-> <<>>, ctrl |-> ctrl, tg |-> tg, out |-> 0]
Q == 1..QN
T1 == Tuples(QN, 1)
T2 == Tuples(QN, 2)
Shapes ==
   {Sh(o, {}, t) : o \in {"X", "Y", "Z", "H", "S", "T", "rx", "ry", "rz", "u3"}, t \in T1}
   \cup {Sh(o, {}, t) : o \in {"Swap", "rzz"}, t \in T2}
   \cup {Sh(o, {t[1]}, <<t[2]>>) : o \in {"cnot", "cy", "cz", "crx", "cry"}, t \in T2}
NPar(op) == IF op \in {"rx", "ry", "rz", "rzz", "crx", "cry", "crz"} THEN 1 ELSE IF op \in {"u3", "cu3"} THEN 3 ELSE 0
AscSeq(S) == SetToSortSeq(S, <)
\* fold over the program: state and measurement log
StepLog(acc, g, n) == IF g.op = "measure"
   THEN [st |-> ApplyG(acc.st, g, n), log |-> Append(acc.log, [tg |-> g.tg, out |-> g.out, marg |-> Marg(acc.st.v, RangeOf(g.tg), n), n2 |-> ONorm2(acc.st.v)])]
   ELSE [st |-> ApplyG(acc.st, g, n), log |-> acc.log]
RunLog(gs, n) == FoldLeft(LAMBDA acc, g : StepLog(acc, g, n), [st |-> Base(n), log |-> <<>>], gs)
MkObs(n, R) == [n |-> n, psi |-> R.st.v, n2 |-> ONorm2(R.st.v), log |-> R.log]
Init == CInit /\ ops = <<>> /\ obs = [n |-> 0, psi |-> <<>>, n2 |-> OZero, log |-> <<>>]
Step(newgates, call) == /\ gates' = newgates /\ ops' = Append(ops, call)
                        /\ \E n \in {NumQ(newgates)} : \E R \in {RunLog(newgates, n)} : \E o \in {MkObs(n, R)} : obs' = o
DoAdd == \E s \in {RandomElement(Shapes)} : \E x \in {RandomElement(0..511)} : \E k \in {x % 8} : \E p \in {(x \div 8) % 8} : \E l \in {x \div 64} :
            LET g == [s EXCEPT !.par = SubSeq(<<k, p, l>>, 1, NPar(s.op))] IN Step(Append(gates, g), g)
DoMeasure == obs.n > 0 /\ \E mask \in {RandomElement(1..(2^obs.n - 1))} :
               \E S \in {MaskSet(mask, obs.n)} : \E o \in {RandomElement(Support(obs.psi, S, obs.n))} :
               LET g == [Sh("measure", {}, AscSeq(S)) EXCEPT !.out = o] IN Step(Append(gates, g), g)
\* shift_qubit_index_(1): every gate - the measure gates included - moves up by one qubit; the outcomes already fixed stay attached
\* to their gates.  (The register may grow to QN + 1 qubits this way.)
DoShift == obs.n > 0 /\ obs.n <= QN /\ Step([i \in 1..Len(gates) |-> ShiftG(gates[i], 1)], [Sh("shift", {}, <<1>>) EXCEPT !.out = 1])
Next == /\ Len(ops) < Depth
        /\ \E c \in {RandomElement(1..9)} : IF c <= 2 /\ obs.n > 0 THEN DoMeasure ELSE IF c = 3 /\ obs.n > 0 /\ obs.n <= QN THEN DoShift ELSE DoAdd
Spec == Init /\ [][Next]_vars
\* the state never vanishes (outcomes are drawn from the support) and every logged distribution sums to its norm
AliveOK == obs.n > 0 => obs.n2 # OZero
LogOK == \A i \in 1..Len(obs.log) : OSum(obs.log[i].marg) = obs.log[i].n2 /\ obs.log[i].marg[obs.log[i].out + 1] # OZero
=============================================================================
