CONSTANTS NMax = 4
SPECIFICATION Spec
INVARIANT ClosedFormOK
INVARIANT StabOK
