CONSTANTS QN = 3
Depth = 7
SPECIFICATION Spec
INVARIANT ShiftOK
INVARIANT AmpOK
