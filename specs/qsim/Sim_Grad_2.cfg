CONSTANTS QN = 2
Depth = 8
SPECIFICATION Spec
INVARIANT ShiftOK
INVARIANT AmpOK
