-------------------------------- MODULE Measure --------------------------------
(* Projective measurement of an ascending qubit subset S of a state vector v over Z[w] (the state is v / ||v||).
   Outcome o (index over the measured qubits, first one most significant) has Born probability
   Marg(o) / ||v||^2 with Marg(o) = sum of |v_b|^2 over the basis states b whose S-bits spell o, and the
   post-measurement state is the projection of v onto those basis states. *)
EXTENDS Circuit
Marg(v, S, n) == [o \in 1..2^Cardinality(S) |-> OSum([r \in 1..2^n |-> IF KeepIdx(r - 1, S, n) = o - 1 THEN OMul(v[r], OConj(v[r])) ELSE OZero])]
Support(v, S, n) == {o \in 0..(2^Cardinality(S) - 1) : Marg(v, S, n)[o + 1] # OZero}
MaskSet(mask, n) == {q \in 1..n : (mask \div 2^(n - q)) % 2 = 1}
=============================================================================
