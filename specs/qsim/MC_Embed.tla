-------------------------------- MODULE MC_Embed --------------------------------
(* Exhaustive routing model: every n <= NMax, every ordered tuple of 1..3 distinct targets, every control subset of the
   remaining qubits, every matrix unit E_ij as the gate.  One state per configuration; the state carries the expected
   embedded operator as a 0/1 matrix (rows of bits).  By linearity in the gate and in the state, agreement of the
   implementation on all units x all basis columns determines it for every gate matrix and every state. *)
EXTENDS Embed, TLC
CONSTANT NMax, KMax
VARIABLES cfg, expect
Configs == UNION {UNION {UNION {{[n |-> n, tg |-> t, ctrl |-> c, i |-> u[1], j |-> u[2]] :
                 u \in (1..2^k) \X (1..2^k)} : c \in SUBSET ((1..n) \ RangeOf(t))} : t \in Tuples(n, k)} :
                 <<n, k>> \in {p \in (1..NMax) \X (1..KMax) : p[2] <= p[1]}}
Bits(M) == [r \in 1..Len(M) |-> [c \in 1..Len(M) |-> IF M[r][c] = OOne THEN 1 ELSE 0]]
Init == /\ cfg \in Configs
        /\ expect = Bits(Embedded(UnitMat(2^Len(cfg.tg), cfg.i, cfg.j), 0, cfg.tg, cfg.ctrl, cfg.n))
Next == UNCHANGED <<cfg, expect>>
Spec == Init /\ [][Next]_<<cfg, expect>>
\* the two formulations agree on every basis vector; entries are 0/1
FastOK == LET U == UnitMat(2^Len(cfg.tg), cfg.i, cfg.j) IN
          \A b \in 0..(2^cfg.n - 1) : ApplyFast(BasisVec(cfg.n, b), U, 0, cfg.tg, cfg.ctrl, cfg.n) = ApplyDef(BasisVec(cfg.n, b), U, 0, cfg.tg, cfg.ctrl, cfg.n)
=============================================================================
