-------------------------------- MODULE Ring --------------------------------
(* Exact rings used by the shadow semantics.
   Z[i]   : <<re, im>>
   Z[w]   : <<a,b,c,d>> = a + b w + c w^2 + d w^3,  w = exp(i pi/4), w^4 = -1
   Matrices / vectors are 1-indexed sequences (row r, column c); basis index b in 0..D-1 is position b+1. *)
EXTENDS Integers, Sequences, SequencesExt, TLC
ModI(a, b) == a % b
\* ---------------- Z[i]
GZero == <<0, 0>>
GOne == <<1, 0>>
GI == <<0, 1>>
GAdd(p, q) == <<p[1] + q[1], p[2] + q[2]>>
GNeg(p) == <<-p[1], -p[2]>>
GMul(p, q) == <<p[1]*q[1] - p[2]*q[2], p[1]*q[2] + p[2]*q[1]>>
GConj(p) == <<p[1], -p[2]>>
GScale(k, p) == <<k*p[1], k*p[2]>>
GIPow(k) == CASE k % 4 = 0 -> <<1,0>> [] k % 4 = 1 -> <<0,1>> [] k % 4 = 2 -> <<-1,0>> [] OTHER -> <<0,-1>>
GSum(s) == FoldLeft(GAdd, GZero, s)
GMatMul(A, B) == TLCEval([i \in 1..Len(A) |-> [j \in 1..Len(B[1]) |-> GSum([k \in 1..Len(B) |-> GMul(A[i][k], B[k][j])])]])
GMatVec(A, v) == TLCEval([i \in 1..Len(A) |-> GSum([k \in 1..Len(v) |-> GMul(A[i][k], v[k])])])
GDagger(A) == TLCEval([j \in 1..Len(A[1]) |-> [i \in 1..Len(A) |-> GConj(A[i][j])]])
GIdent(n) == [i \in 1..n |-> [j \in 1..n |-> IF i = j THEN GOne ELSE GZero]]
GMatScale(c, A) == TLCEval([i \in 1..Len(A) |-> [j \in 1..Len(A[1]) |-> GMul(c, A[i][j])]])
GKron(A, B) == LET ra == Len(A) ca == Len(A[1]) rb == Len(B) cb == Len(B[1]) IN
   TLCEval([i \in 1..ra*rb |-> [j \in 1..ca*cb |-> GMul(A[((i-1) \div rb) + 1][((j-1) \div cb) + 1], B[((i-1) % rb) + 1][((j-1) % cb) + 1])]])
GTrace(A) == GSum([i \in 1..Len(A) |-> A[i][i]])
\* ---------------- Z[w]
ZO(a, b, c, d) == <<a, b, c, d>>
OZero == <<0,0,0,0>>
OOne == <<1,0,0,0>>
OI == <<0,0,1,0>>
OW == <<0,1,0,0>>
OSqrt2 == <<0,1,0,-1>>
OAdd(p, q) == <<p[1]+q[1], p[2]+q[2], p[3]+q[3], p[4]+q[4]>>
ONeg(p) == <<-p[1], -p[2], -p[3], -p[4]>>
OSub(p, q) == OAdd(p, ONeg(q))
OMul(p, q) == << p[1]*q[1] - p[2]*q[4] - p[3]*q[3] - p[4]*q[2],
                 p[1]*q[2] + p[2]*q[1] - p[3]*q[4] - p[4]*q[3],
                 p[1]*q[3] + p[2]*q[2] + p[3]*q[1] - p[4]*q[4],
                 p[1]*q[4] + p[2]*q[3] + p[3]*q[2] + p[4]*q[1] >>
OConj(p) == <<p[1], -p[4], -p[3], -p[2]>>
OScale(k, p) == <<k*p[1], k*p[2], k*p[3], k*p[4]>>
OFromG(g) == <<g[1], 0, g[2], 0>>
\* w^k for any integer k (period 8)
OWPow(k) == LET r == k % 8 IN
   CASE r = 0 -> <<1,0,0,0>> [] r = 1 -> <<0,1,0,0>> [] r = 2 -> <<0,0,1,0>> [] r = 3 -> <<0,0,0,1>>
     [] r = 4 -> <<-1,0,0,0>> [] r = 5 -> <<0,-1,0,0>> [] r = 6 -> <<0,0,-1,0>> [] OTHER -> <<0,0,0,-1>>
OSum(s) == FoldLeft(OAdd, OZero, s)
OMatMul(A, B) == TLCEval([i \in 1..Len(A) |-> [j \in 1..Len(B[1]) |-> OSum([k \in 1..Len(B) |-> OMul(A[i][k], B[k][j])])]])
OMatVec(A, v) == TLCEval([i \in 1..Len(A) |-> OSum([k \in 1..Len(v) |-> OMul(A[i][k], v[k])])])
ODagger(A) == TLCEval([j \in 1..Len(A[1]) |-> [i \in 1..Len(A) |-> OConj(A[i][j])]])
OIdent(n) == [i \in 1..n |-> [j \in 1..n |-> IF i = j THEN OOne ELSE OZero]]
OMatScale(c, A) == TLCEval([i \in 1..Len(A) |-> [j \in 1..Len(A[1]) |-> OMul(c, A[i][j])]])
OKron(A, B) == LET rb == Len(B) cb == Len(B[1]) IN
   TLCEval([i \in 1..Len(A)*rb |-> [j \in 1..Len(A[1])*cb |-> OMul(A[((i-1) \div rb) + 1][((j-1) \div cb) + 1], B[((i-1) % rb) + 1][((j-1) % cb) + 1])]])
\* sqrt2^e as an element of Z[w]
RECURSIVE OSqrt2Pow(_)
OSqrt2Pow(e) == IF e = 0 THEN OOne ELSE IF e >= 2 THEN OScale(2, OSqrt2Pow(e - 2)) ELSE OSqrt2
ONorm2(v) == OSum([k \in 1..Len(v) |-> OMul(v[k], OConj(v[k]))])    \* in Z[sqrt2] (components 1 and 2=-4)
Pow2(k) == 2^k
=============================================================================
