-------------------------------- MODULE GF2 --------------------------------
(* Vectors and matrices over F2 as sequences of 0/1 (size-polymorphic: the length is Len(v)). *)
EXTENDS Naturals, Sequences, SequencesExt
Bit == {0, 1}
BitSeq(n) == [1..n -> Bit]
SumSeq(s) == FoldLeft(LAMBDA a, b : a + b, 0, s)
DotZ(a, b) == SumSeq([k \in 1..Len(a) |-> a[k] * b[k]])      \* integer dot product (not reduced)
Dot(a, b) == DotZ(a, b) % 2
XorV(a, b) == [k \in 1..Len(a) |-> (a[k] + b[k]) % 2]
ZeroV(n) == [k \in 1..n |-> 0]
UnitV(n, j) == [k \in 1..n |-> IF k = j THEN 1 ELSE 0]
Weight(a) == SumSeq(a)
\* matrices: sequence of rows
Col(M, j) == [i \in 1..Len(M) |-> M[i][j]]
MatVec(M, v) == [i \in 1..Len(M) |-> Dot(M[i], v)]
MatMul(A, B) == [i \in 1..Len(A) |-> [j \in 1..Len(B[1]) |-> Dot(A[i], Col(B, j))]]
Transpose(M) == [j \in 1..Len(M[1]) |-> Col(M, j)]
IdM(n) == [i \in 1..n |-> UnitV(n, i)]
\* symplectic form pairing coordinate i with i+n (vectors of length 2n: x part then z part)
Partner(a, n) == IF a <= n THEN a + n ELSE a - n
SympForm(u, v, n) == SumSeq([a \in 1..2*n |-> u[a] * v[Partner(a, n)]]) % 2
Lam(n) == [i \in 1..2*n |-> [j \in 1..2*n |-> IF j = Partner(i, n) THEN 1 ELSE 0]]
\* M Lam M^T = Lam  <=>  rows are a symplectic basis
IsSymplectic(M, n) == \A i, j \in 1..2*n : SympForm(M[i], M[j], n) = (IF j = Partner(i, n) THEN 1 ELSE 0)
Transvect(x, h, n) == IF SympForm(x, h, n) = 1 THEN XorV(x, h) ELSE x
=============================================================================
