-------------------------------- MODULE Rat --------------------------------
(* Exact rationals <<num, den>> (den > 0, gcd-normalised; TLC aborts on 32-bit overflow, never wraps) and an exact
   positive-semidefiniteness test for rational symmetric matrices by LDL^T with zero pivots allowed. *)
EXTENDS Integers, Sequences, SequencesExt
RECURSIVE RGcd(_, _)
RGcd(a, b) == IF b = 0 THEN a ELSE RGcd(b, a % b)
RAbs(x) == IF x < 0 THEN -x ELSE x
RNorm(n, d) == LET g == RGcd(RAbs(n), RAbs(d))  s == IF d < 0 THEN -1 ELSE 1 IN IF n = 0 THEN <<0, 1>> ELSE <<s * (n \div g), s * (d \div g)>>
R(n, d) == RNorm(n, d)
RZero == <<0, 1>>
ROne == <<1, 1>>
\* common denominator through the lcm keeps intermediates small
RLcm(x, y) == (x \div RGcd(x, y)) * y
RAdd(a, b) == LET L == RLcm(a[2], b[2]) IN RNorm(a[1] * (L \div a[2]) + b[1] * (L \div b[2]), L)
RSub(a, b) == LET L == RLcm(a[2], b[2]) IN RNorm(a[1] * (L \div a[2]) - b[1] * (L \div b[2]), L)
RMul(a, b) == LET g1 == RGcd(RAbs(a[1]), b[2])  g2 == RGcd(RAbs(b[1]), a[2])
                  h1 == IF g1 = 0 THEN 1 ELSE g1  h2 == IF g2 = 0 THEN 1 ELSE g2
              IN RNorm((a[1] \div h1) * (b[1] \div h2), (a[2] \div h2) * (b[2] \div h1))
RDiv(a, b) == RMul(a, RNorm(b[2], b[1]))
RNeg(a) == <<-a[1], a[2]>>
RIsNeg(a) == a[1] < 0
RIsZero(a) == a[1] = 0
RSum(s) == FoldLeft(RAdd, RZero, s)
RFromInt(k) == <<k, 1>>
\* ---- LDL^T: state [L, d, ok] updated column by column
LDLStep(A, st, k) ==
  LET n == Len(A)
      dk == RSub(A[k][k], RSum([j \in 1..(k - 1) |-> RMul(RMul(st.L[k][j], st.L[k][j]), st.d[j])]))
      resid(i) == RSub(A[i][k], RSum([j \in 1..(k - 1) |-> RMul(RMul(st.L[i][j], st.L[k][j]), st.d[j])]))
  IN IF ~st.ok THEN st
     ELSE IF RIsNeg(dk) THEN [st EXCEPT !.ok = FALSE]
     ELSE IF RIsZero(dk) THEN
          IF \A i \in (k + 1)..n : RIsZero(resid(i))
          THEN [L |-> [i \in 1..n |-> [j \in 1..n |-> IF j = k THEN (IF i = k THEN ROne ELSE RZero) ELSE st.L[i][j]]], d |-> [st.d EXCEPT ![k] = RZero], ok |-> TRUE]
          ELSE [st EXCEPT !.ok = FALSE]
     ELSE [L |-> [i \in 1..n |-> [j \in 1..n |-> IF j = k THEN (IF i = k THEN ROne ELSE IF i > k THEN RDiv(resid(i), dk) ELSE RZero) ELSE st.L[i][j]]],
           d |-> [st.d EXCEPT ![k] = dk], ok |-> TRUE]
IsPSD(A) == LET n == Len(A) IN
   FoldLeft(LAMBDA st, k : LDLStep(A, st, k), [L |-> [i \in 1..n |-> [j \in 1..n |-> RZero]], d |-> [i \in 1..n |-> RZero], ok |-> TRUE], [k \in 1..n |-> k]).ok
IsSymmetric(A) == \A i, j \in 1..Len(A) : A[i][j] = A[j][i]
RTrace(A) == RSum([i \in 1..Len(A) |-> A[i][i]])
=============================================================================
