-------------------------------- MODULE MC_POVM --------------------------------
(* The tetrahedron (SIC) POVM on one qubit:  E_k = (1/4)(I + n_k . sigma)  with the four vertices of a regular tetrahedron
       n_1 = (0, 0, 1),  n_2 = (2 sqrt2/3, 0, -1/3),  n_3 = (-sqrt2/3, sqrt6/3, -1/3),  n_4 = (-sqrt2/3, -sqrt6/3, -1/3).
   A coordinate is a radical term <<c, m>> = c * sqrt(m) with c rational and m squarefree.  Invariants (exact): the vertices are
   unit vectors (so every E_k is a rank-one positive operator with eigenvalues 0 and 1/2), they sum to zero coordinate-wise
   (grouped by radical), hence sum_k E_k = I; pairwise overlaps n_j . n_k = -1/3 (symmetric informationally complete). *)
EXTENDS Rat, FiniteSets, TLC
T(c, m) == <<c, m>>
Verts == << <<T(RZero, 1), T(RZero, 1), T(ROne, 1)>>,
            <<T(R(2, 3), 2), T(RZero, 1), T(R(-1, 3), 1)>>,
            <<T(R(-1, 3), 2), T(R(1, 3), 6), T(R(-1, 3), 1)>>,
            <<T(R(-1, 3), 2), T(R(-1, 3), 6), T(R(-1, 3), 1)>> >>
Sq(t) == RMul(RMul(t[1], t[1]), RFromInt(t[2]))
\* product of two terms of the same radical (or a zero term): rational
DotTerm(a, b) == IF RIsZero(a[1]) \/ RIsZero(b[1]) THEN RZero ELSE RMul(RMul(a[1], b[1]), RFromInt(IF a[2] = b[2] THEN a[2] ELSE 0))
SameRadical(a, b) == RIsZero(a[1]) \/ RIsZero(b[1]) \/ a[2] = b[2]
VARIABLES k, vert
Init == k \in 1..4 /\ vert = Verts[k]
Next == UNCHANGED <<k, vert>>
Spec == Init /\ [][Next]_<<k, vert>>
UnitOK == RSum([i \in 1..3 |-> Sq(vert[i])]) = ROne
\* coordinate-wise sum over the four vertices, radical by radical
SumZeroOK == \A i \in 1..3 : \A m \in {1, 2, 6} : RSum([j \in 1..4 |-> IF Verts[j][i][2] = m THEN Verts[j][i][1] ELSE RZero]) = RZero
OverlapOK == \A j \in 1..4 : j # k => /\ \A i \in 1..3 : SameRadical(vert[i], Verts[j][i])
                                       /\ RSum([c \in 1..3 |-> DotTerm(vert[c], Verts[j][c])]) = R(-1, 3)
=============================================================================
