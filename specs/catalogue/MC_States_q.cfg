CONSTANTS DMax = 3
NMax = 4
SPECIFICATION Spec
INVARIANT NormOK
INVARIANT TraceOK
INVARIANT PSDOK
INVARIANT PPTOK
