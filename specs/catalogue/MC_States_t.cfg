CONSTANTS DMax = 4
NMax = 5
SPECIFICATION Spec
INVARIANT NormOK
INVARIANT TraceOK
INVARIANT PSDOK
INVARIANT PPTOK
