SPECIFICATION Spec
POSTCONDITION Post
