-------------------------------- MODULE MC_States --------------------------------
(* one state per (constructor, argument) on the parameter grids, both end points included; the state carries the exact
   object.  Invariants: unit norm / trace one, symmetric, positive semidefinite (exact LDL^T), projector of the ket for the
   `return density matrix` option, PPT for the Horodecki families and on the documented PPT range of the Antoine family. *)
EXTENDS States, TLC
CONSTANTS DMax, NMax
VARIABLES cfg, obs
Pyth == {<<R(0, 1), R(1, 1)>>, <<R(3, 5), R(4, 5)>>, <<R(4, 5), R(3, 5)>>, <<R(5, 13), R(12, 13)>>, <<R(12, 13), R(5, 13)>>, <<R(7, 25), R(24, 25)>>, <<R(1, 1), R(0, 1)>>}   \* (b, sqrt(1-b^2))
WernerGrid(d) == {R(-1, 1), R(-1, 2), R(0, 1), R(1, d), R(1, 2), R(3, 4), R(1, 1)}
IsoGrid(d) == {R(-1, d * d - 1), R(0, 1), R(1, d + 1), R(1, 2), R(3, 4), R(1, 1)}
AntGrid == {R(-5, 2), R(-1, 1), R(0, 1), R(1, 2), R(1, 1), R(3, 2), R(2, 1), R(5, 2)}
Kets == {[f |-> "W", n |-> n] : n \in 1..NMax} \cup {[f |-> "GHZ", n |-> n] : n \in 1..NMax} \cup {[f |-> "Bell", n |-> i] : i \in 0..3}
        \cup {[f |-> "maximally_entangled_state", n |-> d] : d \in 2..DMax} \cup {[f |-> "maximally_coherent_state", n |-> d] : d \in 1..DMax}
Mats == {[f |-> "Werner", d |-> d, p |-> a, s |-> RZero] : d \in 2..DMax, a \in UNION {WernerGrid(dd) : dd \in 2..DMax}}
        \cup {[f |-> "Isotropic", d |-> d, p |-> a, s |-> RZero] : d \in 2..DMax, a \in UNION {IsoGrid(dd) : dd \in 2..DMax}}
        \cup {[f |-> "maximally_mixed_state", d |-> d, p |-> RZero, s |-> RZero] : d \in 1..DMax}
        \cup {[f |-> "get_2qutrit_Antoine2022", d |-> 3, p |-> q, s |-> RZero] : q \in AntGrid}
        \cup {[f |-> "get_bes2x4_Horodecki1997", d |-> 0, p |-> bs[1], s |-> bs[2]] : bs \in Pyth}
        \cup {[f |-> "get_bes3x3_Horodecki1997", d |-> 0, p |-> bs[1], s |-> bs[2]] : bs \in Pyth}
KetOf(c) == CASE c.f = "W" -> WKet(c.n) [] c.f = "GHZ" -> GHZKet(c.n) [] c.f = "Bell" -> BellKet(c.n)
              [] c.f = "maximally_entangled_state" -> MaxEntKet(c.n) [] OTHER -> MaxCohKet(c.n)
InRange(c) == CASE c.f = "Werner" -> c.p \in WernerGrid(c.d) [] c.f = "Isotropic" -> c.p \in IsoGrid(c.d) [] OTHER -> TRUE
MatOf(c) == CASE c.f = "Werner" -> Werner(c.d, c.p) [] c.f = "Isotropic" -> Isotropic(c.d, c.p) [] c.f = "maximally_mixed_state" -> MaxMixed(c.d * c.d)
              [] c.f = "get_2qutrit_Antoine2022" -> Antoine(c.p) [] c.f = "get_bes2x4_Horodecki1997" -> Hor24(c.p, c.s) [] OTHER -> Hor33(c.p, c.s)
Init == \/ /\ cfg \in [kind : {"ket"}, c : Kets] /\ \E k \in {KetOf(cfg.c)} : obs = [ket |-> k, dm |-> Proj(k)]
        \/ /\ cfg \in [kind : {"dm"}, c : {m \in Mats : InRange(m)}] /\ \E M \in {MatOf(cfg.c)} : obs = [ket |-> Ket(RZero, <<>>), dm |-> M]
Next == UNCHANGED <<cfg, obs>>
Spec == Init /\ [][Next]_<<cfg, obs>>
NormOK == cfg.kind = "ket" => Norm2(obs.ket) = ROne
TraceOK == RTrace(obs.dm) = ROne /\ IsSymmetric(obs.dm)
PSDOK == IsPSD(obs.dm)
PPTDims(c) == CASE c.f = "get_bes2x4_Horodecki1997" -> <<2, 4>> [] c.f = "get_bes3x3_Horodecki1997" -> <<3, 3>> [] OTHER -> <<3, 3>>
\* Horodecki families: PPT on the whole range; Antoine family: PPT exactly for |q| <= 3/2
PPTOK == /\ (cfg.kind = "dm" /\ cfg.c.f \in {"get_bes2x4_Horodecki1997", "get_bes3x3_Horodecki1997"}) => IsPSD(PT(obs.dm, PPTDims(cfg.c)[1], PPTDims(cfg.c)[2]))
         /\ (cfg.kind = "dm" /\ cfg.c.f = "get_2qutrit_Antoine2022") =>
               (IsPSD(PT(obs.dm, 3, 3)) <=> (~RIsNeg(RSub(R(3, 2), cfg.c.p)) /\ ~RIsNeg(RAdd(R(3, 2), cfg.c.p))))
=============================================================================
