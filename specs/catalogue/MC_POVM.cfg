SPECIFICATION Spec
INVARIANT UnitOK
INVARIANT SumZeroOK
INVARIANT OverlapOK
