-------------------------------- MODULE Trace_Catalogue --------------------------------
(* recorded outputs validated against the catalogue contracts (code -> spec):
     upb    : an unextendible-product-basis object, per party [c, vectors] meaning integer vectors / sqrt(c):
              every local vector normalised, every pair of product vectors orthogonal (some party has zero overlap),
              hence the complementary projector has rank D - |UPB|; its partial transposes are again complements of
              orthonormal product sets (a (x) conj b), so it is PPT - MC_UPB states this as the model theorem.
     closed : closed-form REE / EOF / GME of Werner and isotropic states: exactly zero on the separable range
              (alpha <= 1/d resp. alpha <= 1/(d+1), end point included), strictly positive outside;
     closed_near : the same closed forms within 2^-10 .. 2^-50 of the threshold, on both sides;
     closed_shape : monotone, continuous and with the documented end value on the entangled range;
     wtype  : the W-type ket of a coefficient vector (see WtypeOK);
     bases  : a catalogued family of orthonormal measurement bases (Chebyshev 4PB / 5PB, element-probing eq. 9), returned as one list
              of projectors: the documented number of blocks of d projectors, every projector Hermitian, positive semidefinite of rank
              one (Gram certificate with one column, Sets.tla), mutually orthogonal inside a block, every block resolving the identity. *)
EXTENDS Rat, Sets, TLC, Json, IOUtils
Events == JsonDeserialize(IOEnv.TRACE_FILE)
VARIABLE l
Dot(u, v) == FoldLeft(LAMBDA a, k : a + u[k] * v[k], 0, [k \in 1..Len(u) |-> k])
\* complex integer vectors are given as <<re, im>> pairs: Hermitian overlap
CDot(u, v) == <<FoldLeft(LAMBDA a, k : a + u[k][1] * v[k][1] + u[k][2] * v[k][2], 0, [k \in 1..Len(u) |-> k]),
                FoldLeft(LAMBDA a, k : a + u[k][1] * v[k][2] - u[k][2] * v[k][1], 0, [k \in 1..Len(u) |-> k])>>
UpbOK(e) == LET np == Len(e.parties)  n == e.size IN
   /\ \A p \in 1..np : Len(e.parties[p].g) = n /\ \A i \in 1..n : CDot(e.parties[p].g[i], e.parties[p].g[i]) = <<e.parties[p].c[i], 0>>
   /\ \A i, j \in 1..n : i # j => \E p \in 1..np : CDot(e.parties[p].g[i], e.parties[p].g[j]) = <<0, 0>>
   /\ e.rank = e.dim - n
SepW(d, a) == ~RIsNeg(RSub(R(1, d), a))            \* alpha <= 1/d
SepI(d, a) == ~RIsNeg(RSub(R(1, d + 1), a))        \* alpha <= 1/(d+1)
ClosedOK(e) == LET a == R(e.num, e.den)  sep == IF e.family = "Werner" THEN SepW(e.d, a) ELSE SepI(e.d, a) IN
   /\ e.finite
   /\ sep => e.zero
   /\ ~sep => (~e.zero /\ e.positive)
\* the neighbourhood of the threshold: alpha = fl(threshold) + k / 2^e with 10 <= e <= 50 (|fl(t) - t| <= 2^-55, so the side of the
\* threshold is the sign of k).  On the separable side the value is exactly zero; on the entangled side it is finite, not
\* negative (beyond rounding) and - the closed forms are monotone in alpha - not above the value at threshold + 1/100.
ClosedNearOK(e) == /\ e.k # 0 /\ e.e >= 10 /\ e.e <= 50 /\ e.finite
                   /\ e.k < 0 => e.zero
                   /\ e.k > 0 => e.nonneg /\ e.below
\* the shape of a closed form on the entangled range, sampled on a uniform grid from the threshold to alpha = 1 (values rounded at scale
\* e.S): a measure of entanglement of a one-parameter family that moves away from the separable set is non-decreasing, has no jump (no
\* step larger than 15% of the whole range - the branches of a piecewise formula must meet) and ends at the documented end value.
ClosedShapeOK(e) == LET n == Len(e.vals)  span == e.vals[n] - e.vals[1] IN
   /\ n >= 50 /\ e.vals[1] >= -2 /\ e.vals[1] <= 2                        \* starts at zero on the threshold
   /\ \A k \in 1..(n - 1) : e.vals[k + 1] >= e.vals[k] - 2 /\ 20 * (e.vals[k + 1] - e.vals[k]) <= 3 * span + 40
   /\ (e.endval >= 0 => (e.vals[n] - e.endval <= 2 /\ e.endval - e.vals[n] <= 2))
\* upbnum : a BIPARTITE unextendible product basis whose vectors are not single-radical (roots of unity, nested radicals), decided on the
\*          outputs rounded to Gaussian integers at scale S: local vectors normalised, every pair of members orthogonal on some party, the
\*          recorded product vectors are the products of the local ones, the returned state is the normalised complementary projector
\*          (I - sum |v><v|)/(D - n) entry by entry, and the claims (Sets.tla) certify Hermitian, trace one, PSD of rank <= D - n, PPT.
InnerG(u, v) == GSum([k \in 1..Len(u) |-> GMul(GConj(u[k]), v[k])])
UpbNumOK(e) == LET n == e.size  S == e.S  dA == Len(e.A[1])  dB == Len(e.B[1])  D == dA * dB IN
   /\ Len(e.A) = n /\ Len(e.B) = n /\ Len(e.prod) = n /\ e.dim = D /\ Len(e.bes) = D
   /\ \A i \in 1..n : IAbs(Norm2(e.A[i]) - S * S) <= Tol2(S) /\ IAbs(Norm2(e.B[i]) - S * S) <= Tol2(S)
   /\ \A i, j \in 1..n : i < j => (Near(InnerG(e.A[i], e.A[j]), GZero, Tol2(S)) \/ Near(InnerG(e.B[i], e.B[j]), GZero, Tol2(S)))
   /\ \A i \in 1..n : \A a \in 1..dA : \A b \in 1..dB : Near(GScale(S, e.prod[i][(a - 1) * dB + b]), GMul(e.A[i][a], e.B[i][b]), 2 * S)
   /\ \A r, c \in 1..D : Near(GScale((D - n) * S, e.bes[r][c]),
                               GAdd(IdEntry(r, c, S * S), GNeg(GSum([i \in 1..n |-> GMul(e.prod[i][r], GConj(e.prod[i][c]))]))), Tol2(S))
   /\ {"hermitian", "trace1", "gram", "ppt"} \subseteq {e.claims[i].tag : i \in 1..Len(e.claims)}
   /\ \A i \in 1..Len(e.claims) : ClaimOK(e.claims[i], S) /\ (e.claims[i].tag \in {"gram"} => e.claims[i].cols = D - n)
NumBases(fn, flag) == CASE fn = "get_chebshev_orthonormal" -> (IF flag THEN 5 ELSE 4) [] fn = "get_element_probing_POVM_eq9" -> 4 [] OTHER -> -1
BasesOK(e) == LET d == e.d  nb == NumBases(e.fn, e.flag) IN
   /\ Len(e.Ps) = nb * d /\ Len(e.As) = nb * d
   /\ \A k \in 1..(nb * d) : /\ Len(e.Ps[k]) = d /\ HermOK(e.Ps[k]) /\ GramOK(e.As[k], e.Ps[k], e.S, 1)
   /\ \A b \in 0..(nb - 1) : LET blk == [k \in 1..d |-> e.Ps[b * d + k]] IN SumOK(blk, e.S) /\ OrthoMatsOK(blk, e.S)
\* wtype : numqi.state.Wtype(c) for a Gaussian-integer coefficient vector c (any dtype the caller used): the ket of length 2^n whose
\*         amplitude at the basis state with the single excitation k (index 2^k, k = 0..n-1) is c_k / |c| and zero elsewhere - a POSITIVE
\*         real multiple of c of unit norm.  Decided on the output rounded at scale S without square roots: cross-ratios, norm, phase.
IsPow2Idx(i) == \E k \in 0..20 : i = 2^k
WtypeOK(e) == LET n == Len(e.c)  S == e.S  a == [k \in 1..n |-> e.v[2^(k - 1) + 1]]
                  L1(z) == IAbs(z[1]) + IAbs(z[2])
                  ov == FoldLeft(LAMBDA acc, k : GAdd(acc, GMul(a[k], GConj(e.c[k]))), <<0, 0>>, [k \in 1..n |-> k]) IN
   /\ Len(e.v) = 2^n
   /\ \A i \in 1..Len(e.v) : IsPow2Idx(i - 1) \/ Near(e.v[i], <<0, 0>>, 1)
   /\ \A j, k \in 1..n : Near(GMul(a[j], e.c[k]), GMul(a[k], e.c[j]), 2 * (L1(e.c[j]) + L1(e.c[k])))       \* a is proportional to c
   /\ IAbs(Norm2(a) - S * S) <= Tol2(S)                                                                   \* unit norm
   /\ ov[1] > 0 /\ IAbs(ov[2]) <= 2 * FoldLeft(LAMBDA acc, k : acc + L1(e.c[k]), 0, [k \in 1..n |-> k])   \* positive real factor
Valid(e) == CASE e.op = "wtype" -> WtypeOK(e) [] e.op = "upbnum" -> UpbNumOK(e) [] e.op = "bases" -> BasesOK(e) [] e.op = "closed_shape" -> ClosedShapeOK(e) [] e.op = "upb" -> UpbOK(e) [] e.op = "closed" -> ClosedOK(e) [] e.op = "closed_near" -> ClosedNearOK(e) [] OTHER -> FALSE
Init == l = 1 /\ TLCSet(1, 0)
Next == /\ l <= Len(Events)
        /\ IF Valid(Events[l]) THEN TLCSet(1, TLCGet(1) + 1) ELSE PrintT(<<"REJECT", l, Events[l].op>>)
        /\ l' = l + 1
Spec == Init /\ [][Next]_l
Post == PrintT(<<"ACCEPTED", TLCGet(1), Len(Events)>>)
=============================================================================
