-------------------------------- MODULE States --------------------------------
(* The named states of numqi.state from their textbook definitions, as exact objects.
   A ket is [c2, g]: the vector  sqrt(c2) * g  with c2 rational and g an integer vector.
   A density matrix is a matrix of rationals.  Two-party operators use the product basis |i>|j> -> index i*d + j. *)
EXTENDS Rat, FiniteSets
Ket(c2, g) == [c2 |-> c2, g |-> g]
Norm2(k) == RMul(k.c2, RFromInt(FoldLeft(LAMBDA a, x : a + x * x, 0, k.g)))
Proj(k) == [i \in 1..Len(k.g) |-> [j \in 1..Len(k.g) |-> RMul(k.c2, RFromInt(k.g[i] * k.g[j]))]]
PopCount(x, n) == Cardinality({q \in 0..(n - 1) : (x \div 2^q) % 2 = 1})
WKet(n) == Ket(R(1, n), [x \in 1..2^n |-> IF PopCount(x - 1, n) = 1 THEN 1 ELSE 0])
GHZKet(n) == Ket(R(1, 2), [x \in 1..2^n |-> IF x = 1 \/ x = 2^n THEN 1 ELSE 0])
BellKet(i) == Ket(R(1, 2), CASE i = 0 -> <<1, 0, 0, 1>> [] i = 1 -> <<1, 0, 0, -1>> [] i = 2 -> <<0, 1, 1, 0>> [] OTHER -> <<0, 1, -1, 0>>)
MaxEntKet(d) == Ket(R(1, d), [x \in 1..(d * d) |-> IF (x - 1) \div d = (x - 1) % d THEN 1 ELSE 0])
MaxCohKet(d) == Ket(R(1, d), [x \in 1..d |-> 1])
\* maximally mixed state of a system of dimension D
MaxMixed(D) == [i \in 1..D |-> [j \in 1..D |-> IF i = j THEN R(1, D) ELSE RZero]]
\* swap operator on C^d (x) C^d
SwapE(d, r, c) == IF (r - 1) \div d = (c - 1) % d /\ (r - 1) % d = (c - 1) \div d THEN 1 ELSE 0
\* Werner(d, alpha) = (I - alpha SWAP) / (d^2 - d alpha),   alpha in [-1, 1]
Werner(d, al) == LET den == RSub(RFromInt(d * d), RMul(RFromInt(d), al)) IN
   [r \in 1..(d * d) |-> [c \in 1..(d * d) |-> RDiv(RSub(RFromInt(IF r = c THEN 1 ELSE 0), RMul(al, RFromInt(SwapE(d, r, c)))), den)]]
\* Isotropic(d, alpha) = (1 - alpha)/d^2 I + alpha |Phi><Phi|,  |Phi> = sum |ii>/sqrt(d),  alpha in [-1/(d^2-1), 1]
IsDiagIdx(d, x) == (x - 1) \div d = (x - 1) % d
Isotropic(d, al) == [r \in 1..(d * d) |-> [c \in 1..(d * d) |->
   RAdd(IF r = c THEN RDiv(RSub(ROne, al), RFromInt(d * d)) ELSE RZero, IF IsDiagIdx(d, r) /\ IsDiagIdx(d, c) THEN RDiv(al, RFromInt(d)) ELSE RZero)]]
\* two-qutrit family of Antoine et al. 2022
Antoine(q) == LET bp == RDiv(RAdd(R(5, 2), q), RFromInt(21))  bm == RDiv(RSub(R(5, 2), q), RFromInt(21))  t == R(2, 21)
                  dg == <<t, bm, bp, bp, t, bm, bm, bp, t>> IN
   [r \in 1..9 |-> [c \in 1..9 |-> IF r = c THEN dg[r] ELSE IF r \in {1, 5, 9} /\ c \in {1, 5, 9} THEN t ELSE RZero]]
\* Horodecki 1997 bound entangled states; s = sqrt(1 - b^2) must be supplied rational (b, s on a Pythagorean grid)
Hor24(b, s) == LET x == RDiv(b, RAdd(RMul(RFromInt(7), b), ROne))  den2 == RAdd(RMul(RFromInt(14), b), RFromInt(2)) IN
   [r \in 1..8 |-> [c \in 1..8 |->
      IF r = c THEN (IF r \in {5, 8} THEN RDiv(RAdd(ROne, b), den2) ELSE x)
      ELSE IF (r + 5 = c /\ r <= 3) \/ (c + 5 = r /\ c <= 3) THEN x
      ELSE IF {r, c} = {5, 8} THEN RDiv(s, den2) ELSE RZero]]
Hor33(a, s) == LET x == RDiv(a, RAdd(RMul(RFromInt(8), a), ROne))  den2 == RAdd(RMul(RFromInt(16), a), RFromInt(2)) IN
   [r \in 1..9 |-> [c \in 1..9 |->
      IF r = c THEN (IF r \in {7, 9} THEN RDiv(RAdd(ROne, a), den2) ELSE x)
      ELSE IF r \in {1, 5, 9} /\ c \in {1, 5, 9} THEN x
      ELSE IF {r, c} = {7, 9} THEN RDiv(s, den2) ELSE RZero]]
\* partial transpose on the second party of a (dA x dB) operator
PT(M, dA, dB) == [r \in 1..(dA * dB) |-> [c \in 1..(dA * dB) |->
   M[((r - 1) \div dB) * dB + ((c - 1) % dB) + 1][((c - 1) \div dB) * dB + ((r - 1) % dB) + 1]]]
=============================================================================
