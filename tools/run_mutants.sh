#!/bin/sh
# tools/run_mutants.sh [Cxx ...]   run the mutant catalogue (tools/mutants.tsv) and every seeded change (seeded/*/patch.diff) in the scratch
# worktree; prints one line per mutant: CAUGHT / MISSED / DID-NOT-APPLY.  Nothing in /repo is touched.
cd /verif
want="$*"
grep -v '^#' tools/mutants.tsv | while IFS="$(printf '\t')" read -r pid file expr what; do
  [ -n "$want" ] && ! echo " $want " | grep -q " $pid " && continue
  out=$(tools/mutant_wt.sh "$pid" "$expr" "$file" 3 2>&1)
  if echo "$out" | grep -q "DID NOT APPLY"; then r=DID-NOT-APPLY; elif echo "$out" | grep -q "^VIOLATION"; then r=CAUGHT; else r=MISSED; fi
  echo "$r $pid mutant: $what"
done
for d in seeded/*/; do
  id=$(basename $d); pid=${id%%-*}
  [ -n "$want" ] && ! echo " $want " | grep -q " $pid " && continue
  out=$(tools/mutant_wt.sh "$pid" "/verif/$d/patch.diff" - 3 2>&1)
  if echo "$out" | grep -q "DID NOT APPLY"; then r=DID-NOT-APPLY; elif echo "$out" | grep -q "^VIOLATION"; then r=CAUGHT; else r=MISSED; fi
  echo "$r $pid seed: $id"
done
