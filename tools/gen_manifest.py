#!/usr/bin/env python3
"""Regenerates MANIFEST.json from the table below (one source of truth; keeps the file schema-valid)."""
import json, os
ROOT = os.path.dirname(os.path.dirname(os.path.abspath(__file__)))
ALL = ['C%02d' % i for i in range(1, 21)]

CLAIMED = {
 'C08': dict(
    cat='model_checking', ref='6/C08',
    text='TLC enumerates the complete phased Pauli group for n=1,2 (n=3 thorough) as a state machine and proves on every state / ordered pair that the binary algebra equals the matrix algebra over Z[i] and that all conversion cycles are the identity; every state and every ordered pair is then replayed into numqi.gate (single and batched code paths) and compared exactly; recorded calls on random operators up to n=12 (index forms up to 4^31) are validated event by event by TLC against the same specification.',
    note='Trusted: TLC/SANY, the TLA+ value parser, exact integer comparison in Python. Exhaustive for n<=2 (quick) / n<=3 (thorough); sampled beyond.',
    technique='TLA+ spec of the Pauli group + TLC exhaustive model checking; state-graph replay into the code and TLC trace validation of recorded calls'),

 'C03': dict(
    cat='model_checking', ref='6/C03',
    text='The embedding of a k-qubit operator (ordered targets, control set) is specified by its textbook definition over Z[w]; TLC enumerates EVERY configuration (n<=3 quick, n<=4 thorough; all ordered target tuples of size 1..3, all control subsets, all matrix units) and checks a second index-relabelling formulation against the definition; each configuration is replayed through state.apply_gate / apply_control_n_gate / dm.apply_gate / dm.operator_expectation / the Circuit-level generic and controlled methods on all basis columns and on non-unit superpositions (linearity then covers every state and gate matrix). A TLA+ state machine of the Circuit class (one action per public method family incl. parametrized, multi-controlled, generic-matrix, user-registered gates, append_gate, extend_circuit, shift_qubit_index_) is simulated by TLC with exact Z[w] amplitudes (invariants: norm, unitarity, Unitary e0 = Run, definition = fast path); every behaviour is stepped through a real Circuit object comparing apply_state after every call, to_unitary, all Born marginals and a Pauli-string matrix element.',
    note='Also: Circuit histories with placeholder gates / setP / re-use / extend / shift, and MC_Graph (every simple graph on <= 4 (5) vertices: closed-form amplitudes and K_i stabilizers as invariants) replayed into build_graph_state. Trusted: TLC/SANY, tolerance 1e-9 on complex128, literal copies of the generic test matrices in harness/qsim.py. Rotation angles on the pi/2 (phases pi/4) grid; routing is value-independent.',
    technique='TLA+ spec of operator embedding and of the Circuit state machine over Z[w]; TLC exhaustive configuration enumeration + simulation; behaviours replayed step by step into the code'),
 'C04': dict(
    cat='model_checking', ref='6/C04',
    text='Circuit losses L = Re<phi|U(theta)|0> are differentiated exactly in the specification by the product rule in FORWARD mode over Z[w] (no reverse sweep in the spec; derivative matrices of rx/ry/rz/rzz/u3 and their controlled forms written out, controlled derivative = zero off the control subspace; the formulas are self-checked in TLC by the exact shift rule dL/dtheta = [L(theta+pi)-L(theta-pi)]/4). TLC simulates random parametrised circuits with plain, controlled, shared (same gate object re-appended) and placeholder parameter cells; each behaviour is built as a real Circuit/CircuitTorchWrapper model, backward() is run and every .grad entry and the flat gradient of hf_model_wrapper are compared with the exact values. The Knill-Laflamme inner product (forward and hand-written backward) is compared with the formal derivative of the sesquilinear form computed by TLC on Gaussian-integer code words. The PSD matrix square root and the repeated root used by the Pade logarithm are checked on a rational family A = Q diag(t^(2^r)) Q^T (Pythagorean Givens rotations, degenerate spectra included): TLC proves root^(2^r) = A and that the exact gradient satisfies the Sylvester equation(s), and forward/backward of PSDMatrixSqrtm / _PSDMatrixSqrtmRepeat (single and batched) are compared with it.',
    note='Angles on the pi/2 grid (phases pi/4). NOT covered: Pade logm backward as a whole (its repeated-sqrt block is covered), singular PSD inputs, losses of the variational models, a trigonometric derivative error that vanishes on the grid. Tolerance 1e-9.',
    technique='TLA+ forward-mode derivative spec over Z[w] + TLC simulation of parametrised circuits; behaviours replayed into torch autograd and compared'),
 'C05': dict(
    cat='model_checking', ref='6/C05',
    text='A calculus of how separable states are built (mixtures of product projectors with exact Gaussian-integer vectors and integer weights; closed under adding product terms, local unitaries, party permutations) is specified in TLA+; TLC simulates construction histories over dims (2,2),(2,3),(3,2),(3,3),(2,4),(2,2,2),(2,3,2) incl. computational-basis, repeated, nearly parallel and pure product terms, checking the class-closure and certificate invariants. Each constructed object is handed to every criterion of the library (is_ppt, is_generalized_ppt, reduction and swap witnesses, negativity, two-qubit concurrence/EOF/GME, symmetric and bosonic extension SDPs on a subset) and the recorded evaluations are validated by TLC against the contract: TLC itself establishes the provenance from the exact data (well-formed product mixture => SEP; Werner/isotropic with rational alpha => SEP or NPT by the exact threshold) and an evaluation event is enabled only if its result is allowed for that provenance (SEP: every verdict passes, every closed-form measure finite and zero; NPT families: PPT test fails, measures non-zero).',
    note='Exact subfamily (components in -2..2); closed-form measures count as zero when |v|<=1e-6; SDP verdicts inherit the solver tolerance; not covered: Haar-random irrational product vectors.',
    technique='TLA+ provenance calculus of separable states; TLC simulation of construction histories; TLC trace validation of recorded criterion evaluations against the contract'),
 'C06': dict(
    cat='model_checking', ref='6/C06',
    text='(i) Rays with exactly known spectra (Werner, isotropic, Bell-diagonal, diagonal states; dims (2,2),(2,3),(3,3),(2,4)): TLC computes the squared state-space and PPT boundary lengths as exact rationals from the spectra of rho and of its partial transpose (self-checked: both spectra are trace-one with equal Frobenius norm, PPT boundary inside the state space); get_density_matrix_boundary / get_ppt_boundary (single and batched) are compared with them, states at beta(1-1e-5) must pass and at beta(1+1e-5) fail the library\'s own PSD / PPT tests, and hf_interpolate_dm must land at the requested Gell-Mann distance. (ii) The README hierarchy is specified as a partial order of classes (CHA, SEP, k-(bosonic-)extendible with/without PPT, PUREB(k), PPT, DM); TLC checks it is a partial order with top DM and bottom CHA, derives from A<=B the constraint beta_A <= beta_B and validates the boundary lengths recorded for every method along random rays, and validates that every object produced by the inner models (PureBosonicExt(k), AutodiffCHAREE) at arbitrary parameter points is accepted by every outer test it must satisfy.',
    note='SDP optima trusted to the solver tolerance (order constraints with slack 2e-5, stated direction only). CHABoundaryBagging only in thorough.',
    technique='TLA+ partial order of the detection hierarchy + exact rational boundary model; TLC trace validation of recorded boundary lengths and inner-model verdicts; exact thresholds replayed into the code'),
 'C07': dict(
    cat='model_checking', ref='6/C07',
    text='TLC derives the elementary gate tableaux from the dense gate matrices by conjugation over Z[i], generates the complete 1- and 2-qubit Clifford groups modulo phase by closure (24 and 11520 states = every (r,S) with S in Sp(2n,F2) and every phase vector) checking the phase-exact automorphism law and composition = sequential application in every state, and enumerates every interleaving of append/query/apply/export of the CliffordCircuit state machine up to a bounded length. Every group element is replayed through the real CliffordCircuit, apply_clifford_on_pauli, clifford_array_to_F2 and the state-vector simulator (U^dagger P U); every history is executed on a real object and the recorded trace is validated by TLC against the cache-free specification, so a query that does not reflect all appended gates is rejected.',
    note='Trusted: TLC/SANY, value parser, exact integer comparison; dense comparisons use tolerance 1e-9. Exhaustive for n<=2 and histories of length <=3 (<=4 with vocabulary {H,S,CX}; full vocabulary in thorough); random histories to length 40 on <=4 qubits.',
    technique='TLA+ state-machine spec of CliffordCircuit + Pauli-automorphism tableau; TLC exhaustive closure/interleaving model checking; replay of the state graph into the code; TLC trace validation of recorded histories'),
 'C09': dict(
    cat='model_checking', ref='6/C09',
    text='TLC generates Sp(2n,F2) as a state machine (closure under all transvections), checks the symplectic condition and the two-sided closed-form inverse in every state and that the number of states equals the order formula (n=1,2 also against a brute-force count over all binary matrices; n=3 in thorough). The real from_int_tuple/to_int_tuple/inverse are then driven over the COMPLETE mixed-radix index domain in lexicographic order and the recorded trace is validated by TLC (successor tuple, symplectic image, left inverse, two-sided inverse): with |domain| = |group| this is bijectivity. Every symplectic matrix of the model is mapped back to an index; find_transvection is validated on every ordered pair of non-zero vectors.',
    note='Trusted: TLC/SANY, JSON trace encoding (rows packed as integers < 2^20). Complete for n<=2 (quick), n<=3 enumeration and n<=4 vector pairs (thorough); random tuples to n=10.',
    technique='TLA+ spec of Sp(2n,F2) + TLC exhaustive group generation; TLC trace validation of the complete recorded enumeration'),
 'C10': dict(
    cat='model_checking', ref='6/C10',
    text='Seeded generation is specified as a state machine over call histories (global numpy/python/torch generators, unseeded calls, seeded calls, fresh seeded generator objects; a seeded call is enabled iff its output equals the memoised output for that seed). TLC enumerates all 16105 histories of length <=4; for every public function of numqi.random and every optional-argument branch (53 call patterns, plus measure_quantum_vector, MeasureGate, CliffordCircuit.random_*, and in thorough CHABoundaryBagging.solve / optimize.minimize) histories containing two equal-seed calls are executed against the real code, digests of the raw results recorded, and the traces validated by TLC - a rejected SeededCall/PassGenerator event is a reproducibility violation. Membership of the DISCRETE generators (rand_F2 flags, rand_SpF2, rand_Clifford_group, rand_pauli Hermiticity, rand_adjacent_matrix) is decided exactly by TLC on recorded outputs.',
    note='NOT covered: membership of continuous outputs (unitary, PSD, POVM, Kraus...) - analytic. Bit-identical digests presume deterministic BLAS (torch threads pinned to 1). 14 histories per pattern in quick, 150 in thorough.',
    technique='TLA+ state machine of seeded generation over call histories; TLC exhaustive history enumeration; TLC trace validation of recorded digests and of discrete outputs'),
 'C11': dict(
    cat='model_checking', ref='6/C11',
    text='Projective measurement is specified over exact Z[w] state vectors (Born marginals in Z[sqrt2], projection onto the outcome). TLC enumerates every n<=5 (6 thorough), every non-empty ascending qubit subset and ten structured state families (basis, product, GHZ, W, graph, zero-probability outcomes, Clifford+T), checking the measurement axioms on the model (probabilities real and summing to the norm, repeated measurement idempotent, projections resolve the state); for each configuration the real measure_quantum_vector is run over seeds until every outcome of the support was seen (remaining outcomes are forced through a Generator subclass) and probabilities, outcome membership, post-measurement state and the repeated measurement are compared with the exact values. Mid-circuit: TLC simulates circuits with measure gates, drawing outcomes from the support of the state at that point; the programs are replayed through real Circuit/MeasureGate objects and the recorded bitstr/probability/final state compared.',
    note='Trusted: TLC/SANY, tolerance 1e-9; forced outcomes bypass only the RNG draw (np_rng.choice), which C10 covers.',
    technique='TLA+ spec of projective measurement over Z[w]; TLC exhaustive enumeration of (n, subset, state family) + simulation of circuits with measurement; replay into the code'),
 'C12': dict(
    cat='model_checking', ref='6/C12',
    text='Channels are specified from Kraus operators with Gaussian-integer entries in the documented index conventions (Choi (in,out,in,out), super-operator on row-major vec). TLC enumerates instances (dim_in, dim_out in 1..3 incl. non-square, 1..2 terms; 1..4 x 1..4 thorough; plus trace-preserving integer families) and proves on each that the three apply definitions agree on every matrix unit, the Choi<->super reshuffles are mutually inverse, the Choi matrix is Hermitian and trace preservation <=> Tr_out C = I. Every instance is replayed through all conversion and apply routines (numpy and torch where offered); Kraus forms obtained back are judged through the channel they define; the Bloch map through the C16-verified Gell-Mann coordinates; built-in noise channels at rational rates. Contractivity is decided on the classical subdomain (diagonal rational states x relabelling channels, d=4) where trace distance and fidelity are exact rationals: TLC proves monotonicity/symmetry/range on the exact values and get_trace_distance/get_fidelity are compared with them before and after the channel.',
    note='Qubit pairs: MC_Qubit takes every rational Bloch-ball point with rational purity defect and dephasing / depolarizing / amplitude-damping / rational unitaries as affine maps; TLC proves trace-distance contraction and fidelity monotonicity exactly (quadratic irrationals compared by squaring) and the exact values are replayed into apply_*_op, get_trace_distance, get_fidelity. NOT covered: relative / von Neumann entropy (logarithms), contractivity for pairs beyond one qubit outside the classical subdomain. Tolerance 1e-9 / 1e-8 (1e-6 at rank-deficient arguments).',
    technique='TLA+ spec of channel representations over Z[i], of classical contractivity over Q and of the qubit Bloch-ball affine channel model; TLC exhaustive instance enumeration; expected tables replayed into the code'),
 'C13': dict(
    cat='model_checking', ref='6/C13',
    text='Two exactly solvable two-qubit families are specified: Bell-diagonal states with integer weights (all ranks, separable-threshold and near-threshold weights) conjugated by local phased permutations, and pure states with Gaussian-integer amplitudes. TLC enumerates the grid and proves on every state: closed forms C = max(0, 2 p_max - 1), negativity = max(0, p_max - 1/2) lie in their ranges, C > 0 <=> negativity > 0 <=> NPT, and the partial transpose is PSD exactly when p_max <= 1/2 (exact rational LDL^T). Each state is replayed: get_concurrence_2qubit / get_negativity / get_eof_2qubit / get_gme_2qubit / is_ppt against the exact values and their defining monotone relations (finiteness, ranges, zero pattern, local-unitary invariance), get_concurrence_pure / get_eof_pure and the reduction of the mixed-state formulas on projectors. Convex-roof models (EOF, concurrence, GME, linear entropy) are evaluated at random parameter points of three scales with ensemble sizes max(rank,2)..8 and must never fall below the exact closed-form value.',
    note='Exact families only (generic rank-4 states outside the Bell-diagonal LU orbit not covered). Tolerances 1e-6 (closed forms), 1e-7 slack for the upper bound.',
    technique='TLA+ exact model of Bell-diagonal and pure two-qubit states with LDL^T PPT proofs; TLC exhaustive grid; replay into closed forms and variational models'),
 'C14': dict(
    cat='model_checking', ref='6/C14',
    text='Every Cayley table the library constructs (S_n, A_n, D_3..D_12, C_2..C_12, (Z/n)^* n<=24, V4, Q8) is exported and the group axioms are evaluated by TLC over ALL element triples; the group is identified by isomorphism invariants (order, element-order profile, commutativity) computed by TLC from the table and from the reference construction (permutations / presentations) in the spec; the left-regular form is checked to be a faithful homomorphism. Irreducible blocks: sum d^2 = |G|, #irreps = #classes (classes computed by TLC), and for groups whose characters are all rational (decided by TLC from the table) the integer characters must be class functions satisfying row orthogonality in Z. p(N) for N<=60 against the pentagonal recurrence, the Young-diagram list against the enumerated partition set, and the Young lattice is model-checked as a state machine (every standard filling with N<=8 / 10 is a state; branching rule and standardness invariants): get_all_young_tableaux must return exactly the states of each shape, distinct, hook-length many.',
    note='NOT covered: entry-wise unitarity/homomorphism of the floating irreducible blocks, irrational character values. S_5/A_5 (order 120/60) only in thorough.',
    technique='TLA+ specs of finite groups, partitions and the Young lattice; TLC exhaustive evaluation over all triples / all lattice states; TLC trace validation of recorded library outputs'),
 'C15': dict(
    cat='model_checking', ref='6/C15',
    text='ZYZ Euler rotations are evaluated exactly on a Pythagorean half-angle grid (12 x 4 x 12 = 576 triples; beta = 0 and beta = pi exactly with alpha+-gamma in every quadrant): TLC proves on every grid element that R is orthogonal with det +1, U is special unitary, and the polynomial SU(2)->SO(3) map sends U and -U to R. Each element is replayed: angle_to_so3/su2 against the exact matrices, so3_to_angle / su2_to_angle / so3_to_su2 must rebuild the rotation (SU(2) up to the documented sign), su2_to_so3, batches mixing generic and degenerate rotations must convert element-wise without raising, and get_su2_irrep (matrix and angle forms, j2<=3) is compared entrywise with the symmetric power Sym^n(U) in the Dicke basis (numerators computed exactly by TLC, radical normalisation sqrt(C(n,k)C(n,k\'))). Angular-momentum operators for j2<=10: TLC proves the su(2) commutator and Casimir identities on the integer squares; the library matrices are compared with them.',
    note='NOT covered: Clebsch-Gordan coefficients (sympy values), spin-j exactly for j2>3 (32-bit overflow), D(U1U2)=D(U1)D(U2) on the code side only numerically at off-grid products. Tolerances 1e-9 forward, 1e-7 after angle extraction.',
    technique='TLA+ exact rational model of SO(3)/SU(2) Euler rotations and symmetric-power spin matrices; TLC exhaustive grid enumeration; replay into the code'),
 'C16': dict(
    cat='model_checking', ref='6/C16',
    text='The generalised Gell-Mann basis is specified in the documented order as G_k = c_k M_k with rational c_k^2 and Gaussian-integer M_k; TLC proves for every d=2..6 (8 thorough): d^2 matrices, Hermitian, pairwise trace-orthogonal, c_k^2 Tr(M_k^2)=2, and completeness (synthesis after analysis reproduces every matrix unit, denominators cleared). The spec basis is the reference for all_gellmann_matrix / gellmann_matrix (order and entries, tensor_n=2 for d<=3), matrix_to_gellmann_basis on every matrix unit and gellmann_basis_to_matrix on every unit vector for batch shapes (), (k,), (k,l) in numpy and torch (float64; complex64/float32 at 2e-5), round trips on Gaussian-integer inputs, and the density-matrix helpers (Bloch vector, norm, squared distance) on rational density matrices.',
    note='Linearity extends agreement on units to all matrices. Tolerances 1e-9 / 2e-5.',
    technique='TLA+ spec of the Gell-Mann basis with exact rational normalisation; TLC proves orthogonality/completeness per dimension; basis replayed into the code'),
 'C17': dict(
    cat='model_checking', ref='6/C17',
    text='The partial trace is specified on matrix units by the mixed-radix index contraction; TLC enumerates every dimension list (length 2..3 entries 2..3 quick; length <=4 entries 2..4 thorough) and every keep subset, checking trace preservation and two-step = one-step on all units, and emits the routing table that numqi.utils.partial_trace is compared with (Gaussian-integer operators, every matrix unit for small dimensions). Dicke states: TLC derives occupation order, orbits (partition of the basis, size = multinomial, closed under qudit swaps) and proves the integer identity (count)^2 n^2 = a_r b_s M(a) M(b) that equates the library closed form sqrt(a_r b_s)/n with the reduction coefficient defined by counting; get_dicke_klist/basis/Dicke/get_dicke_number, both forms of the reduction table and the fast reduction (numpy and torch) vs explicit embedding + partial trace are compared.',
    note='Tolerance 1e-9 (1e-8 composed). Linearity/sesquilinearity closes the gap from integer inputs to all inputs.',
    technique='TLA+ specs of partial trace (index contraction) and Dicke states (counting); TLC exhaustive enumeration of configurations; expected tables replayed into the code'),
 'C18': dict(
    cat='model_checking', ref='6/C18',
    text='Each named state of numqi.state is specified from its textbook definition as an exact object (kets = rational radical x integer vector, density matrices = rational matrices; Horodecki parameters on a Pythagorean grid so that sqrt(1-b^2) is rational). TLC enumerates the constructors over parameter grids including both end points and proves on every object: unit norm / trace one, symmetric, positive semidefinite by an exact rational LDL^T, return-density-matrix = projector of the ket, PPT of both Horodecki families on the whole grid and PPT of the Antoine family exactly for |q|<=3/2. Every object is compared entrywise with the constructor output. UPB kinds whose vectors are single-radical Gaussian-integer vectors (tiles, feng4x4, gentiles1, gentiles2) are validated by TLC as orthonormal product sets with complement rank D-|UPB| (PPT of the complement is the model theorem) and the returned BES is compared with the exact complementary projector. Closed-form REE/EOF/GME of Werner/isotropic states: TLC decides for each rational alpha whether it lies in the separable range and the recorded value must be exactly 0 there (end point included) and positive outside.',
    note='NOT covered: UPB kinds with nested radicals / roots of unity (listed in the evidence file), tetrahedron POVM and Chebyshev bases, agreement of closed forms with generic routines on the entangled range, Wtype.',
    technique='TLA+ exact rational catalogue of named states with LDL^T PSD/PPT proofs in TLC; entrywise replay into the constructors; TLC trace validation of UPB sets and closed-form zero patterns'),
 'C19': dict(
    cat='model_checking', ref='6/C19',
    text='For each shipped code the encoder gate list is read from the live object and handed to TLC as the program: TLC derives the stabilizer generators with the Clifford tableau, decides Knill-Laflamme for EVERY Pauli error of weight 1..d-1 (one state per error; pull-back rule cross-checked against the textbook commutation/group-membership formulation), and decides that each listed stabilizer string lies in +<S>. The real code words, knill_laflamme_inner_product on make_error_list, the shipped stabilizer circuits, make_error_list / make_asymmetric_error_set (n<=6, d<=4, four Z-weights) and quantum_weight_enumerator are then compared with / validated by TLC against those decisions (full <i|E|j> matrices incl. weight-d errors that violate KL).',
    note='Trusted: TLC/SANY, gate-tableaux derivation (MC_CliffordGates), state-vector comparisons at 1e-9; listed strings are read from the source text of generate_code*. (11,2,5) only in thorough.',
    technique='TLA+ stabilizer-code spec on the Clifford tableau; TLC exhaustive enumeration of the error set per code; TLC trace validation of recorded error sets, KL matrices and weight enumerators'),
 'C20': dict(
    cat='model_checking', ref='6/C20',
    text='The seven structure classes of get_matrix_orthogonal_basis are specified as a decision table (complex?, scalar field, symmetric?, Hermitian?) with their ambient dimensions, and the dimension of the span of (Gaussian-)integer generators is computed exactly by fraction-free elimination over Z / Z[i] in TLA+. TLC enumerates instances of every class (real and complex generators, sizes 2..3 / 4, non-square for the general classes, planted linear dependencies); each is handed to the library and the recorded (label, dim basis, dim complement) is validated by TLC: label = table entry, dim basis = exact dimension, dim basis + dim complement = ambient. Rank certificates: TLC builds subspaces with a PLANTED element of rank r-1 (real / complex bipartite, r = 2, 3) or a planted product vector (tripartite), hidden by a unimodular basis change, and proves the provenance (P in the span, exact rank of P, independence); the subspace is handed over as an orthonormal basis and TLC rejects any recorded positive answer of has_rank_hierarchical_method (levels 1..2/3), detect_real_matrix_subspace_rank_one (150 / 1000 planted instances) or is_ABC_completely_entangled_subspace.',
    note='The returned frames are part of the trace (rounded to integers at scale 4000): Trace_MatrixSpace checks one common norm, mutual orthogonality, complement orthogonal to the basis, every generator reproduced by its projection, and the realified block form of the classes R_c / R_cT. MC_NumRange computes the exact support function of W(A) in the axis directions for every 2x2 Gaussian-integer block with rational support and direct sums of size 3, 5, 6; replayed into get_matrix_numerical_range. NOT covered: support points in other directions, SDP-based joint numerical ranges. The orthonormal basis handed to the certificates is produced by numpy QR in the harness.',
    technique='TLA+ decision table + exact rank by fraction-free elimination; TLC-proved provenance of planted low-rank elements; TLC trace validation of recorded labels, dimensions, returned frames and certificates; exact support-function model replayed into the code'),
}

NOT_APPLICABLE = {
 'C01': 'Analytic statement about floating-point trivialization maps on continuous manifolds for arbitrary real theta: no finite-state or exact-ring model exists, a TLA+ treatment would be a numeric residual passed through TLC as a Boolean (DESIGN section 7).',
 'C02': 'Rank of a real autograd Jacobian at generic points is a numerical-analysis statement (SVD gap); the only discrete ingredient (parameter counts) is necessary but not sufficient; not decidable with a TLA+ model (DESIGN section 7).',
}
PENDING = 'not claimed yet: the TLA+ engine for this property has not passed its self-test (work in progress, DESIGN section 12); no check is registered rather than an unsound one'


def main():
    checks = []
    for pid in ALL:
        if pid not in CLAIMED:
            continue
        c = CLAIMED[pid]
        checks.append(dict(
            property_id=pid,
            quick_cmd='./check %s --tier quick' % pid,
            thorough_cmd='./check %s --tier thorough' % pid,
            evidence_file='/verif/evidence/%s.json' % pid,
            replay_cmd_template='./check %s --replay {path}' % pid,
            engine=c.get('engine', 'tlc'),
            level_claimed=dict(category=c['cat'], text=c['text'], design_ref=c['ref']),
            level_note=c['note'],
            technique=c['technique']))
    na = []
    for pid in ALL:
        if pid in CLAIMED:
            continue
        na.append(dict(property_id=pid, reason=NOT_APPLICABLE.get(pid, PENDING)))
    man = dict(
        version=1,
        setup_cmd='./setup.sh',
        hooks=dict(guard='NUMQI_VERIF', enable='no source hooks: numqi is imported from /repo/python (editable install in /venv), checks record public calls through wrappers in /verif/harness; NUMQI_VERIF=1 is exported by ./check for any future hook',
                   baseline_off_cmd='cd /repo && env -u NUMQI_VERIF /venv/bin/python -m pytest -ra -q -p no:cacheprovider --timeout=900 --continue-on-collection-errors',
                   source_commits=[], add_only=True),
        engines=[dict(name='tlc', path='/verif/specs', serves_properties=sorted(CLAIMED),
                      kind_free_text='explicit TLA+ specifications checked by TLC 1.8 (exhaustive + simulation); behaviours replayed into numqi and recorded calls validated by TLC trace specs; driver ./check -> harness/')],
        checks=checks,
        notes='See DESIGN.md. exit 0 = held on everything explored; exit 1 + VIOLATION line = violation; exit 2 = machinery failure.',
        not_applicable=na)
    with open(os.path.join(ROOT, 'MANIFEST.json'), 'w') as f:
        json.dump(man, f, indent=1)
    try:
        import jsonschema
        jsonschema.validate(man, json.load(open('/root/.vp/MANIFEST.schema.json')))
        print('MANIFEST.json valid;', len(checks), 'checks')
    except ImportError:
        print('written (jsonschema not available)')


if __name__ == '__main__':
    main()
