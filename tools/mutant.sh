#!/bin/sh
# tools/mutant.sh <Cxx> <sed-expression> <file-relative-to-/repo>   : apply a one-line mutation, run the quick check, revert.
pid=$1; expr=$2; file=$3
cd /repo && sed -i "$expr" "$file" && if git diff --quiet; then echo "MUTATION DID NOT APPLY"; exit 3; fi
cd /verif && ./check $pid 2>&1 | grep -E "^VIOLATION|tier=|MACHINERY" | head -${4:-6}
git -C /repo checkout -- .
