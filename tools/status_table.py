#!/usr/bin/env python3
"""tools/status_table.py - the status table of DESIGN.md section 15 from evidence/*.json (quick tier), known_findings.json and seeded/"""
import json, glob, os, re, collections
ROOT = os.path.dirname(os.path.dirname(os.path.abspath(__file__)))
THOROUGH = {}           # wall time of the last complete thorough run per property (seconds), kept by hand from the vp run logs
for line in open(os.path.join(ROOT, 'tools', 'thorough_times.txt')):
    if line.strip() and not line.startswith('#'):
        k, v = line.split()
        THOROUGH[k] = int(v)
kf = json.load(open(os.path.join(ROOT, 'known_findings.json')))['findings']
commits = collections.defaultdict(set)
for f in kf:
    commits[f['property']].add(f.get('commit'))
seeds = collections.Counter(os.path.basename(d.rstrip('/')).split('-')[0] for d in glob.glob(os.path.join(ROOT, 'seeded', '*/')))
print('| property | TLC models / trace specs (quick tier) | states | behaviours / events bound to the code | quick | thorough | defects repaired | seeds |')
print('|---|---|---|---|---|---|---|---|')
for i in range(1, 21):
    pid = 'C%02d' % i
    e = json.load(open(os.path.join(ROOT, 'evidence', pid + '.json')))
    assert e['tier'] == 'quick', pid
    c = e['coverage']
    models = sorted({re.sub(r'[(\[].*$', '', m['model']) for m in c['models']})
    print('| %s | %s | %d | %d | %d s | %s | %d | %d |' % (pid, ', '.join(models), c['states'], c['traces_validated_against_impl'], round(e['wall_s']), ('%d s' % THOROUGH[pid]) if pid in THOROUGH else '-', len(commits[pid]), seeds[pid]))
