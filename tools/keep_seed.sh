#!/bin/sh
# tools/keep_seed.sh <worktree> <seed-id> <Cxx> <breaks> <needs> <ran> <detected_by>
# copies patch.diff + demo of a confirmed seeded change from its scratch worktree into seeded/<seed-id>/ and writes meta.json
WT=$1; id=$2; prop=$3
mkdir -p /verif/seeded/$id
git -C $WT diff -- python > /verif/seeded/$id/patch.diff
cp $WT/demo.py /verif/seeded/$id/demo_$prop.py
python3 - "$@" <<'PY'
import json, sys
wt, sid, prop, breaks, needs, ran, det = sys.argv[1:8]
json.dump(dict(property=prop, breaks=breaks, needs=needs, ran=ran.split(' | '), detected_by=det, source='independent sub-agent, property text only (round ' + __import__('os').environ.get('ROUND', '9') + ')'),
          open('/verif/seeded/%s/meta.json' % sid, 'w'), indent=1)
PY
ls /verif/seeded/$id
