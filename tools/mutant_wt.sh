#!/bin/sh
# tools/mutant_wt.sh <Cxx> <sed-expression|patch-file> <file-relative-to-repo|-> [lines]
# like mutant.sh, but in a scratch worktree of /repo (/tmp/numqi-wtm) so that /repo itself - which background runs read - is not touched.
# With '-' as the file the second argument is a patch file applied with git apply.
pid=$1; expr=$2; file=$3
WT=${NUMQI_WTM:-/tmp/numqi-wtm}
if [ ! -d $WT ]; then git -C /repo worktree add --detach $WT HEAD >/dev/null 2>&1 && cp /repo/python/numqi/_version.py $WT/python/numqi/_version.py; fi
git -C $WT checkout -q --detach $(git -C /repo rev-parse HEAD) 2>/dev/null; git -C $WT checkout -q -- . 
if [ "$file" = "-" ]; then git -C $WT apply "$expr" || { echo "PATCH DID NOT APPLY"; exit 3; }
else (cd $WT && sed -i "$expr" "$file"); fi
if git -C $WT diff --quiet; then echo "MUTATION DID NOT APPLY"; exit 3; fi
cd /verif && NUMQI_REPO=$WT PYTHONPATH=$WT/python ./check $pid 2>&1 | grep -E "^VIOLATION|key=|tier=|MACHINERY" | head -${4:-6}
git -C $WT checkout -q -- .
