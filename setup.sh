#!/bin/sh
# Offline setup: nothing to build. Verifies the tools the checks need are present and that SANY parses every spec.
set -e
cd "$(dirname "$0")"
command -v java >/dev/null
test -f /opt/veriftools/tla/tla2tools.jar
/venv/bin/python -c "import numqi, numpy, torch" 
/venv/bin/python -m harness.selfcheck
echo setup ok
