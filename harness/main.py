import sys, os, argparse, importlib, traceback, json
from . import core, tlc


def main():
    ap = argparse.ArgumentParser()
    ap.add_argument('pid')
    ap.add_argument('--tier', default=os.environ.get('VERIF_TIER', 'quick'), choices=['quick', 'thorough'])
    ap.add_argument('--replay', default=None)
    ap.add_argument('--selftest', action='store_true')
    ap.add_argument('--only', default=None, help='comma list of sub-checks (debugging)')
    a = ap.parse_args()
    seed = int(os.environ.get('VERIF_SEED', '0') or 0)
    pid = a.pid.upper()
    try:
        mod = importlib.import_module('harness.props.' + pid.lower())
    except ModuleNotFoundError as e:
        print('no driver for', pid, e)
        return 2
    if a.selftest:
        # detection self-test: the mutant catalogue and the seeded changes of this property, each in the scratch worktree
        import subprocess
        out = subprocess.run([os.path.join(core.ROOT, 'tools', 'run_mutants.sh'), pid], stdout=subprocess.PIPE, text=True).stdout
        print(out, end='')
        return 1 if ('MISSED' in out) else 0
    ctx = core.Ctx(pid, a.tier, seed)
    ctx.only = set(a.only.split(',')) if a.only else None
    try:
        if a.replay:
            rec = json.load(open(a.replay))
            rc = mod.replay(ctx, rec)
            return rc
        mod.run(ctx)
        rc = ctx.finish()
    except core.MachineryError as e:
        print('MACHINERY-FAILURE', pid, e)
        rc = 2
    except tlc.TLCError as e:
        print('MACHINERY-FAILURE (TLC)', pid, e)
        rc = 2
    except Exception:
        traceback.print_exc()
        print('MACHINERY-FAILURE', pid)
        rc = 2
    finally:
        tlc.cleanup()
    return rc


if __name__ == '__main__':
    sys.exit(main())
