"""Thin driver around TLC (tla2tools 1.8).  Everything TLC needs is given on the command line; the
scratch directory (metadir, dumps, behaviours) lives outside /verif and is removed by the caller."""
import os, re, subprocess, time, shutil, tempfile, glob
from . import tlaval

JAR = '/opt/veriftools/tla/tla2tools.jar:/opt/veriftools/tla/CommunityModules-deps.jar'
ROOT = os.path.dirname(os.path.dirname(os.path.abspath(__file__)))
SPECS = os.path.join(ROOT, 'specs')
LIBPATH = os.pathsep.join(sorted(glob.glob(os.path.join(SPECS, '*'))))


class TLCError(RuntimeError):
    pass


class TLCResult:
    def __init__(self):
        self.stdout = ''
        self.rc = None
        self.generated = 0
        self.distinct = 0
        self.depth = 0
        self.prints = []       # parsed PrintT values
        self.wall = 0.0
        self.violated = None   # name of violated invariant / property or 'assumption' / 'deadlock'
        self.coverage = {}     # action -> (distinct, total)
        self.dump_path = None
        self.sim_files = []
        self.cmd = ''

    @property
    def ok(self):
        return self.rc == 0 and self.violated is None


_scratch = None


def scratch():
    global _scratch
    if _scratch is None:
        _scratch = tempfile.mkdtemp(prefix='numqi-verif-')
    return _scratch


def cleanup():
    global _scratch
    if _scratch and os.path.isdir(_scratch):
        shutil.rmtree(_scratch, ignore_errors=True)
    _scratch = None


def _split_prints(out):
    """PrintT output lines: values start at a line beginning with '<<', '"', '[', '(' or a digit and may span
    lines; we collect by bracket matching."""
    vals = []
    lines = out.split('\n')
    i = 0
    while i < len(lines):
        ln = lines[i]
        if ln.startswith('<<') or ln.startswith('[') and '|->' in ln:
            buf = ln
            depth = buf.count('<<') - buf.count('>>') + buf.count('[') - buf.count(']') + buf.count('{') - buf.count('}') + buf.count('(') - buf.count(')')
            while depth > 0 and i + 1 < len(lines):
                i += 1
                buf += '\n' + lines[i]
                ln2 = lines[i]
                depth += ln2.count('<<') - ln2.count('>>') + ln2.count('[') - ln2.count(']') + ln2.count('{') - ln2.count('}') + ln2.count('(') - ln2.count(')')
            try:
                vals.append(tlaval.parse_value(buf))
            except Exception:
                pass
        i += 1
    return vals


def run(module, cfg=None, *, workers=None, simulate=None, depth=None, seed=None, dump=False, env=None,
        coverage=False, timeout=3600, deadlock=False, extra=(), jvm=(), tag=None, dfs=False, heap='12g'):
    """module: path relative to specs/ (e.g. 'pauli/MC_Pauli.tla').  cfg: path relative to specs/ or absolute,
    default = module with .cfg.  simulate: dict(num=..., file=True) for -simulate."""
    mod = module if os.path.isabs(module) else os.path.join(SPECS, module)
    if cfg is None:
        cfgp = mod[:-4] + '.cfg'
    else:
        cfgp = cfg if os.path.isabs(cfg) else os.path.join(SPECS, cfg)
    tag = tag or os.path.basename(cfgp)[:-4]
    sc = os.path.join(scratch(), tag + '-%d' % int(time.time() * 1000))
    os.makedirs(sc, exist_ok=True)
    res = TLCResult()
    cmd = ['java', '-XX:+UseParallelGC', '-Xmx' + heap, '-Xss256m', '-DTLA-Library=' + LIBPATH, '-Djava.io.tmpdir=' + sc]      # TLC's own temp files go to the scratch directory (removed at exit)
    if dfs:
        cmd.append('-Dtlc2.tool.queue.IStateQueue=StateDeque')
    cmd += list(jvm)
    cmd += ['-cp', JAR, 'tlc2.TLC', '-metadir', os.path.join(sc, 'meta'), '-noGenerateSpecTE', '-config', cfgp]
    if workers is None:
        workers = min(16, os.cpu_count() or 1)
    cmd += ['-workers', str(workers)]
    if not deadlock:
        cmd += ['-deadlock']
    if simulate:
        s = []
        if simulate.get('file'):
            simdir = os.path.join(sc, 'sim')
            os.makedirs(simdir, exist_ok=True)
            s.append('file=' + os.path.join(simdir, 'tr'))
        if 'num' in simulate:
            s.append('num=%d' % simulate['num'])
        cmd += ['-simulate', ','.join(s)] if s else ['-simulate']
    if depth is not None:
        cmd += ['-depth', str(depth)]
    if seed is not None:
        cmd += ['-seed', str(seed)]
    if dump:
        res.dump_path = os.path.join(sc, 'states')
        cmd += ['-dump', res.dump_path]
    if coverage:
        cmd += ['-coverage', '1']
    cmd += list(extra)
    cmd.append(mod)
    res.cmd = ' '.join(cmd)
    e = dict(os.environ)
    if env:
        e.update({k: str(v) for k, v in env.items()})
    t0 = time.time()
    try:
        p = subprocess.run(cmd, stdout=subprocess.PIPE, stderr=subprocess.STDOUT, env=e, timeout=timeout,
                           cwd=os.path.dirname(mod), text=True, errors='replace')
    except subprocess.TimeoutExpired as ex:
        raise TLCError('TLC timeout after %ss: %s' % (timeout, res.cmd)) from ex
    res.wall = time.time() - t0
    res.stdout = p.stdout
    res.rc = p.returncode
    if res.dump_path:
        res.dump_path += '.dump'
    out = p.stdout
    m = None
    for m in re.finditer(r'(\d+) states generated, (\d+) distinct states found', out):
        pass
    if m:
        res.generated, res.distinct = int(m.group(1)), int(m.group(2))
    m = re.search(r'The depth of the complete state graph search is (\d+)', out)
    if m:
        res.depth = int(m.group(1))
    if simulate:
        # simulation mode prints "... states checked" progress; count from final line
        m = None
        for m in re.finditer(r'Progress: (\d+) states checked, (\d+) traces generated', out):
            pass
        if m:
            res.generated = int(m.group(1))
            res.traces = int(m.group(2))
        if simulate.get('file'):
            res.sim_files = sorted(glob.glob(os.path.join(sc, 'sim', 'tr_*')))
    m = re.search(r'Invariant (\S+) is violated', out)
    if m:
        res.violated = m.group(1)
    elif 'Action property' in out and 'is violated' in out:
        res.violated = re.search(r'Action property (\S+)', out).group(1)
    elif 'Assumption' in out and 'is false' in out:
        res.violated = 'assumption'
    elif 'Deadlock reached' in out:
        res.violated = 'deadlock'
    elif 'The postcondition' in out and ('violated' in out or 'false' in out.lower()):
        res.violated = 'postcondition'
    for m in re.finditer(r'<(\w+) line \d+, col \d+ to line \d+, col \d+ of module (\w+)(?: \([\d ]+\))?>: (\d+):(\d+)', out):
        a, b = res.coverage.get(m.group(1), (0, 0))
        res.coverage[m.group(1)] = (a + int(m.group(3)), b + int(m.group(4)))
    res.prints = _split_prints(out)
    brief = '\n'.join(l for l in out.split('\n') if l.strip() and not l.startswith(('Parsing file', 'Semantic processing', 'Running ', 'TLC2 Version', 'Linting of')))[-2500:]
    if res.rc not in (0, 12, 10, 11, 13) and not simulate:
        raise TLCError('TLC failed rc=%s\n%s\n%s' % (res.rc, res.cmd.split('tlc2.TLC')[1], brief))
    if simulate and res.rc not in (0, 12, 10, 11, 13):
        raise TLCError('TLC simulate failed rc=%s\n%s\n%s' % (res.rc, res.cmd.split('tlc2.TLC')[1], brief))
    return res


def parse_dump(res):
    return tlaval.parse_dump(res.dump_path)


def parse_behaviour(path):
    """A -simulate behaviour file: returns list of (action_name, state dict)."""
    txt = open(path).read()
    out = []
    for m in re.finditer(r'\\\* <?(\w+)[^\n]*\nSTATE_\d+ ==\s*\n(.*?)(?=\n\n|\n====|\Z)', txt, re.S):
        out.append((m.group(1), tlaval.parse_state(m.group(2))))
    return out


def validate_payloads(module, cfg, payloads, timeout=3600, extra_env=None):
    """payloads: list of (offset, json_object, count).  Each is written to a scratch file and validated by one
    single-worker TLC run (TLCSet/TLCGet registers need -workers 1); runs go in parallel.  The trace spec must print
    <<"ACCEPTED", k, total>> once and <<"REJECT", index, ...>> per rejected item; accepted + rejected must equal count."""
    import json, concurrent.futures as cf
    jobs = []
    for s_, (off, obj, cnt) in enumerate(payloads):
        path = os.path.join(scratch(), 'trace-%s-%d-%d.json' % (os.path.basename(module)[:-4], int(time.time() * 1e6) % 10**9, s_))
        with open(path, 'w') as f:
            json.dump(obj, f)
        jobs.append((off, path, cnt))

    def one(job):
        off, path, cnt = job
        env = {'TRACE_FILE': path}
        if extra_env:
            env.update(extra_env)
        # up to 16 of these run side by side: keep the heaps small enough for the machine (62 GB)
        r = run(module, cfg, workers=1, env=env, timeout=timeout, tag='tv%d' % off, heap='3g')
        acc = None
        rej = []
        for v in r.prints:
            if isinstance(v, list) and v and v[0] == 'ACCEPTED':
                acc = v[1]
            elif isinstance(v, list) and v and v[0] == 'REJECT':
                rej.append((off + v[1] - 1, v[1:]))
        if acc is None:
            raise TLCError('trace validation produced no ACCEPTED line\n' + r.cmd + '\n' + r.stdout[-3000:])
        if acc + len(rej) != cnt:
            raise TLCError('trace validation did not consume every event: accepted %d rejected %d of %d\n%s\n%s'
                           % (acc, len(rej), cnt, r.cmd, r.stdout[-3000:]))
        os.remove(path)
        return acc, rej, r

    accepted = 0
    rejects = []
    results = []
    if not jobs:
        return 0, [], []
    with cf.ThreadPoolExecutor(max_workers=min(16, len(jobs))) as ex:
        for acc, rej, r in ex.map(one, jobs):
            accepted += acc
            rejects += rej
            results.append(r)
    return accepted, rejects, results


def validate_events(module, cfg, events, shards=None, timeout=3600, extra_env=None, per_trace=False):
    """Batch trace validation (code -> spec).  `events` is a list (of events, or of traces when per_trace) that is
    split into shards validated in parallel.  Returns (accepted, rejects, results), rejects = [(global_index, info)]."""
    n = len(events)
    if n == 0:
        return 0, [], []
    if shards is None:
        shards = max(1, min(16, n // 200))
    size = (n + shards - 1) // shards
    payloads = []
    for s_ in range(shards):
        part = events[s_ * size:(s_ + 1) * size]
        if part:
            payloads.append((s_ * size, part, len(part)))
    return validate_payloads(module, cfg, payloads, timeout=timeout, extra_env=extra_env)
