"""Shared helpers for the qsim engine (C03, C04, C11): exact ring -> complex conversion, literal gate matrices that
mirror specs/qsim/Gates.tla, and the replay of spec-level operation words into a real numqi.sim.Circuit."""
import numpy as np

W = np.exp(1j * np.pi / 4)
SQ2 = np.sqrt(2.0)


def zo(c):
    return c[0] + c[1] * W + c[2] * W ** 2 + c[3] * W ** 3


def zo_vec(v, e=0):
    return np.array([zo(c) for c in v]) / SQ2 ** e


def zo_mat(m, e=0):
    return np.array([[zo(c) for c in row] for row in m]) / SQ2 ** e


def perm(p):
    n = len(p)
    m = np.zeros((n, n), dtype=complex)
    for c, r in enumerate(p):
        m[r - 1, c] = 1
    return m


def _b2():
    m = np.eye(4, dtype=complex)
    m[0, 2] = 1j
    m[3, 1] = 2 * W ** 3
    return m


def _d3():
    m = np.eye(8, dtype=complex)
    m[1, 6] = W
    return m


def _e2():
    m = np.eye(16, dtype=complex)
    m[2, 13] = W
    m[8, 1] = 2j
    return m


GENM = {'A1': np.array([[1, 2], [1j, 0]], dtype=complex), 'A2': np.array([[0, W], [1, 0]], dtype=complex),
        'B1': perm([1, 2, 4, 3]), 'B2': _b2(), 'D1': perm([1, 2, 3, 4, 5, 6, 8, 7]), 'D2': perm([1, 2, 3, 4, 5, 7, 6, 8]), 'D3': _d3(),
        'E1': perm([1, 7, 3, 4, 5, 6, 12, 8, 9, 10, 11, 13, 2, 14, 15, 16]), 'E2': _e2()}


def hf_ry_rx(alpha, beta):
    import torch
    if isinstance(alpha, torch.Tensor):
        alpha = alpha * torch.tensor(1, dtype=torch.complex128)
        beta = beta * torch.tensor(1, dtype=torch.complex128)
        cosa, sina, cosb, sinb = torch.cos(alpha / 2), torch.sin(alpha / 2), torch.cos(beta / 2), torch.sin(beta / 2)
        cc, cs, sc, ss = cosa * cosb, cosa * sinb, sina * cosb, sina * sinb
        return torch.stack([cc + 1j * ss, -1j * sc - cs, cs - 1j * sc, cc - 1j * ss], dim=-1).view(*alpha.shape, 2, 2)
    alpha = np.asarray(alpha)
    beta = np.asarray(beta)
    cosa, sina, cosb, sinb = np.cos(alpha / 2), np.sin(alpha / 2), np.cos(beta / 2), np.sin(beta / 2)
    cc, cs, sc, ss = cosa * cosb, cosa * sinb, sina * cosb, sina * sinb
    return np.stack([cc + 1j * ss, -1j * sc - cs, cs - 1j * sc, cc - 1j * ss], axis=-1).reshape(*alpha.shape, 2, 2)


_RyRx = None


def ryrx_class():
    """a user-registered canonical gate class of the kind the test-suite uses (ParameterGate subclass carrying .index)"""
    global _RyRx
    if _RyRx is None:
        import numqi

        class RyRxGate(numqi.sim.ParameterGate):
            def __init__(self, index, alpha=0, beta=0, requires_grad=True):
                super().__init__(kind='unitary', hf0=hf_ry_rx, args=(alpha, beta), name='ry_rx', requires_grad=requires_grad)
                self.index = index,
        _RyRx = RyRxGate
    return _RyRx


def setof(v):
    return set(v[1]) if isinstance(v, tuple) else set(v)


def angles(g):
    p = g['par']
    if g['op'] in ('u3', 'cu3'):
        return (p[0] * np.pi / 2, p[1] * np.pi / 4, p[2] * np.pi / 4)
    if g['op'] == 'ry_rx':
        return (p[0] * np.pi / 2, p[1] * np.pi / 2)
    if g['op'] == 'foracle':
        return p[0] / 4                  # FractionalGroverOracle(theta): phase exp(-i pi theta)
    return p[0] * np.pi / 2


def add_gate(circ, g, requires_grad=None, args_override=None):
    """call the public method of Circuit that the gate record names; returns the created gate object"""
    op = g['op']
    tg = [q - 1 for q in g['tg']]
    ctrl = {q - 1 for q in setof(g['ctrl'])}
    kw = {} if requires_grad is None else dict(requires_grad=requires_grad)
    if op in ('X', 'Y', 'Z', 'H', 'S', 'T'):
        return getattr(circ, op)(tg[0])
    if op == 'Swap':
        return circ.Swap(tg[0], tg[1])
    if op in ('cnot', 'cy', 'cz'):
        return getattr(circ, op)(sorted(ctrl)[0], tg[0])
    if op == 'toffoli':
        return circ.toffoli(tuple(sorted(ctrl)), tg[0])
    if op in ('rx', 'ry', 'rz', 'u3'):
        a = angles(g) if args_override is None else args_override
        return getattr(circ, op)(tg[0], a, **kw)
    if op == 'rzz':
        a = angles(g) if args_override is None else args_override
        return circ.rzz((tg[0], tg[1]), a, **kw)
    if op in ('crx', 'cry', 'crz', 'cu3'):
        a = angles(g) if args_override is None else args_override
        return getattr(circ, op)(ctrl, tg[0], a, **kw)
    if op == 'ry_rx':
        if not hasattr(circ, 'ry_rx'):
            circ.register_custom_gate('ry_rx', ryrx_class())
        a = angles(g)
        return circ.ry_rx(tg[0], a[0], a[1], **({} if requires_grad is None else dict(requires_grad=requires_grad)))
    if op in ('oracle', 'foracle'):
        import numqi
        if not hasattr(circ, 'grover_oracle_'):
            circ.register_custom_gate('grover_oracle_', numqi.query.GroverOracle)
            circ.register_custom_gate('fractional_grover_oracle_', numqi.query.FractionalGroverOracle)
        if op == 'oracle':
            return circ.grover_oracle_(len(tg) // 2)
        return circ.fractional_grover_oracle_(len(tg) // 2, theta=(angles(g) if args_override is None else args_override), requires_grad=(True if requires_grad is None else requires_grad))
    if op == 'single':
        return circ.single_qubit_gate(GENM[g['mat']], tg[0])
    if op == 'double':
        return circ.double_qubit_gate(GENM[g['mat']], tg[0], tg[1])
    if op == 'triple':
        return circ.triple_qubit_gate(GENM[g['mat']], tg[0], tg[1], tg[2])
    if op == 'quadruple':
        return circ.quadruple_qubit_gate(GENM[g['mat']], tg[0], tg[1], tg[2], tg[3])
    if op == 'csingle':
        return circ.controlled_single_qubit_gate(GENM[g['mat']], ctrl, tg[0])
    if op == 'cdouble':
        return circ.controlled_double_qubit_gate(GENM[g['mat']], ctrl, tuple(tg))
    raise ValueError('unknown op ' + op)


def apply_call(circ, call, prev_gates):
    """one public call of the operation word; prev_gates = spec gate list before the call"""
    import numqi
    c = call['call']
    if c == 'add':
        add_gate(circ, call['g'])
    elif c == 'reuse':
        g = call['g']
        obj = circ.gate_index_list[call['src'] - 1][0]
        tg = tuple(q - 1 for q in g['tg'])
        ctrl = {q - 1 for q in setof(g['ctrl'])}
        circ.append_gate(obj, (ctrl, tg) if obj.kind == 'control' else tg)
    elif c == 'extend':
        c2 = numqi.sim.Circuit()
        for g in prev_gates[:call['src']]:
            add_gate(c2, g)
        circ.extend_circuit(c2)
    elif c == 'shift':
        circ.shift_qubit_index_(call['d'])
    elif c in ('addP', 'setP'):
        g = call['g']
        if c == 'addP':
            tg = tuple(q - 1 for q in g['tg'])
            getattr(circ, g['op'])(tg if len(tg) > 1 else tg[0], circ.P[g['op']][g['hold'] - 1])
        new_gates = call['new_gates']
        table = {}
        for h in new_gates:
            if h.get('hold', 0) > 0 and h['op'] == g['op']:
                a = angles(h)
                table[h['hold']] = list(a) if isinstance(a, tuple) else a
        vals = np.array([table[j] for j in sorted(table)], dtype=np.float64)
        circ.setP(**{g['op']: vals})
    else:
        raise ValueError(c)


def gate_str(g):
    return '%s%s%s(ctrl=%s,tg=%s)' % (g['op'], ':' + g['mat'] if g.get('mat') else '', list(g['par']) if g['par'] else '', sorted(q - 1 for q in setof(g['ctrl'])), [q - 1 for q in g['tg']])
