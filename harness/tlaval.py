import re
_tok = re.compile(r'\s*(<<|>>|\|->|:>|@@|/\\|[\[\]\{\}\(\),=]|"(?:[^"\\]|\\.)*"|-?\d+|[A-Za-z_][A-Za-z_0-9]*)')
def tokenize(s):
    pos=0; out=[]
    while True:
        m=_tok.match(s,pos)
        if not m:
            if s[pos:].strip(): raise ValueError('bad token at '+s[pos:pos+40])
            return out
        out.append(m.group(1)); pos=m.end()
class P:
    def __init__(self,toks): self.t=toks; self.i=0
    def peek(self): return self.t[self.i] if self.i<len(self.t) else None
    def eat(self,x=None):
        v=self.t[self.i]; self.i+=1
        if x is not None and v!=x: raise ValueError(f'expected {x} got {v}')
        return v
    def value(self):
        v=self.peek()
        if v=='<<':
            self.eat(); out=[]
            while self.peek()!='>>':
                out.append(self.value())
                if self.peek()==',': self.eat()
            self.eat('>>'); return out
        if v=='{':
            self.eat(); out=[]
            while self.peek()!='}':
                out.append(self.value())
                if self.peek()==',': self.eat()
            self.eat('}'); return ('set',out)
        if v=='[':
            self.eat(); d={}
            while self.peek()!=']':
                k=self.eat(); self.eat('|->'); d[k]=self.value()
                if self.peek()==',': self.eat()
            self.eat(']'); return d
        if v=='(':
            self.eat(); d={}
            while True:
                k=self.value(); self.eat(':>'); d[k if not isinstance(k,list) else tuple(k)]=self.value()
                if self.peek()=='@@': self.eat(); continue
                break
            self.eat(')'); return d
        self.eat()
        if v[0]=='"': return v[1:-1]
        if v in ('TRUE','FALSE'): return v=='TRUE'
        if re.fullmatch(r'-?\d+',v): return int(v)
        return v
def parse_state(text):
    # text: "/\ a = ...\n/\ b = ..."
    toks=tokenize(text); p=P(toks); st={}
    while p.peek() is not None:
        if p.peek()=='/\\': p.eat('/\\')
        name=p.eat(); p.eat('='); st[name]=p.value()
    return st
def parse_dump(path):
    txt=open(path).read()
    for blk in re.split(r'State \d+:\n', txt)[1:]:
        yield parse_state(blk)
def parse_value(text):
    p=P(tokenize(text)); return p.value()
def untuple(v):
    """('set',[..]) -> frozenset-like sorted list; recursive convenience"""
    if isinstance(v,tuple) and len(v)==2 and v[0]=='set': return [untuple(x) for x in v[1]]
    if isinstance(v,list): return [untuple(x) for x in v]
    if isinstance(v,dict): return {k:untuple(x) for k,x in v.items()}
    return v
