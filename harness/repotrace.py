"""Run some of the repository's own tests under the recorder plugin (harness/recorder.py) and return what they did, in the
event formats of the trace specifications.  The tests run from /repo's working tree in a subprocess; the repository is not
modified (the recorder monkey-patches inside the test process)."""
import os, sys, json, subprocess
from . import tlc

ROOT = os.path.dirname(os.path.dirname(os.path.abspath(__file__)))
REPO = os.environ.get('NUMQI_REPO', '/repo')
TESTS = ['tests/test_gate.py', 'tests/tests_sim/test_sim_clifford.py']
KEXPR = 'Pauli or pauli or Clifford or clifford'
GROUP_TESTS = ['tests/tests_group/test_group_spf2.py', 'tests/tests_group/test_group_symmetric.py', 'tests/tests_group/test_group_basic.py']
_cache = {}


def record(tests=TESTS, kexpr=KEXPR, timeout=900):
    key = (tuple(tests), kexpr)
    if key in _cache:
        return _cache[key]
    out = os.path.join(tlc.scratch(), 'repo-tests-%d.json' % len(_cache))
    env = dict(os.environ, NUMQI_VERIF_TRACE=out, PYTHONPATH=ROOT + os.pathsep + os.environ.get('PYTHONPATH', ''))
    cmd = [sys.executable, '-m', 'pytest', '-q', '-p', 'no:cacheprovider', '-p', 'harness.recorder'] + (['-k', kexpr] if kexpr else []) + list(tests)
    p = subprocess.run(cmd, cwd=REPO, env=env, stdout=subprocess.PIPE, stderr=subprocess.STDOUT, text=True, timeout=timeout)
    if not os.path.exists(out):
        raise RuntimeError('recorder produced no trace file:\n' + p.stdout[-2000:])
    d = json.load(open(out))
    d['pytest_tail'] = p.stdout.strip().split('\n')[-1]
    os.remove(out)
    _cache[key] = d
    return d
