"""Run context shared by all property drivers: collects TLC statistics, replay counts, samples and
violations, applies the known-findings file, writes the evidence file and the VIOLATION lines."""
import os, sys, json, time, hashlib, traceback

ROOT = os.path.dirname(os.path.dirname(os.path.abspath(__file__)))
FINDINGS = os.path.join(ROOT, 'known_findings.json')


def load_findings():
    if not os.path.exists(FINDINGS):
        return []
    return json.load(open(FINDINGS))['findings']


class Ctx:
    def __init__(self, pid, tier, seed, level='model_checking'):
        self.pid = pid
        self.tier = tier
        self.seed = seed
        self.level = level
        self.t0 = time.time()
        self.states = 0
        self.transitions = 0
        self.traces = 0            # behaviours replayed into / traces recorded from the implementation
        self.evaluations = 0       # individual comparisons code vs spec
        self.nontrivial = set()    # hashes of distinct non-trivial cases
        self.samples = []
        self.models = []           # per TLC run: name, generated, distinct, wall, exhaustive
        self.violations = []       # dict(key, what, data)
        self.notes = []
        self.assumptions = []
        self.not_covered = []
        self.rule = ''
        self.coverage_actions = {}
        self.extra = {}
        self.tolerances = {}

    # ---- TLC bookkeeping
    def add_model(self, name, res, exhaustive=True, required_actions=()):
        self.states += res.distinct if res.distinct else res.generated
        self.transitions += res.generated
        self.models.append(dict(model=name, states_generated=res.generated, distinct_states=res.distinct,
                                depth=res.depth, wall_s=round(res.wall, 2), exhaustive=bool(exhaustive)))
        for a, c in res.coverage.items():
            self.coverage_actions[name + '.' + a] = c[1]
        if res.violated:
            # a violated invariant of the *specification itself* is machinery failure, not a finding about numqi
            raise MachineryError('spec self-check failed in %s: %s\n%s' % (name, res.violated, res.stdout[-3000:]))
        for a in required_actions:
            if res.coverage and res.coverage.get(a, (0, 0))[1] == 0:
                raise MachineryError('vacuous model %s: action %s never taken' % (name, a))

    def case(self, key):
        """register a distinct non-trivial case (any hashable/str)"""
        self.evaluations += 1
        self.nontrivial.add(hashlib.blake2b(repr(key).encode(), digest_size=8).digest())

    def sample(self, s, limit=6):
        if len(self.samples) < limit:
            self.samples.append(s)

    def violation(self, key, what, data=None):
        # keep at most a handful of full records per key class
        self.violations.append(dict(key=key, what=what, data=data))

    # ---- finish
    def finish(self):
        findings = [f for f in load_findings() if f['property'] == self.pid]
        known = {f['key']: f for f in findings if f['status'] == 'known'}
        real = []
        seen_known = {}
        for v in self.violations:
            if v['key'] in known:
                seen_known.setdefault(v['key'], v)
            else:
                real.append(v)
        for k, v in seen_known.items():
            print('KNOWN-FINDING: property=%s %s' % (self.pid, known[k]['what']))
        rdir = os.path.join(ROOT, 'replays', self.pid)
        printed = set()
        for v in real:
            if v['key'] in printed:
                continue
            printed.add(v['key'])
            os.makedirs(rdir, exist_ok=True)
            h = hashlib.blake2b(repr(v['key']).encode(), digest_size=6).hexdigest()
            path = os.path.join(rdir, '%s.json' % h)
            with open(path, 'w') as f:
                json.dump(dict(property=self.pid, key=v['key'], what=v['what'], data=v['data'], tier=self.tier,
                               seed=self.seed, occurrences=sum(1 for w in real if w['key'] == v['key'])), f, indent=1, default=str)
            print('VIOLATION property=%s replay=%s' % (self.pid, path))
            print('  key=%s :: %s' % (v['key'], v['what']))
        wall = time.time() - self.t0
        cov = dict(states=int(self.states), transitions=int(self.transitions),
                   traces_validated_against_impl=int(self.traces), samples=self.samples or ['(none)'],
                   evaluations=int(self.evaluations), distinct_nontrivial=len(self.nontrivial), rule=self.rule,
                   models=self.models, exhaustive=all(m['exhaustive'] for m in self.models) if self.models else False,
                   action_coverage=self.coverage_actions, tolerances=self.tolerances, not_covered=self.not_covered,
                   known_findings_seen=sorted(seen_known), notes=self.notes)
        cov.update(self.extra)
        ev = dict(property_id=self.pid, tier=self.tier, seed=int(self.seed), level=self.level, coverage=cov,
                  assumptions=self.assumptions, wall_s=round(wall, 2), violations=len(real))
        # drivers outside the listed properties (X..) keep their evidence apart from evidence/<property id>.json
        edir = os.path.join(ROOT, 'evidence' if self.pid.startswith('C') else 'evidence_extra')
        os.makedirs(edir, exist_ok=True)
        with open(os.path.join(edir, self.pid + '.json'), 'w') as f:
            json.dump(ev, f, indent=1, default=str)
        print('%s tier=%s seed=%d: states=%d transitions=%d traces=%d evaluations=%d distinct=%d violations=%d known=%d wall=%.1fs'
              % (self.pid, self.tier, self.seed, self.states, self.transitions, self.traces, self.evaluations,
                 len(self.nontrivial), len(real), len(seen_known), wall))
        return 1 if real else 0


class MachineryError(RuntimeError):
    pass


def gt(value, tol):
    """NaN-safe 'value > tol': a NaN (or a non-finite result) counts as exceeding every tolerance - a comparison written as
    `x > tol` is False for NaN and would silently accept it."""
    try:
        return not bool(value <= tol)
    except Exception:
        return True
