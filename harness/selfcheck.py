"""setup-time sanity: the TLA+ value parser round-trips, the JSON trace format survives JsonDeserialize."""
import sys
from . import tlaval


def main():
    v = tlaval.parse_value('<<1, -2, "a", [x |-> <<0,1>>, y |-> TRUE], {1,2}, (0 :> 1 @@ 1 :> 2)>>')
    assert v[0] == 1 and v[1] == -2 and v[2] == 'a' and v[3]['x'] == [0, 1] and v[3]['y'] is True, v
    assert v[4] == ('set', [1, 2]) and v[5] == {0: 1, 1: 2}, v
    print('selfcheck ok')


if __name__ == '__main__':
    main()
