"""setup-time sanity: the TLA+ value parser round-trips, the JSON trace format survives JsonDeserialize."""
import sys
from . import tlaval


def main():
    v = tlaval.parse_value('<<1, -2, "a", [x |-> <<0,1>>, y |-> TRUE], {1,2}, (0 :> 1 @@ 1 :> 2)>>')
    assert v[0] == 1 and v[1] == -2 and v[2] == 'a' and v[3]['x'] == [0, 1] and v[3]['y'] is True, v
    assert v[4] == ('set', [1, 2]) and v[5] == {0: 1, 1: 2}, v
    # the batch trace validation really rejects: one correct and one corrupted event through Trace_Pauli (X * Z = X^1 Z^1 with phase exponent 0 in the binary form)
    from . import tlc
    good = dict(op='matmul', a=[0, 0, 1, 0], b=[0, 0, 0, 1], res=[0, 0, 1, 1])
    bad = dict(good, res=[1, 1, 1, 1])
    try:
        acc, rej, _ = tlc.validate_events('pauli/Trace_Pauli.tla', 'pauli/Trace_Pauli.cfg', [good, bad], shards=1)
        assert acc == 1 and [r[0] for r in rej] == [1], (acc, rej)
    finally:
        tlc.cleanup()
    print('selfcheck ok')


if __name__ == '__main__':
    main()
