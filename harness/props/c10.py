"""C10 - random generators return valid objects and are reproducible from a seed.
specs: specs/rng/{Rng,MC_Rng,Trace_Rng}.tla"""
import hashlib, random
import numpy as np
from .. import tlc, core

li = lambda a: [int(x) for x in a]


def digest(x):
    h = hashlib.sha256()

    def feed(v):
        if isinstance(v, (tuple, list)):
            h.update(b'T%d' % len(v))
            for w in v:
                feed(w)
        elif isinstance(v, np.ndarray):
            h.update(str(v.dtype).encode() + str(v.shape).encode() + np.ascontiguousarray(v).tobytes())
        elif hasattr(v, 'F2'):
            feed(v.F2)
        elif hasattr(v, 'detach'):
            feed(v.detach().numpy())
        else:
            h.update(repr(v).encode())
    feed(x)
    return h.hexdigest()[:24]


def patterns(tier):
    """every public function of numqi.random x optional-argument branch, plus the other seed-accepting APIs.
    Each entry: (label, rng kind, callable(seed_or_generator_or_None) -> result)"""
    import numqi
    R = numqi.random
    P = []
    add = lambda label, f, kind='numpy': P.append((label, kind, f))
    add('rand_haar_state(4)', lambda s: R.rand_haar_state(4, seed=s))
    add('rand_haar_state(4,tag_complex=False)', lambda s: R.rand_haar_state(4, tag_complex=False, seed=s))
    add('rand_haar_unitary(3)', lambda s: R.rand_haar_unitary(3, seed=s))
    add('rand_special_orthogonal_matrix(3)', lambda s: R.rand_special_orthogonal_matrix(3, seed=s))
    add('rand_special_orthogonal_matrix(3,batch_size=2,tag_complex=True)', lambda s: R.rand_special_orthogonal_matrix(3, batch_size=2, tag_complex=True, seed=s))
    add('rand_density_matrix(3)', lambda s: R.rand_density_matrix(3, seed=s))
    add('rand_density_matrix(3,k=2)', lambda s: R.rand_density_matrix(3, k=2, seed=s))
    add('rand_density_matrix(3,kind=bures)', lambda s: R.rand_density_matrix(3, kind='bures', seed=s))
    add('rand_density_matrix(3,k=1,kind=bures)', lambda s: R.rand_density_matrix(3, k=1, kind='bures', seed=s))
    add('rand_kraus_op(2,2,3)', lambda s: R.rand_kraus_op(2, 2, 3, seed=s))
    add('rand_kraus_op(3,2,2,tag_complex=False)', lambda s: R.rand_kraus_op(3, 2, 2, tag_complex=False, seed=s))
    add('rand_choi_op(2,3)', lambda s: R.rand_choi_op(2, 3, seed=s))
    add('rand_choi_op(2,2,rank=2)', lambda s: R.rand_choi_op(2, 2, rank=2, seed=s))
    add('rand_povm(3,4)', lambda s: R.rand_povm(3, 4, seed=s))
    add('rand_bipartite_state(2,3)', lambda s: R.rand_bipartite_state(2, 3, seed=s))
    add('rand_bipartite_state(3)', lambda s: R.rand_bipartite_state(3, seed=s))
    add('rand_bipartite_state(2,3,k=2)', lambda s: R.rand_bipartite_state(2, 3, k=2, seed=s))
    add('rand_bipartite_state(2,2,return_dm=True)', lambda s: R.rand_bipartite_state(2, 2, seed=s, return_dm=True))
    add('rand_bipartite_state(2,3,k=1,return_dm=True)', lambda s: R.rand_bipartite_state(2, 3, k=1, seed=s, return_dm=True))
    add('rand_separable_dm(2,3)', lambda s: R.rand_separable_dm(2, 3, seed=s))
    add('rand_separable_dm(2,k=3,pure_term=True)', lambda s: R.rand_separable_dm(2, k=3, seed=s, pure_term=True))
    add('rand_hermitian_matrix(3)', lambda s: R.rand_hermitian_matrix(3, seed=s))
    add('rand_hermitian_matrix(3,tag_complex=False)', lambda s: R.rand_hermitian_matrix(3, tag_complex=False, seed=s))
    add('rand_hermitian_matrix(3,eig=(-1,2))', lambda s: R.rand_hermitian_matrix(3, eig=(-1, 2), seed=s))
    add('rand_hermitian_matrix(3,eig=(0,1),tag_complex=False)', lambda s: R.rand_hermitian_matrix(3, eig=(0, 1), tag_complex=False, seed=s))
    add('rand_channel_matrix_space(3,3)', lambda s: R.rand_channel_matrix_space(3, 3, seed=s))
    add('rand_quantum_channel_matrix_subspace(3,4)', lambda s: R.rand_quantum_channel_matrix_subspace(3, 4, seed=s))
    add('rand_quantum_channel_matrix_subspace(3,(3,2))', lambda s: R.rand_quantum_channel_matrix_subspace(3, (3, 2), seed=s))
    add('rand_ABk_density_matrix(2,2,1)', lambda s: R.rand_ABk_density_matrix(2, 2, 1, seed=s))
    add('rand_ABk_density_matrix(2,2,2)', lambda s: R.rand_ABk_density_matrix(2, 2, 2, seed=s))
    add('rand_reducible_matrix_subspace(3,(2,1))', lambda s: R.rand_reducible_matrix_subspace(3, (2, 1), seed=s))
    add('rand_reducible_matrix_subspace(2,(1,2),return_unitary=True)', lambda s: R.rand_reducible_matrix_subspace(2, (1, 2), return_unitary=True, seed=s))
    add('rand_symmetric_inner_product(3)', lambda s: R.rand_symmetric_inner_product(3, seed=s))
    add('rand_orthonormal_matrix_basis(2,2)', lambda s: R.rand_orthonormal_matrix_basis(2, 2, seed=s))
    add('rand_orthonormal_matrix_basis(3,2,num_qudit=2,num_sample=2,with_I=True)', lambda s: R.rand_orthonormal_matrix_basis(3, 2, num_qudit=2, num_sample=2, with_I=True, seed=s))
    add('rand_adjacent_matrix(4)', lambda s: R.rand_adjacent_matrix(4, seed=s))
    add('rand_n_sphere(3)', lambda s: R.rand_n_sphere(3, seed=s))
    add('rand_n_sphere(3,size=4)', lambda s: R.rand_n_sphere(3, size=4, seed=s))
    add('rand_n_sphere(2,size=(2,3))', lambda s: R.rand_n_sphere(2, size=(2, 3), seed=s))
    add('rand_n_ball(3)', lambda s: R.rand_n_ball(3, seed=s))
    add('rand_n_ball(3,size=4)', lambda s: R.rand_n_ball(3, size=4, seed=s))
    add('rand_n_ball(2,size=(2,3))', lambda s: R.rand_n_ball(2, size=(2, 3), seed=s))
    add('rand_F2(3,4)', lambda s: R.rand_F2(3, 4, seed=s))
    add('rand_F2(5,not_zero=True,not_one=True)', lambda s: R.rand_F2(5, not_zero=True, not_one=True, seed=s))
    add('rand_F2(2,not_zero=True)', lambda s: R.rand_F2(2, not_zero=True, seed=s))               # rejection-heavy: a quarter of the seeds redraw
    add('rand_F2(2,not_one=True)', lambda s: R.rand_F2(2, not_one=True, seed=s))
    add('rand_F2(1,not_zero=True)', lambda s: R.rand_F2(1, not_zero=True, seed=s))
    add('rand_SpF2(3)', lambda s: R.rand_SpF2(3, seed=s), 'python')
    add('rand_SpF2(2,int_tuple)', lambda s: R.rand_SpF2(2, return_kind='int_tuple', seed=s), 'python')
    add('rand_SpF2(2,int_tuple-matrix)', lambda s: R.rand_SpF2(2, return_kind='int_tuple-matrix', seed=s), 'python')
    add('rand_Clifford_group(2)', lambda s: R.rand_Clifford_group(2, seed=s), 'python')
    add('rand_pauli(3)', lambda s: R.rand_pauli(3, seed=s))
    add('rand_pauli(3,is_hermitian=True)', lambda s: R.rand_pauli(3, is_hermitian=True, seed=s))
    add('rand_pauli(2,is_hermitian=False)', lambda s: R.rand_pauli(2, is_hermitian=False, seed=s))
    # other APIs that accept a seed
    q = np.array([1, 2j, -1, 1, 0.5, 1j, 2, -1j], dtype=complex)
    q = q / np.linalg.norm(q)
    add('measure_quantum_vector(q,(0,2))', lambda s: numqi.sim.state.measure_quantum_vector(q.copy(), (0, 2), s))

    def mgate(s):
        c = numqi.sim.Circuit()
        c.H(0)
        c.cnot(0, 1)
        c.ry(1, 0.7)
        g = c.measure((0, 1), seed=s)
        out = c.apply_state(numqi.sim.new_base(2))
        return (g.bitstr, g.probability, out)
    add('Circuit.measure((0,1),seed)', mgate)

    def ccirc(s):
        c = numqi.sim.CliffordCircuit(seed=s)
        for k in range(4):
            c.random_one_qubit_gate(k % 2)
            c.random_two_qubit_gate(k % 2, 1 - k % 2)
        return [list(g) for g in c.gate_index_list]
    add('CliffordCircuit(seed).random_*', ccirc)
    rho3 = np.diag([0.5, 0.3, 0.2]).astype(complex)
    add('get_purification(rho,dimR=4,seed)', lambda s: numqi.utils.get_purification(rho3, dimR=4, seed=s))
    add('get_completed_entangled_subspace((2,2,2),quant-ph/0405077,seed)', lambda s: numqi.matrix_space.get_completed_entangled_subspace((2, 2, 2), 'quant-ph/0405077', seed=s))
    add('get_mps_dicke_transform_matrix(2,3,seed)', lambda s: numqi.entangle.pureb_quantum.get_mps_dicke_transform_matrix(2, 3, seed=s)[0])
    rho_w = numqi.state.Werner(2, 0.7)

    def chab(s):
        return numqi.entangle.AutodiffCHAREE((2, 2), num_state=6).get_boundary(rho_w, xtol=1e-2, use_tqdm=False, seed=s)
    add('AutodiffCHAREE.get_boundary(seed)', chab)
    if tier == 'thorough':
        def cha(s):
            m = numqi.entangle.CHABoundaryBagging((2, 2), num_state=20)
            rho = numqi.state.Werner(2, 0.8)
            try:
                return m.solve(rho, maxiter=30, seed=s)
            except RuntimeError as ex:
                # the heuristic may fail to find an initial point for a seed ('Failed to find a good initial state'): the OUTCOME of a
                # seeded call - value or failure - must still be a function of (arguments, seed)
                return ('raised', type(ex).__name__, str(ex)[:60])
        add('CHABoundaryBagging.solve(seed)', cha)

        def mini(s):
            import torch

            class M(torch.nn.Module):
                def __init__(self):
                    super().__init__()
                    self.theta = torch.nn.Parameter(torch.zeros(3, dtype=torch.float64))

                def forward(self):
                    return ((self.theta - 1) ** 2).sum() + torch.sin(self.theta[0])
            r = numqi.optimize.minimize(M(), theta0='uniform', num_repeat=2, tol=1e-9, print_every_round=0, seed=s)
            return (r.x, r.fun)
        add('optimize.minimize(seed)', mini)
    return P


SCALE, TSCALE = 2000, 200


def _g(arr, scale=SCALE):
    a = np.asarray(arr)
    if a.ndim == 1:
        return [[int(round(float(np.real(z)) * scale)), int(round(float(np.imag(z)) * scale))] for z in a]
    return [_g(x, scale) for x in a]


def _gram(M, cols):
    """certificate of positive semidefiniteness and of rank <= cols: A with A A^dagger = M (top `cols` eigenpairs, negatives clipped)"""
    M = np.asarray(M, dtype=complex)
    w, v = np.linalg.eigh((M + M.conj().T) / 2)
    idx = np.argsort(w)[::-1][:cols]
    return v[:, idx] * np.sqrt(np.maximum(w[idx], 0))


def _dm_claims(M, cols):
    n = len(M)
    return [dict(c='shape', M=_g(M), rows=n, cols=n), dict(c='hermitian', M=_g(M)), dict(c='trace1', M=_g(M)), dict(c='gram', M=_g(M), A=_g(_gram(M, cols)), cols=int(cols))]


def membership_event(a, seed):
    """execute one call descriptor of MC_RngArgs and state the membership claims about its (rounded) output"""
    import numqi
    R = numqi.random
    fn, d1, d2, k, flag, batch = a['fn'], a['d1'], a['d2'], a['k'], a['flag'], a['batch']
    C = []
    if fn == 'rand_haar_state':
        v = R.rand_haar_state(d1, tag_complex=flag, seed=seed)
        C += [dict(c='unit', v=_g(v)), dict(c='len', v=_g(v), n=d1)] + ([] if flag else [dict(c='realv', v=_g(v))])
    elif fn == 'rand_haar_unitary':
        U = R.rand_haar_unitary(d1, seed=seed)
        C += [dict(c='unitary', M=_g(U)), dict(c='shape', M=_g(U), rows=d1, cols=d1)]
    elif fn == 'rand_special_orthogonal_matrix':
        U = R.rand_special_orthogonal_matrix(d1, batch_size=(batch or None), tag_complex=flag, seed=seed)
        Us = U if batch else U[None]
        C.append(dict(c='len', v=[[0, 0]] * len(Us), n=max(batch, 1)))
        for u in Us:
            C += [dict(c='unitary', M=_g(u)), dict(c='det1', M=_g(u, TSCALE), T=TSCALE), dict(c='shape', M=_g(u), rows=d1, cols=d1)] + ([] if flag else [dict(c='real', M=_g(u))])
    elif fn == 'rand_density_matrix':
        M = R.rand_density_matrix(d1, k=(k or None), kind='bures' if flag else 'haar', seed=seed)
        C += _dm_claims(M, k or d1)
    elif fn == 'rand_kraus_op':
        K = R.rand_kraus_op(k, d1, d2, tag_complex=flag, seed=seed)
        C.append(dict(c='kraus', Ms=_g(K)))
        C.append(dict(c='len', v=[[0, 0]] * len(K), n=k))
        for x in K:
            C.append(dict(c='shape', M=_g(x), rows=d2, cols=d1))
            if not flag:
                C.append(dict(c='real', M=_g(x)))
    elif fn == 'rand_choi_op':
        M = R.rand_choi_op(d1, d2, rank=(k or None), seed=seed)
        n = d1 * d2
        C += [dict(c='shape', M=_g(M), rows=n, cols=n), dict(c='hermitian', M=_g(M)), dict(c='gram', M=_g(M), A=_g(_gram(M, k or n)), cols=int(k or n)), dict(c='tp', M=_g(M), di=d1, do=d2)]
    elif fn == 'rand_povm':
        E = R.rand_povm(d1, k, seed=seed)
        C.append(dict(c='sumto', Ms=_g(E)))
        C.append(dict(c='len', v=[[0, 0]] * len(E), n=k))
        for x in E:
            C += [dict(c='hermitian', M=_g(x)), dict(c='gram', M=_g(x), A=_g(_gram(x, d1)), cols=d1), dict(c='shape', M=_g(x), rows=d1, cols=d1)]
    elif fn == 'rand_bipartite_state':
        dB = d2 or d1
        out = R.rand_bipartite_state(d1, (d2 or None), k=(k or None), seed=seed, return_dm=flag)
        if flag:
            C += _dm_claims(out, 1)
        else:
            C += [dict(c='unit', v=_g(out)), dict(c='len', v=_g(out), n=d1 * dB)]
            if k and np.asarray(out).shape == (d1 * dB,):
                P = np.asarray(out).reshape(d1, dB)
                red = P @ P.conj().T
                C.append(dict(c='gram', M=_g(red), A=_g(_gram(red, k)), cols=k))          # Schmidt rank <= k
    elif fn == 'rand_separable_dm':
        dB = d2 or d1
        M = R.rand_separable_dm(d1, (d2 or None), k=k, seed=seed, pure_term=flag)
        n = d1 * dB
        C += _dm_claims(M, n)
        if np.asarray(M).shape == (n, n):
            pt = np.asarray(M).reshape(d1, dB, d1, dB).transpose(0, 3, 2, 1).reshape(n, n)
            C.append(dict(c='gram', M=_g(pt), A=_g(_gram(pt, n)), cols=n))                 # PPT: necessary for a mixture of products
    elif fn == 'rand_hermitian_matrix':
        eig = {0: None, 1: (-1, 2), 2: (0, 1)}[k]
        M = R.rand_hermitian_matrix(d1, eig=eig, tag_complex=flag, seed=seed)
        C += [dict(c='hermitian', M=_g(M)), dict(c='shape', M=_g(M), rows=d1, cols=d1)] + ([] if flag else [dict(c='real', M=_g(M))])
        if eig:
            I = np.eye(d1)
            C.append(dict(c='between', M=_g(M), lo=eig[0], hi=eig[1], A=_g(_gram(np.asarray(M) - eig[0] * I, d1)), B=_g(_gram(eig[1] * I - np.asarray(M), d1))))
    elif fn in ('rand_n_sphere', 'rand_n_ball'):
        f = getattr(R, fn)
        out = f(d1, size=(batch or None), seed=seed)
        rowsv = out if batch else out[None]
        C.append(dict(c='len', v=[[0, 0]] * len(rowsv), n=max(batch, 1)))
        for v in rowsv:
            C += [dict(c='unit' if fn == 'rand_n_sphere' else 'ball', v=_g(v)), dict(c='realv', v=_g(v)), dict(c='len', v=_g(v), n=d1)]
    elif fn == 'rand_ABk_density_matrix':
        M = R.rand_ABk_density_matrix(d1, d2, k, seed=seed)
        C += _dm_claims(M, d1 * d2 ** k)
        if k == 2:
            C.append(dict(c='symB', M=_g(M), dA=d1, dB=d2))
    elif fn == 'rand_orthonormal_matrix_basis':
        B = R.rand_orthonormal_matrix_basis(d1, d2, with_I=flag, seed=seed)
        B = B[1:] if flag else B
        C.append(dict(c='len', v=[[0, 0]] * len(B), n=d1 * d2))
        for i in range(0, len(B), d2):
            C += [dict(c='orthomats', Ms=_g(B[i:i + d2])), dict(c='sumto', Ms=_g(B[i:i + d2]))]
    else:
        raise KeyError(fn)
    return dict(op='valid', kind='cont', fn=fn, a=a, S=SCALE, seed=seed, claims=C)


def run_history(hist, kind, f, base=100):
    """base: the integer added to the abstract seed of the history (the specification speaks of seeds 1, 2; which integers they are is the
    harness's choice - sweeping the base reaches seed-dependent branches such as a rejected first draw)"""
    import torch
    ev = []
    for op, arg in hist:
        if op == 'gseed':
            {'numpy': lambda: np.random.seed(7), 'python': lambda: random.seed(7), 'torch': lambda: torch.manual_seed(7)}[arg]()
            ev.append(dict(op='gseed', lib=arg))
        elif op == 'gdraw':
            {'numpy': lambda: np.random.rand(3), 'python': lambda: random.random(), 'torch': lambda: torch.rand(2)}[arg]()
            ev.append(dict(op='gdraw', lib=arg))
        elif op == 'unseeded':
            f(None)
            ev.append(dict(op='unseeded'))
        elif op == 'seeded':
            ev.append(dict(op='seeded', seed=arg, digest=digest(f(base + arg))))
        elif op == 'gen':
            g = np.random.default_rng(base + arg) if kind == 'numpy' else random.Random(base + arg)
            ev.append(dict(op='gen', seed=arg, digest=digest(f(g))))
    return ev


def validity_events(ctx, n):
    import numqi
    from .c09 import pack
    R = numqi.random
    ev = []
    for s in range(n):
        try:
            for size, nz, no in [((6,), False, False), ((2, 3), True, False), ((5,), True, True), ((2,), True, True)]:
                b = R.rand_F2(*size, not_zero=nz, not_one=no, seed=s)
                ev.append(dict(op='valid', kind='F2', size=int(np.prod(size)), not_zero=nz, not_one=no, bits=li(b.reshape(-1)), seed=s))
            for nn in (1, 2, 4, 6):
                m = R.rand_SpF2(nn, seed=s)
                ev.append(dict(op='valid', kind='SpF2', n=nn, m=pack(m), seed=s))
            r, m = R.rand_Clifford_group(3, seed=s)
            ev.append(dict(op='valid', kind='Clifford', n=3, r=li(r), m=pack(m), seed=s))
            for h in (None, True, False):
                p = R.rand_pauli(3 + s % 3, is_hermitian=h, seed=s)
                ev.append(dict(op='valid', kind='pauli', n=3 + s % 3, herm=str(h), f2=li(p.F2), seed=s))
            a = R.rand_adjacent_matrix(2 + s % 5, seed=s)
            ev.append(dict(op='valid', kind='adjacent', n=2 + s % 5, rows=[li(x) for x in a], seed=s))
        except Exception as ex:
            ctx.violation('C10:exception:discrete-generator', type(ex).__name__ + ': ' + str(ex)[:160], dict(seed=s))
    return ev


def run(ctx):
    import torch
    torch.set_num_threads(1)
    quick = ctx.tier == 'quick'
    rng = random.Random(ctx.seed)
    ctx.rule = ('every public function of numqi.random x optional-argument branch (plus measurement, MeasureGate, CliffordCircuit%s) driven along TLC-generated histories of '
                'global seeding / global draws / unseeded calls / seeded calls / fresh seeded generator objects (all 16105 histories of length<=4 enumerated; those with two equal-seed '
                'calls executed: %s per call pattern); discrete generators: membership decided exactly for seeds 0..%d; distinct by (pattern, history)'
                % ('' if quick else ', CHABoundaryBagging.solve, optimize.minimize', '14' if quick else '150', 30 if quick else 300))
    ctx.assumptions = ['TLC/SANY correct', 'bit-identical reproducibility presumes deterministic BLAS for a fixed thread count (torch threads pinned to 1; a failing pair is re-run once)']
    ctx.not_covered = ['membership of continuous outputs finer than the rounding tolerance (2.5% of the squared scale)', 'the distribution of the outputs (Haar, Bures, ...)', 'separability of rand_separable_dm beyond PSD + PPT', 'rand_channel_matrix_space / rand_quantum_channel_matrix_subspace / rand_reducible_matrix_subspace / rand_symmetric_inner_product membership']
    r = tlc.run('rng/MC_Rng.tla', dump=True)
    ctx.add_model('MC_Rng(len<=4)', r)
    hists = [st['hist'] for st in tlc.parse_dump(r)]

    def relevant(h):
        for kind in ('seeded', 'gen'):
            for s in (1, 2):
                if sum(1 for e in h if e[0] == kind and e[1] == s) >= 2:
                    return True
        return False
    rel = [h for h in hists if relevant(h)]
    ctx.extra['histories_enumerated'] = len(hists)
    ctx.extra['histories_relevant'] = len(rel)
    canon = [[['seeded', 1], ['gdraw', 'numpy'], ['gdraw', 'python'], ['seeded', 1]], [['seeded', 1], ['unseeded', ''], ['gdraw', 'torch'], ['seeded', 1]],
             [['gen', 1], ['gseed', 'numpy'], ['seeded', 2], ['gen', 1]], [['seeded', 2], ['gseed', 'python'], ['seeded', 1], ['seeded', 2]]]
    pats = patterns(ctx.tier)
    traces = []
    meta = []
    for label, kind, f in pats:
        hs = canon + rng.sample(rel, 10 if quick else 146)
        if label.startswith(('CHABoundaryBagging', 'optimize.minimize', 'AutodiffCHAREE')):
            hs = canon[:2] + rng.sample(rel, 4)
        slow = label.startswith(('CHABoundaryBagging', 'optimize.minimize', 'AutodiffCHAREE'))
        jobs = [(h, 100) for h in hs] + ([] if slow else [(canon[0] if kind != 'python' else canon[0], b) for b in range(0, (40 if quick else 200))])      # seed sweep of the first canonical history
        for h, base in jobs:
            try:
                t = run_history(h, kind, f, base)
            except Exception as ex:
                ctx.violation('C10:exception:%s' % label.split('(')[0], type(ex).__name__ + ': ' + str(ex)[:160], dict(pattern=label, history=h, base=base))
                continue
            traces.append(t)
            meta.append((label, kind, f, h, base))
            ctx.case(('rng', label, repr(h), base))
    acc, rej, results = tlc.validate_events('rng/Trace_Rng.tla', 'rng/Trace_Rng.cfg', traces, shards=16)
    for r in results:
        ctx.states += r.distinct
        ctx.transitions += r.generated
    ctx.models.append(dict(model='Trace_Rng[histories]', traces=len(traces), accepted=acc, rejected=len(rej), exhaustive=False))
    ctx.traces += len(traces)
    for gi, info in rej:
        label, kind, f, h, base = meta[gi]
        # re-run once to exclude nondeterminism of the numerical libraries (both outcomes recorded)
        t2 = run_history(h, kind, f, base)
        ev = traces[gi][info[1] - 1]
        fn = label.split('(')[0]
        ctx.violation('C10:%s:not-reproducible:%s' % (fn, ev['op']), '%s: output of a %s call depends on more than (arguments, seed) [pattern %s]' % (fn, 'seeded' if ev['op'] == 'seeded' else 'generator', label),
                      dict(pattern=label, history=h, seed_base=base, trace=traces[gi], rerun=t2, event=info[1]))
    ctx.sample(dict(kind='history', pattern=meta[5][0], history=meta[5][3], recorded=traces[5]))
    ctx.extra['call_patterns'] = [p[0] for p in pats]
    # ---- validity of the discrete generators
    ev = validity_events(ctx, 30 if quick else 300)
    acc, rej, results = tlc.validate_events('rng/Trace_Rng.tla', 'rng/Trace_Rng.cfg', [[e] for e in ev], shards=8)
    for r in results:
        ctx.states += r.distinct
        ctx.transitions += r.generated
    ctx.models.append(dict(model='Trace_Rng[valid]', events=len(ev), accepted=acc, rejected=len(rej), exhaustive=False))
    ctx.traces += len(ev)
    for e in ev:
        ctx.case(('valid', e['kind'], e['seed'], e.get('n'), e.get('size'), e.get('herm')))
    for gi, info in rej:
        e = ev[gi]
        ctx.violation('C10:rand_%s:invalid-output' % e['kind'], 'discrete generator returned an object outside the advertised set', e)
    ctx.sample(dict(kind='validity-event', event=ev[7]))
    # ---- membership of the continuous generators: every admissible argument combination (MC_RngArgs) x seeds
    r = tlc.run('rng/MC_RngArgs.tla', 'rng/MC_RngArgs.cfg', dump=True)
    ctx.add_model('MC_RngArgs', r)
    calls = [st['a'] for st in tlc.parse_dump(r)]
    mev = []
    for a in calls:
        for sd in (range(2) if quick else range(8)):
            seed = 1000 * sd + 17 * a['d1'] + a['k']
            ctx.case(('member', a['fn'], a['d1'], a['d2'], a['k'], a['flag'], a['batch'], seed))
            try:
                mev.append(membership_event(a, seed))
            except Exception as ex:
                ctx.violation('C10:%s:exception' % a['fn'], 'an admissible call raised %s: %s' % (type(ex).__name__, str(ex)[:120]), dict(call=a, seed=seed))
    counts = {}
    for e in mev:
        for c in e['claims']:
            counts[c['c']] = counts.get(c['c'], 0) + 1
    ctx.extra['claims_decided_by_kind'] = counts
    missing = {'unit', 'ball', 'unitary', 'det1', 'hermitian', 'trace1', 'gram', 'between', 'kraus', 'tp', 'sumto', 'symB', 'orthomats', 'real', 'realv'} - set(counts)
    if missing:
        raise core.MachineryError('vacuous run: claim kinds never generated: %s' % sorted(missing))
    acc, rej, results = tlc.validate_events('rng/Trace_Rng.tla', 'rng/Trace_Rng.cfg', [[e] for e in mev], shards=16)
    for r in results:
        ctx.states += r.distinct
        ctx.transitions += r.generated
    ctx.models.append(dict(model='Trace_Rng[membership]', events=len(mev), accepted=acc, rejected=len(rej), exhaustive=False))
    ctx.traces += len(mev)
    for gi, info in rej:
        e = mev[gi]
        ctx.violation('C10:%s:membership:%s' % (e['fn'], info[-1]), '%s%s returned an object outside the advertised set: claim "%s" rejected' % (e['fn'], tuple(e['a'][x] for x in ('d1', 'd2', 'k', 'flag', 'batch')), info[-1]),
                      dict(call=e['a'], seed=e['seed'], failing_claim=info[-1]))
    ctx.sample(dict(kind='membership-event', call=mev[40]['a'], claims=[c['c'] for c in mev[40]['claims']]))
    ctx.tolerances = dict(scale=SCALE, quadratic_forms='1/40 of the squared scale', determinant='1/8 at scale %d' % TSCALE)


def replay(ctx, rec):
    print('replay', rec['key'], rec['what'])
    d = rec['data']
    if 'pattern' in d:
        for label, kind, f in patterns('thorough' if d['pattern'].startswith(('CHA', 'optimize')) else 'quick'):
            if label == d['pattern']:
                print(run_history(d['history'], kind, f))
    return 0
