"""C09 - Sp(2n,F2) indexing is a bijection onto the symplectic group.
specs: specs/pauli/{Symplectic,MC_Sp,Trace_Sp}.tla"""
import itertools, random
import numpy as np
from .. import tlc, core

li = lambda a: [int(x) for x in a]


def pack(mat):
    return [int(sum(int(b) << k for k, b in enumerate(row))) for row in mat]


def enum_events(n, start, stop):
    """walk tuples start..stop-1 (lexicographic rank) of the mixed-radix domain through the real code"""
    from numqi.group import spf2
    base = spf2.get_number(n, 'base')
    out = []

    def unrank(r):
        t = []
        for b in reversed(base):
            t.append(r % b)
            r //= b
        return tuple(reversed(t))
    t = list(unrank(start))
    for r in range(start, stop):
        tt = tuple(t)
        try:
            m = spf2.from_int_tuple(tt)
            m0 = pack(m)                      # the image as returned, before any further call sees it
            b = spf2.to_int_tuple(m)
            mi = spf2.inverse(m)
            out.append(dict(op='enum', n=n, t=li(tt), m=m0, ma=pack(m), b=li(b), mi=pack(mi)))
        except Exception as ex:
            out.append(dict(op='exception', n=n, t=li(tt), error=repr(ex)))
        # own successor (the spec checks it independently)
        k = len(t) - 1
        while k >= 0:
            t[k] += 1
            if t[k] < base[k]:
                break
            t[k] = 0
            k -= 1
    return out


def validate_enum(ctx, n, nshards):
    from numqi.group import spf2
    order = spf2.get_number(n, 'order')
    size = (order + nshards - 1) // nshards
    payloads = []
    evs = {}
    for s in range(nshards):
        a, b = s * size, min(order, (s + 1) * size)
        if a >= b:
            break
        ev = enum_events(n, max(0, a - 1), b)   # overlap by one event (the predecessor)
        for e in ev:
            if e['op'] == 'exception':
                ctx.violation('C09:exception:from/to_int_tuple', e['error'], e)
        ev = [e for e in ev if e['op'] == 'enum']
        evs[s] = (max(0, a - 1), ev)
        payloads.append((s * 10**7, dict(first=(a == 0), last=(b == order), events=ev), len(ev)))
    acc, rej, results = tlc.validate_payloads('pauli/Trace_Sp.tla', 'pauli/Trace_Sp.cfg', payloads, timeout=7200)
    for r in results:
        ctx.states += r.distinct
        ctx.transitions += r.generated
    ctx.models.append(dict(model='Trace_Sp[enum n=%d]' % n, events=order, shards=len(payloads), accepted=acc, rejected=len(rej), exhaustive=True))
    ctx.traces += order
    for gi, info in rej:
        s, l = gi // 10**7, gi % 10**7
        e = evs[s][1][l]
        ctx.violation('C09:from_int_tuple:enumeration', 'enumeration event rejected by Trace_Sp (not symplectic / not the successor tuple / round trip / inverse)', e)
    ctx.evaluations += order
    for s, (a, ev) in evs.items():
        for e in ev[:: max(1, len(ev) // 2000)]:
            ctx.case(('enum', n, tuple(e['t'])))
    ctx.extra.setdefault('enumerated', {})[str(n)] = order
    ctx.sample(dict(kind='enum', event=evs[0][1][min(5, len(evs[0][1]) - 1)]))


def validate_repo_tests(ctx):
    """spf2 calls made by the repository's own tests (harness/recorder.py), validated by Trace_Sp"""
    from .. import repotrace
    d = repotrace.record(repotrace.GROUP_TESTS, None)
    ev = d['sp']
    if not ev:
        raise core.MachineryError('the repository tests produced no spf2 events: ' + d['pytest_tail'])
    nsh = 8
    size = (len(ev) + nsh - 1) // nsh
    payloads = [(s_ * size, dict(first=False, last=False, events=ev[s_ * size:(s_ + 1) * size]), len(ev[s_ * size:(s_ + 1) * size])) for s_ in range(nsh) if ev[s_ * size:(s_ + 1) * size]]
    acc, rej, results = tlc.validate_payloads('pauli/Trace_Sp.tla', 'pauli/Trace_Sp.cfg', payloads)
    for r in results:
        ctx.states += r.distinct
        ctx.transitions += r.generated
    ctx.models.append(dict(model='Trace_Sp[repository tests]', events=len(ev), accepted=acc, rejected=len(rej), pytest=d['pytest_tail'], exhaustive=False))
    ctx.traces += len(ev)
    for e in ev:
        ctx.case(('repo', e['op'], repr(e.get('v0')), repr(e.get('v1')), repr(e.get('m'))))
    for gi, info in rej:
        e = ev[gi]
        ctx.violation('C09:%s:repository-test' % {'ft': 'find_transvection', 'inv': 'inverse', 'from_int': 'from_int_tuple', 'to_int': 'to_int_tuple', 'member': 'rand_SpF2'}[e['op']],
                      'a call made by the repository tests is rejected by Trace_Sp: ' + e['op'], e)


def run(ctx):
    from numqi.group import spf2
    import numqi
    quick = ctx.tier == 'quick'
    rng = random.Random(ctx.seed)
    rng_np = np.random.default_rng(ctx.seed + 17)
    ctx.rule = ('every tuple of the mixed-radix domain for n=1 (6), n=2 (720)%s walked in lexicographic order through from_int_tuple/to_int_tuple/'
                'inverse and validated by TLC; every symplectic matrix of the TLC closure model mapped back to an index; every ordered pair of non-zero '
                'vectors for n<=%d through find_transvection; random tuples n<=10. distinct by tuple / matrix / vector pair'
                % ('' if quick else ', n=3 (1,451,520)', 3 if quick else 4))
    ctx.assumptions = ['TLC/SANY correct', 'numpy uint8 arithmetic exact']
    # ---- model: the group itself, order formula, inverse formula
    mats = {}
    for n in ([1, 2] if quick else [1, 2, 3]):
        r = tlc.run('pauli/MC_Sp.tla', 'pauli/MC_Sp_n%d.cfg' % n, dump=(n <= 2), timeout=7200)
        ctx.add_model('MC_Sp(N=%d)' % n, r)
        if ['ORDER', spf2.get_number(n, 'order'), spf2.get_number(n, 'order')] not in r.prints:
            # the library's own order function disagrees with the spec/model count
            ctx.violation('C09:get_number:order', 'get_number(n,order) differs from |Sp(2n,F2)| counted by TLC', dict(n=n, lib=spf2.get_number(n, 'order'), tlc=r.prints))
        if n <= 2:
            mats[n] = list(tlc.parse_dump(r))
    # ---- spec -> code: every group element has an index, and the index maps back to it; inverse agrees with the spec
    for n, sts in mats.items():
        seen = set()
        base = spf2.get_number(n, 'base')
        for st in sts:
            M = np.array(st['M'], dtype=np.uint8)
            ctx.case(('mat', n, M.tobytes()))
            try:
                t = spf2.to_int_tuple(M)
                if not (len(t) == 2 * n and all(0 <= int(a) < b for a, b in zip(t, base))):
                    ctx.violation('C09:to_int_tuple:range', 'index out of the mixed-radix range', dict(n=n, M=st['M'], t=li(t)))
                if not np.array_equal(spf2.from_int_tuple(t), M):
                    ctx.violation('C09:to_int_tuple:inverse-map', 'from_int_tuple(to_int_tuple(M)) != M', dict(n=n, M=st['M'], t=li(t)))
                if tuple(t) in seen:
                    ctx.violation('C09:to_int_tuple:injective', 'two symplectic matrices share an index', dict(n=n, t=li(t)))
                seen.add(tuple(t))
                if not np.array_equal(spf2.inverse(M), np.array(st['inv'], dtype=np.uint8)):
                    ctx.violation('C09:inverse:closed-form', 'inverse(M) differs from Lam M^T Lam', dict(n=n, M=st['M']))
            except Exception as ex:
                ctx.violation('C09:exception:to_int_tuple', repr(ex), dict(n=n, M=st['M']))
        ctx.traces += len(sts)
    # ---- code -> spec: complete enumeration
    validate_enum(ctx, 1, 1)
    validate_enum(ctx, 2, 4)
    if not quick:
        validate_enum(ctx, 3, 64)
    # ---- find_transvection on all ordered pairs of non-zero vectors, rand_SpF2, get_number
    ev = []
    # transvection(x, *h) on arrays of every batch shape (the docstring admits ndim >= 1): one 'tv' event per call, rows flattened
    for n in (1, 2, 3):
        for shape in [(2 * n,), (3, 2 * n), (2 * n, 2 * n), (2, 3, 2 * n), (4, 2 * n, 2 * n), (2, 1, 2, 2 * n)]:
            for nh in (1, 2):
                x = rng_np.integers(0, 2, size=shape, dtype=np.uint8)
                hs = [rng_np.integers(0, 2, size=2 * n, dtype=np.uint8) for _ in range(nh)]
                ctx.case(('tv', n, shape, nh))
                try:
                    y = np.asarray(spf2.transvection(x.copy(), *hs))
                    if y.shape != x.shape:
                        ctx.violation('C09:transvection:shape', 'transvection changes the shape of a batch: %s -> %s' % (x.shape, y.shape), dict(n=n, shape=list(shape)))
                    else:
                        ev.append(dict(op='tv', rows=[li(r_) for r_ in x.reshape(-1, 2 * n)], hs=[li(h) for h in hs], res=[li(r_) for r_ in y.reshape(-1, 2 * n)], shape=list(shape)))
                except Exception as ex:
                    ctx.violation('C09:transvection:exception', 'transvection on an array of shape %s: %s: %s' % (shape, type(ex).__name__, str(ex)[:120]), dict(n=n, shape=list(shape)))
    # get_inner_product on batches of every shape (incl. long vectors, where the uint8 dot product wraps modulo 256) and the bit helpers the
    # mixed-radix index is read through (widths up to 70 bits: more than one machine word)
    for n in (1, 2, 3, 5, 40, 300):
        for shape in [(2 * n,), (3, 2 * n), (2, 3, 2 * n)]:
            for dense in (False, True):
                x = rng_np.integers(0, 2, size=shape, dtype=np.uint8) if not dense else np.ones(shape, dtype=np.uint8)
                v = rng_np.integers(0, 2, size=2 * n, dtype=np.uint8) if not dense else np.ones(2 * n, dtype=np.uint8)
                if dense:
                    x.reshape(-1)[0] = 0
                ctx.case(('ip', n, shape, dense))
                try:
                    y = np.asarray(spf2.get_inner_product(x.copy(), v.copy()))
                    if y.shape != x.shape[:-1]:
                        ctx.violation('C09:get_inner_product:shape', 'get_inner_product on a batch of shape %s returns shape %s' % (x.shape, y.shape), dict(n=n, shape=list(shape)))
                    else:
                        ev.append(dict(op='ip', rows=[li(r_) for r_ in x.reshape(-1, 2 * n)], v=li(v), res=[int(t) for t in y.reshape(-1)]))
                except Exception as ex:
                    ctx.violation('C09:get_inner_product:exception', '%s: %s' % (type(ex).__name__, str(ex)[:120]), dict(n=n, shape=list(shape)))
    for width in (1, 2, 7, 8, 9, 15, 16, 17, 31, 32, 33, 63, 64, 65, 70):
        for val in sorted({0, 1, 2 ** width - 1, 2 ** (width - 1), (2 ** width) // 3, rng.randrange(2 ** width), rng.randrange(2 ** width)}):
            ctx.case(('bits', width, val))
            try:
                b = np.asarray(spf2.int_to_bitarray(val, width))
                back = int(spf2.bitarray_to_int(b))
                l15 = lambda v_: [int((v_ >> (15 * k_)) & 0x7fff) for k_ in range((width + 14) // 15)]
                ev.append(dict(op='bits', n=width, limbs=l15(val), bits=[int(t) for t in b], back=l15(back) if 0 <= back < 2 ** width else [-1]))
            except Exception as ex:
                ctx.violation('C09:int_to_bitarray:exception', '%s: %s' % (type(ex).__name__, str(ex)[:120]), dict(width=width, value=str(val)))
    for n in ([1, 2, 3] if quick else [1, 2, 3, 4]):
        vecs = [np.array(v, dtype=np.uint8) for v in itertools.product([0, 1], repeat=2 * n) if any(v)]
        for v0 in vecs:
            for v1 in vecs:
                try:
                    h = spf2.find_transvection(v0, v1)
                    ev.append(dict(op='ft', v0=li(v0), v1=li(v1), h0=li(h[0]), h1=li(h[1])))
                    # the library's own transvection routine must agree with the definition as well
                    if not np.array_equal(spf2.transvection(v0, h[0], h[1]), v1):
                        ctx.violation('C09:transvection:apply', 'transvection(v0,h0,h1) != v1', dict(v0=li(v0), v1=li(v1)))
                except Exception as ex:
                    ctx.violation('C09:exception:find_transvection', repr(ex), dict(v0=li(v0), v1=li(v1)))
    # the counting functions up to n = 10 (exact big integers as base-1000 limbs; TLC multiplies the factors itself)
    limbs = lambda v: [int(d) for d in [(abs(int(v)) // 1000 ** k) % 1000 for k in range(max(1, (len(str(abs(int(v)))) + 2) // 3))]]
    for n in range(1, 11):
        try:
            o, b, c = spf2.get_number(n, 'order'), spf2.get_number(n, 'base'), spf2.get_number(n, 'coset')
            ev.append(dict(op='numbers', n=n, nonneg=bool(int(o) >= 0 and all(int(x) >= 0 for x in c)), order=limbs(o), base=li(b), coset=[limbs(x) for x in c]))
        except Exception as ex:
            ctx.violation('C09:exception:get_number', repr(ex), dict(n=n))
    for i in range(200 if quick else 3000):
        n = rng.randint(1, 10)
        sd = rng.randrange(10**6)
        try:
            t, m = numqi.random.rand_SpF2(n, return_kind='int_tuple-matrix', seed=sd)
            m2 = numqi.random.rand_SpF2(n, return_kind='matrix', seed=sd)
            t2 = numqi.random.rand_SpF2(n, return_kind='int_tuple', seed=sd)
            b = spf2.to_int_tuple(m)
            ev.append(dict(op='rand', n=n, seed=sd, t=li(t), m=pack(m), b=li(b)))
            ev.append(dict(op='index', n=n, t=li(t2), m=pack(m), m2=pack(m2)))
        except Exception as ex:
            ctx.violation('C09:exception:rand_SpF2', repr(ex), dict(n=n, seed=sd))
    # shard manually (payload format of Trace_Sp is an object)
    nsh = 16
    size = (len(ev) + nsh - 1) // nsh
    payloads = [(s * size, dict(first=False, last=False, events=ev[s * size:(s + 1) * size]), len(ev[s * size:(s + 1) * size])) for s in range(nsh) if ev[s * size:(s + 1) * size]]
    acc, rej, results = tlc.validate_payloads('pauli/Trace_Sp.tla', 'pauli/Trace_Sp.cfg', payloads)
    for r in results:
        ctx.states += r.distinct
        ctx.transitions += r.generated
    ctx.models.append(dict(model='Trace_Sp[ft,rand]', events=len(ev), accepted=acc, rejected=len(rej), exhaustive=False))
    ctx.traces += len(ev)
    for e in ev:
        ctx.case((e['op'], repr(e.get('v0')), repr(e.get('v1')), repr(e.get('t')), e.get('n') if e['op'] == 'numbers' else None))
    for gi, info in rej:
        e = ev[gi]
        key = {'tv': 'C09:transvection:row-wise', 'ft': 'C09:find_transvection:maps-v0-to-v1', 'rand': 'C09:rand_SpF2:valid', 'index': 'C09:rand_SpF2:return-kinds', 'numbers': 'C09:get_number:order-base-coset', 'ip': 'C09:get_inner_product:row-wise', 'bits': 'C09:int_to_bitarray:round-trip'}[e['op']]
        ctx.violation(key, 'event rejected by Trace_Sp: ' + e['op'], e)
    validate_repo_tests(ctx)
    ctx.sample(dict(kind='find_transvection', event=[e for e in ev if e['op'] == 'ft'][37]))
    ctx.sample(dict(kind='rand_SpF2', event=[e for e in ev if e['op'] == 'rand'][0]))


def replay(ctx, rec):
    print('replay', rec['key'], rec['data'])
    return 0
