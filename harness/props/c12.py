"""C12 - channel representations are equivalent; channels are contractive (classical subdomain).
specs: specs/tensor/{Channel,MC_Channel,MC_Classical}.tla"""
import random, math
from fractions import Fraction
import numpy as np
from .. import tlc, core

TOL = 1e-9


def gm(m):
    return np.array([[complex(e[0], e[1]) for e in row] for row in m])


def choi_from_kraus(K):
    """harness-side definition used only to judge non-unique Kraus decompositions"""
    n, do, di = K.shape
    C = np.zeros((di, do, di, do), dtype=complex)
    for s in range(n):
        C += np.einsum('oi,pj->iojp', K[s], K[s].conj())
    return C.reshape(di * do, di * do)


def run_channels(ctx, states, rng):
    import numqi, torch
    ch = numqi.channel
    for st in states:
        cfg, obs = st['cfg'], st['obs']
        di, do = cfg['di'], cfg['do']
        K = np.stack([gm(k) for k in obs['K']])
        C = gm(obs['C'])
        S = gm(obs['S'])
        data = dict(kind=cfg['kind'], dim_in=di, dim_out=do, terms=len(K), seed=cfg['s'])
        ctx.case(('chan', cfg['kind'], di, do, len(K), cfg['s']))

        def bad(fn, clause, extra=None):
            ctx.violation('C12:%s:%s' % (fn, clause), '%s: %s (dim_in=%d dim_out=%d terms=%d)' % (fn, clause, di, do, len(K)), dict(data, **(extra or {})))
        try:
            if core.gt(np.abs(ch.kraus_op_to_choi_op(K) - C).max(), TOL): bad('kraus_op_to_choi_op', 'Choi matrix differs (index order in,out,in,out)')
            if core.gt(np.abs(ch.kraus_op_to_choi_op(torch.tensor(K)).numpy() - C).max(), TOL): bad('kraus_op_to_choi_op', 'torch: Choi matrix differs')
            if core.gt(np.abs(ch.kraus_op_to_super_op(K) - S).max(), TOL): bad('kraus_op_to_super_op', 'super-operator differs')
            if core.gt(np.abs(ch.choi_op_to_super_op(C, di) - S).max(), TOL): bad('choi_op_to_super_op', 'reshuffle differs')
            if core.gt(np.abs(ch.super_op_to_choi_op(S) - C).max(), TOL): bad('super_op_to_choi_op', 'reshuffle differs')
            for i in range(di):
                for j in range(di):
                    e = np.zeros((di, di), dtype=complex)
                    e[i, j] = 1
                    want = gm(obs['out'][i][j])
                    ctx.evaluations += 1
                    if core.gt(np.abs(ch.apply_kraus_op(K, e) - want).max(), TOL): bad('apply_kraus_op', 'output on a matrix unit', dict(unit=[i, j]))
                    if core.gt(np.abs(ch.apply_choi_op(C, e) - want).max(), TOL): bad('apply_choi_op', 'output on a matrix unit', dict(unit=[i, j]))
                    if core.gt(np.abs(ch.apply_super_op(S, e) - want).max(), TOL): bad('apply_super_op', 'output on a matrix unit', dict(unit=[i, j]))
                    if core.gt(np.abs(ch.apply_choi_op(torch.tensor(C), torch.tensor(e)).numpy() - want).max(), TOL): bad('apply_choi_op', 'torch: output on a matrix unit', dict(unit=[i, j]))
            # Hermitian integer input: all three forms agree with the linear extension of the unit outputs
            X = np.array([[complex(rng.randint(-3, 3), rng.randint(-3, 3)) for _ in range(di)] for _ in range(di)])
            rho = X + X.conj().T
            want = sum(rho[i, j] * gm(obs['out'][i][j]) for i in range(di) for j in range(di))
            for fn, got in (('apply_kraus_op', ch.apply_kraus_op(K, rho)), ('apply_choi_op', ch.apply_choi_op(C, rho)), ('apply_super_op', ch.apply_super_op(S, rho))):
                if core.gt(np.abs(got - want).max(), TOL): bad(fn, 'output on a Hermitian integer input')
            # Kraus form obtained back (not unique): judged through the Choi matrix it defines and through its action
            for fn, K2 in (('choi_op_to_kraus_op', ch.choi_op_to_kraus_op(C, di)), ('super_op_to_kraus_op', ch.super_op_to_kraus_op(S)),
                           ('hf_channel_to_kraus_op', ch.hf_channel_to_kraus_op(lambda r: sum(k @ r @ k.conj().T for k in K), di))):
                if K2.ndim != 3 or K2.shape[1:] != (do, di):
                    bad(fn, 'shape of the Kraus operators', dict(shape=list(K2.shape)))
                elif core.gt(np.abs(choi_from_kraus(K2) - C).max(), 1e-8):
                    bad(fn, 'Kraus operators obtained back do not reproduce the channel')
            C4 = ch.hf_channel_to_choi_op(lambda r: sum(k @ r @ k.conj().T for k in K), di)
            if core.gt(np.abs(np.asarray(C4).reshape(di * do, di * do) - C).max(), TOL): bad('hf_channel_to_choi_op', 'Choi matrix of a linear map')
            # affine Bloch map of trace-preserving channels, through the (C16-verified) Gell-Mann coordinates
            if obs['tp'] and di >= 2 and do >= 2:
                A, b = ch.choi_op_to_bloch_map(C.reshape(di, do, di, do))
                Y = np.array([[complex(rng.randint(-3, 3), rng.randint(-3, 3)) for _ in range(di)] for _ in range(di)])
                r0 = Y @ Y.conj().T + np.eye(di)
                r0 = r0 / np.trace(r0).real
                out = sum(r0[i, j] * gm(obs['out'][i][j]) for i in range(di) for j in range(di))
                v_in = numqi.gellmann.dm_to_gellmann_basis(r0)
                v_out = numqi.gellmann.dm_to_gellmann_basis(out)
                if core.gt(np.abs(A @ v_in + b - v_out).max(), 1e-8): bad('choi_op_to_bloch_map', 'affine Bloch map does not reproduce the output state')
        except Exception as ex:
            ctx.violation('C12:exception:channel', type(ex).__name__ + ': ' + str(ex)[:160], data)
    st = states[len(states) // 3]
    ctx.sample(dict(kind='channel-instance', cfg=st['cfg'], kraus=st['obs']['K']))


def run_noise(ctx):
    import numqi
    ch = numqi.channel
    X = np.array([[0, 1], [1, 0]]); Y = np.array([[0, -1j], [1j, 0]]); Z = np.diag([1, -1]); I = np.eye(2)
    for p in [Fraction(0), Fraction(1, 4), Fraction(1, 2), Fraction(3, 4), Fraction(1)]:
        pf = float(p)
        spec = {'hf_dephasing_kraus_op': [(1 - p, I), (p, Z)],
                'hf_depolarizing_kraus_op': [(1 - 3 * p / 4, I), (p / 4, X), (p / 4, Y), (p / 4, Z)]}
        for fn, terms in spec.items():
            ctx.case(('noise', fn, str(p)))
            assert sum(w for w, _ in terms) == 1          # trace preservation as a rational identity
            K = getattr(ch, fn)(pf)
            want = np.stack([np.sqrt(float(w)) * m for w, m in terms])
            if K.shape != want.shape or core.gt(np.abs(K - want).max(), 1e-12):
                ctx.violation('C12:%s:kraus' % fn, 'Kraus operators differ from sqrt(weight) * Pauli at rate %s' % p, dict(rate=str(p)))
            if core.gt(np.abs(sum(k.conj().T @ k for k in K) - np.eye(2)).max(), 1e-12):
                ctx.violation('C12:%s:trace-preserving' % fn, 'sum K^dagger K != I at rate %s' % p, dict(rate=str(p)))
        ctx.case(('noise', 'amplitude_damping', str(p)))
        K = ch.hf_amplitude_damping_kraus_op(pf)
        want = np.array([[[1, 0], [0, np.sqrt(float(1 - p))]], [[0, np.sqrt(float(p))], [0, 0]]])
        if core.gt(np.abs(K - want).max(), 1e-12) or core.gt(np.abs(sum(k.conj().T @ k for k in K) - np.eye(2)).max(), 1e-12):
            ctx.violation('C12:hf_amplitude_damping_kraus_op:kraus', 'Kraus operators / trace preservation at rate %s' % p, dict(rate=str(p)))


def run_classical(ctx, states, rng, limit):
    import numqi
    ch = numqi.channel
    sel = states if len(states) <= limit else rng.sample(states, limit)
    for st in sel:
        cfg, obs = st['cfg'], st['obs']
        a, b, f = cfg['a'], cfg['b'], cfg['f']
        d = len(a)
        A, B = obs['A'], obs['B']
        p = np.diag([x * x / A for x in a]).astype(complex)
        q = np.diag([x * x / B for x in b]).astype(complex)
        data = dict(a=a, b=b, f=f)
        ctx.case(('classical', tuple(a), tuple(b), tuple(f)))
        try:
            K = np.zeros((d, d, d))
            for i in range(d):
                K[i, f[i] - 1, i] = 1
            D0 = obs['d2'] / (2 * A * B)
            D1 = obs['d2after'] / (2 * A * B)
            F0 = obs['fnum'] / (A * B)
            if core.gt(abs(numqi.utils.get_trace_distance(p, q) - D0), TOL):
                ctx.violation('C12:get_trace_distance:classical', 'trace distance of diagonal states differs from the exact value', data)
            pp, qq = ch.apply_kraus_op(K, p), ch.apply_kraus_op(K, q)
            t1 = numqi.utils.get_trace_distance(pp, qq)
            if core.gt(abs(t1 - D1), TOL):
                ctx.violation('C12:get_trace_distance:after-channel', 'trace distance after a relabelling channel differs from the exact value (monotonicity is proved on the exact values)', data)
            f01, f10 = numqi.utils.get_fidelity(p, q), numqi.utils.get_fidelity(q, p)
            if core.gt(abs(f01 - F0), 1e-8) or core.gt(abs(f10 - F0), 1e-8):
                ctx.violation('C12:get_fidelity:classical', 'fidelity of diagonal states differs from the exact value / is not symmetric', data)
            f1 = numqi.utils.get_fidelity(pp, qq)
            if not (F0 - 1e-8 <= f1 <= 1 + 1e-8):
                ctx.violation('C12:get_fidelity:monotone', 'fidelity decreased under a channel or left [0,1]', data)
        except Exception as ex:
            ctx.violation('C12:exception:classical', type(ex).__name__ + ': ' + str(ex)[:160], data)


def run_purefid(ctx, states):
    """get_fidelity on Gaussian-integer kets and rational mixtures: every argument form, both orders, both backends"""
    import numqi, torch
    F = numqi.utils.get_fidelity
    for st in states:
        obs = st['obs']
        cv = lambda v: np.array([complex(z[0], z[1]) for z in v])
        psi, v1, v2 = cv(obs['psi']), cv(obs['v1']), cv(obs['v2'])
        psi, v1, v2 = psi / np.linalg.norm(psi), v1 / np.linalg.norm(v1), v2 / np.linalg.norm(v2)
        w1, w2 = obs['w1'], obs['w2']
        rho = (w1 * np.outer(v1, v1.conj()) + w2 * np.outer(v2, v2.conj())) / (w1 + w2)
        fkk = obs['fkk'][0] / obs['fkk'][1]
        frk = obs['frk'][0] / obs['frk'][1]
        data = dict(psi=obs['psi'], v1=obs['v1'], v2=obs['v2'], w=[w1, w2])
        ctx.case(('purefid', st['cfg']['d'], st['cfg']['s']))
        try:
            forms = [('ket,ket', F(psi, v1), fkk), ('ket,ket swapped', F(v1, psi), fkk), ('dm,ket', F(rho, psi), frk), ('ket,dm', F(psi, rho), frk),
                     ('dm,projector', F(rho, np.outer(psi, psi.conj())), frk), ('projector,dm', F(np.outer(psi, psi.conj()), rho), frk),
                     ('torch dm,ket', float(F(torch.tensor(rho), torch.tensor(psi))), frk), ('torch ket,dm', float(F(torch.tensor(psi), torch.tensor(rho))), frk),
                     ('torch ket,ket', float(F(torch.tensor(psi), torch.tensor(v1))), fkk)]
            for name, got, want in forms:
                ctx.evaluations += 1
                # dm/dm forms take a matrix square root of a rank-deficient projector: errors of order sqrt(machine eps)
                if not np.isfinite(got) or core.gt(abs(float(got) - want), (1e-6 if 'projector' in name else 1e-8)):
                    ctx.violation('C12:get_fidelity:%s' % name, 'get_fidelity(%s) differs from the exact value %.12g (got %.12g): fidelity is not symmetric / representation independent' % (name, want, float(got)), data)
        except Exception as ex:
            ctx.violation('C12:exception:get_fidelity', type(ex).__name__ + ': ' + str(ex)[:160], data)


def run_qubit(ctx, quick):
    """genuinely quantum pairs: exact Bloch-ball model (MC_Qubit) - exhaustive theorem check, then a residue class of the
    instances replayed into the built-in noise channels / unitaries, get_trace_distance and get_fidelity"""
    import os, numqi
    ch = numqi.channel
    t = 'q' if quick else 't'
    r = tlc.run('tensor/MC_Qubit.tla', 'tensor/MC_Qubit_%s.cfg' % t, timeout=3000)
    ctx.add_model('MC_Qubit(all)', r)
    base = open(os.path.join(tlc.SPECS, 'tensor/MC_Qubit_%ss.cfg' % t)).read()
    mod = int(base.split('SampleMod = ')[1].split()[0])
    cfgp = os.path.join(tlc.scratch(), 'MC_Qubit_sample.cfg')
    with open(cfgp, 'w') as f:
        f.write(base.replace('SampleRes = 3', 'SampleRes = %d' % ((ctx.seed * 31 + 3) % mod)))
    r = tlc.run('tensor/MC_Qubit.tla', cfgp, dump=True, timeout=3000)
    ctx.add_model('MC_Qubit(residue class mod %d)' % mod, r)
    X = np.array([[0, 1], [1, 0]], dtype=complex); Y = np.array([[0, -1j], [1j, 0]]); Z = np.diag([1, -1]).astype(complex); I2 = np.eye(2, dtype=complex)
    dm = lambda r3: (I2 + r3[0] * X + r3[1] * Y + r3[2] * Z) / 2
    n = 0
    for st in tlc.parse_dump(r):
        cfg, obs = st['cfg'], st['obs']
        c = cfg['ch']
        Du, Dv, m = cfg['Du'], cfg['Dv'], obs['m']
        u, v = cfg['u'], cfg['v']
        rho, sig = dm(np.array(u[:3]) / Du), dm(np.array(v[:3]) / Dv)
        if c['kind'] == 'unitary':
            a, b, cc, d = c['q']
            K = ((a * I2 - 1j * (b * X + cc * Y + d * Z)) / 3)[None]
        else:
            K = getattr(ch, 'hf_%s_kraus_op' % c['kind'])(c['j'] / 25)
        data = dict(channel=c['kind'], rate='%d/25' % c['j'] if c['kind'] != 'unitary' else None, quaternion=c['q'] or None, r=[u[:3], Du], s=[v[:3], Dv])
        ctx.case(('qubit', c['kind'], c['j'], tuple(c['q'] or ()), tuple(u), Du, tuple(v), Dv))
        n += 1
        try:
            M, N = m * Du, m * Dv
            rho1, sig1 = dm(np.array(obs['u1']) / M), dm(np.array(obs['v1']) / N)
            outs = dict(apply_kraus_op=(ch.apply_kraus_op(K, rho), ch.apply_kraus_op(K, sig)))
            C = ch.kraus_op_to_choi_op(K)
            S = ch.kraus_op_to_super_op(K)
            outs['apply_choi_op'] = (ch.apply_choi_op(C, rho), ch.apply_choi_op(C, sig))
            outs['apply_super_op'] = (ch.apply_super_op(S, rho), ch.apply_super_op(S, sig))
            for fn, (o1, o2) in outs.items():
                if core.gt(np.abs(o1 - rho1).max(), TOL) or core.gt(np.abs(o2 - sig1).max(), TOL):
                    ctx.violation('C12:%s:qubit-%s' % (fn, c['kind']), 'output state differs from the exact affine Bloch image', data)
            o1, o2 = outs['apply_kraus_op']
            T0, T1 = np.sqrt(obs['d2']) / (2 * Du * Dv), np.sqrt(obs['d2a']) / (2 * m * Du * Dv)
            F0 = obs['fnum'] / (2 * Du * Dv)
            F1 = (M * N + obs['dot1'] + np.sqrt(float(obs['a']) * float(obs['b']))) / (2 * M * N)
            pure = u[3] == 0 or v[3] == 0 or obs['a'] == 0 or obs['b'] == 0     # rank-deficient arguments: sqrtm accurate to sqrt(eps) only
            ftol = 1e-6 if pure else 1e-8
            g = numqi.utils.get_trace_distance
            F = numqi.utils.get_fidelity
            t0, t1 = g(rho, sig), g(o1, o2)
            if core.gt(abs(t0 - T0), 1e-8) or core.gt(abs(g(sig, rho) - T0), 1e-8):
                ctx.violation('C12:get_trace_distance:qubit', 'trace distance differs from |r-s|/2 = %.12g (got %.12g)' % (T0, t0), data)
            if core.gt(abs(t1 - T1), 1e-8):
                ctx.violation('C12:get_trace_distance:qubit-after-channel', 'trace distance after the channel differs from the exact value %.12g (got %.12g); contraction is proved on the exact values' % (T1, t1), data)
            if t1 > t0 + 1e-9:
                ctx.violation('C12:get_trace_distance:contractive', 'trace distance increased under %s' % c['kind'], data)
            f0, f0s, f1 = F(rho, sig), F(sig, rho), F(o1, o2)
            if not (abs(f0 - F0) <= ftol and abs(f0s - F0) <= ftol):
                ctx.violation('C12:get_fidelity:qubit', 'fidelity differs from the exact value %.12g (got %.12g / swapped %.12g)' % (F0, f0, f0s), data)
            if not abs(f1 - F1) <= ftol:
                ctx.violation('C12:get_fidelity:qubit-after-channel', 'fidelity after the channel differs from the exact value %.12g (got %.12g); monotonicity is proved on the exact values' % (F1, f1), data)
            if f1 < f0 - 2 * ftol or not (-ftol <= f1 <= 1 + ftol):
                ctx.violation('C12:get_fidelity:monotone', 'fidelity decreased under %s or left [0,1]' % c['kind'], data)
            ctx.evaluations += 9
            # ---- purity and entropies.  The model delivers the exact rational invariants |r|^2, |s|^2, r.s (before and after the
            # channel); the expected values are the closed-form functions (sqrt, log) of these invariants.
            Ut = numqi.utils
            r2, s2, rs = 1 - (u[3] / Du) ** 2, 1 - (v[3] / Dv) ** 2, (u[0] * v[0] + u[1] * v[1] + u[2] * v[2]) / (Du * Dv)
            r2a, s2a, rsa = 1 - obs['a'] / M ** 2, 1 - obs['b'] / N ** 2, obs['dot1'] / (M * N)
            for tag, st_, x2 in (('input', rho, r2), ('output', o1, r2a)):
                x = math.sqrt(max(x2, 0.0))
                lam = [(1 + x) / 2, (1 - x) / 2]
                H = -sum(l * math.log(l) for l in lam if l > 0)
                if core.gt(abs(Ut.get_purity(st_) - (1 + x2) / 2), 1e-9):
                    ctx.violation('C12:get_purity:qubit', 'purity differs from (1+|r|^2)/2 [%s state]' % tag, data)
                sv = Ut.get_von_neumann_entropy(st_)
                if core.gt(abs(sv - H), 1e-8) or core.gt(-sv, 1e-9) or core.gt(sv - math.log(2), 1e-9):
                    ctx.violation('C12:get_von_neumann_entropy:qubit', 'entropy differs from the binary entropy of (1+|r|)/2 or leaves [0, log 2] [%s state]: %r' % (tag, sv), data)
                for al in (0.5, 2, 3):
                    want = math.log(sum(l ** al for l in lam)) / (1 - al)
                    got = Ut.get_Renyi_entropy(st_, al)
                    if core.gt(abs(got - want), 1e-6 if x2 > 1 - 1e-12 else 1e-8) or core.gt(got - math.log(2), 1e-8) or core.gt(-got, 1e-6):
                        ctx.violation('C12:get_Renyi_entropy:qubit', 'Renyi entropy (alpha=%s) of the %s state is %r, expected %.12g (range [0, log 2])' % (al, tag, got, want), data)

            def trlog(x2, y2, xy):          # Tr rho log rho (y = x) or Tr rho log sigma, from the invariants
                y = math.sqrt(y2)
                base = 0.5 * math.log((1 - y2) / 4)
                return base if y == 0 else base + (xy / (2 * y)) * math.log((1 + y) / (1 - y))
            if s2 < 1 and s2a < 1:          # sigma of full rank (otherwise the relative entropy is infinite)
                E0 = (trlog(r2, r2, r2) if r2 < 1 else 0.0) - trlog(r2, s2, rs)
                E1 = (trlog(r2a, r2a, r2a) if r2a < 1 else 0.0) - trlog(r2a, s2a, rsa)
                e0, e1 = Ut.get_relative_entropy(rho, sig), Ut.get_relative_entropy(o1, o2)
                if core.gt(abs(e0 - E0), 1e-7) or core.gt(abs(e1 - E1), 1e-7):
                    ctx.violation('C12:get_relative_entropy:qubit', 'relative entropy differs from the closed form in the Bloch invariants (got %r / %r, expected %.12g / %.12g)' % (e0, e1, E0, E1), data)
                if core.gt(e1 - e0, 1e-8) or core.gt(-e1, 1e-8):
                    ctx.violation('C12:get_relative_entropy:monotone', 'relative entropy increased under %s or is negative' % c['kind'], data)
            ctx.evaluations += 12
        except Exception as ex:
            ctx.violation('C12:exception:qubit', type(ex).__name__ + ': ' + str(ex)[:160], data)
    ctx.traces += n
    ctx.sample(dict(kind='qubit-pair', cfg=cfg, obs=obs))


def run(ctx):
    quick = ctx.tier == 'quick'
    rng = random.Random(ctx.seed)
    ctx.rule = ('channels: every (dim_in, dim_out) in 1..%d incl. non-square, 1..%d Kraus terms with Gaussian-integer entries plus trace-preserving integer families; every matrix unit through all '
                'three apply forms and all conversions; built-in noise channels at rates 0,1/4,1/2,3/4,1; classical subdomain: diagonal rational states x relabelling channels (exhaustive model, '
                '%s instances replayed); qubit pairs: every rational Bloch-ball point with rational purity defect (denominators %s) x dephasing / depolarizing / amplitude damping at 4-5 rates x 5 rational unitaries, exhaustive theorem check and one residue class of instances replayed; distinct by instance' % (3 if quick else 4, 2 if quick else 4, '600' if quick else 'all', '{3,5}x{2,3}' if quick else '{2,3,5,7}x{1,3,5,6}'))
    ctx.assumptions = ['TLC/SANY correct', 'tolerance 1e-9 (1e-8 for eigen-decomposition based routines)', 'Gell-Mann coordinates verified by C16']
    ctx.not_covered = ['entropies beyond one qubit (on the qubit: closed-form functions of the exact Bloch invariants of MC_Qubit)', 'contractivity for quantum pairs beyond one qubit (qubit pairs: exact Bloch-ball model MC_Qubit)', 'fidelity after a non-injective relabelling channel only as an inequality']
    r = tlc.run('tensor/MC_Channel.tla', 'tensor/MC_Channel_%s.cfg' % ('q' if quick else 't'), dump=True, timeout=3000)
    ctx.add_model('MC_Channel', r)
    sts = list(tlc.parse_dump(r))
    run_channels(ctx, sts, rng)
    ctx.traces += len(sts)
    run_noise(ctx)
    r = tlc.run('tensor/MC_PureFid.tla', 'tensor/MC_PureFid_%s.cfg' % ('q' if quick else 't'), dump=True, timeout=3000)
    ctx.add_model('MC_PureFid', r)
    sts = list(tlc.parse_dump(r))
    run_purefid(ctx, sts)
    ctx.traces += len(sts)
    r = tlc.run('tensor/MC_Classical.tla', 'tensor/MC_Classical_%s.cfg' % ('q' if quick else 't'), dump=True, timeout=3000)
    ctx.add_model('MC_Classical', r)
    sts = list(tlc.parse_dump(r))
    run_classical(ctx, sts, rng, 600 if quick else 10**9)
    run_qubit(ctx, quick)
    ctx.traces += min(len(sts), 600 if quick else 10**9)


def replay(ctx, rec):
    print('replay', rec['key'], rec['what'], rec['data'])
    return 0
