"""C19 - shipped quantum codes satisfy Knill-Laflamme and their listed stabilizers.
specs: specs/qec/{Stabilizer,MC_QEC,Trace_QEC}.tla (on specs/pauli/Clifford.tla)"""
import ast, inspect, json, os, random, itertools
import numpy as np
from .. import tlc, core
from .c07 import export_gates

LET = 'IXYZ'
_P = {1: np.array([[0, 1], [1, 0]], dtype=complex), 2: np.array([[0, -1j], [1j, 0]]), 3: np.array([[1, 0], [0, -1]], dtype=complex)}
CODES = ['523', '422', '442', '642', '883', '8_64_2', '10_4_4']


def letter_of(mat):
    for k, m in _P.items():
        if mat.shape == (2, 2) and np.array_equal(np.asarray(mat), m):
            return k
    return None


def err_letters(entry, n):
    l = [0] * n
    for idx, mat in entry:
        k = letter_of(np.asarray(mat))
        if k is None or len(idx) != 1 or l[idx[0]] != 0:
            return None
        l[idx[0]] = k
    return l


def apply_pauli(letters, sign, vec):
    """independent Pauli application on a state vector (qubit 0 = most significant bit)"""
    n = len(letters)
    v = vec.reshape([2] * n)
    for q, c in enumerate(letters):
        if c:
            v = np.moveaxis(np.tensordot(_P[c], v, axes=([1], [q])), 0, q)
    return (1j ** sign) * v.reshape(-1)


def pauli_matrix(letters):
    m = np.array([[1.0 + 0j]])
    for c in letters:
        m = np.kron(m, _P[c] if c else np.eye(2))
    return m


def listed_strings(fn):
    """the stabilizer strings listed in the source of generate_codeXXX (they exist only as literals)"""
    src = inspect.getsource(fn)
    tree = ast.parse(src)
    out = None
    for node in ast.walk(tree):
        if isinstance(node, ast.Assign) and isinstance(node.value, ast.List) and node.value.elts and \
                all(isinstance(e, ast.Constant) and isinstance(e.value, str) and set(e.value) <= set('IXYZ') for e in node.value.elts):
            out = [e.value for e in node.value.elts]
    return out


def check_code(ctx, name, rng, crosscheck=True, dmax=None):
    import numqi
    code = getattr(numqi.qec, 'generate_code' + name)()
    n, K, d = code['num_qubit'], code['num_logical_dim'], code['distance']
    k = K.bit_length() - 1
    tag = '((%d,%d,%d))' % (n, K, d)
    if dmax is not None and d > dmax:
        d = dmax                     # quick tier of the largest code: errors below weight dmax only (stabilizers, circuits and code words in full)

    def bad(what, clause, data=None):
        ctx.violation('C19:%s:%s' % (name, what), '%s %s: %s' % (tag, what, clause), data)
    gates = export_gates(code['encode'])
    if any(g[0] in ('?', 'C?') for g in gates) or 2 ** k != K:
        raise core.MachineryError('encoder of %s is outside the Clifford vocabulary of the specification' % name)
    listed = listed_strings(getattr(numqi.qec, 'generate_code' + name)) or []
    path = os.path.join(tlc.scratch(), 'code_%s.json' % name)
    json.dump(dict(n=n, k=k, d=d, gates=gates, listed=[[LET.index(c) for c in s] for s in listed], crosscheck=bool(crosscheck)), open(path, 'w'))
    r = tlc.run('qec/MC_QEC.tla', env={'CODE_FILE': path}, dump=True, timeout=7200, tag='MC_QEC_' + name)
    ctx.add_model('MC_QEC%s' % tag, r)
    pr = {v[0]: v[1] for v in r.prints if isinstance(v, list) and len(v) == 2 and isinstance(v[0], str)}
    if pr.get('GENSOK') is not True:
        raise core.MachineryError('generator self-check failed for ' + name)
    states = list(tlc.parse_dump(r))
    want = sum(3 ** w * len(list(itertools.combinations(range(n), w))) for w in range(1, d))
    if len(states) != want:
        raise core.MachineryError('error set of the model has %d elements, expected %d' % (len(states), want))
    exp = {tuple(st['info']['letters']): st['info'] for st in states}
    # (1) TLC's verdict on the encoder program: KL for every error below the distance
    for lt, info in exp.items():
        ctx.case(('kl', name, lt))
        if not info['kl']:
            bad('knill-laflamme', 'encoder violates Knill-Laflamme for error ' + ''.join(LET[c] for c in lt), dict(error=''.join(LET[c] for c in lt), gates=gates))
    # (2) listed strings are in +<S>
    for s, ok in zip(listed, pr.get('LISTED', [])):
        ctx.case(('listed', name, s))
        if not ok:
            bad('listed-stabilizer', 'listed string %s is not in +<S> of the encoder' % s, dict(string=s, gates=gates))
    # (3) state vectors
    try:
        code_np = numqi.qec.generate_code_np(code['encode'], K)
        gram = code_np.conj() @ code_np.T
        if core.gt(np.abs(gram - np.eye(K)).max(), 1e-9):
            bad('codewords', 'code words are not orthonormal')
        for gl, gs in pr['GENS']:
            for j in range(K):
                if core.gt(np.abs(apply_pauli(gl, gs, code_np[j]) - code_np[j]).max(), 1e-9):
                    bad('codewords', 'code word %d is not a +1 eigenvector of spec-derived generator %s' % (j, ''.join(LET[c] for c in gl)))
                    break
        for s in listed:
            lt = [LET.index(c) for c in s]
            for j in range(K):
                if core.gt(np.abs(apply_pauli(lt, 0, code_np[j]) - code_np[j]).max(), 1e-9):
                    bad('listed-stabilizer', 'listed string %s does not fix code word %d' % (s, j), dict(string=s))
                    break
        # (4) error list and KL inner products of the real code
        errs = numqi.qec.make_error_list(n, d)
        seen = {}
        for e in errs:
            lt = err_letters(e, n)
            seen[tuple(lt) if lt else None] = seen.get(tuple(lt) if lt else None, 0) + 1
        if None in seen or set(seen) != set(exp) or any(v != 1 for v in seen.values()):
            bad('make_error_list', 'error list is not {P : 1 <= wt P <= d-1} with multiplicity one',
                dict(missing=len(set(exp) - set(seen)), extra=len(set(seen) - set(exp)), repeated=sum(1 for v in seen.values() if v > 1)))
        ip = numqi.qec.knill_laflamme_inner_product(code_np, errs)
        for e, m in zip(errs, ip):
            lt = err_letters(e, n)
            if lt is None or tuple(lt) not in exp:
                continue
            ce = exp[tuple(lt)]['ce']
            want_m = np.zeros((K, K)) if ce < 0 else (1j ** ce) * np.eye(K)
            if core.gt(np.abs(m - want_m).max(), 1e-9):
                bad('knill_laflamme_inner_product', '<i|E|j> differs from c_E delta_ij decided by the specification for E=' + ''.join(LET[c] for c in lt), dict(error=lt, ce=ce))
        ctx.traces += len(errs)
        # the loss the variational search minimises is a second route to the same conditions: it vanishes on a code (both norms, both backends)
        import torch
        for kind in ('L1', 'L2'):
            l0 = float(numqi.qec.knill_laflamme_loss(ip, kind))
            l1 = float(numqi.qec.knill_laflamme_loss(torch.tensor(ip), kind))
            if core.gt(abs(l0), 1e-8) or core.gt(abs(l1), 1e-8):
                bad('knill_laflamme_loss', 'the %s loss of a code that satisfies Knill-Laflamme is %.3g (torch %.3g), not zero' % (kind, l0, l1))
        cs = np.asarray(numqi.qec.check_stabilizer(code['stabilizer'], code_np))
        if cs.shape != (K, len(code['stabilizer'])) or core.gt(np.abs(cs - 1).max(), 1e-9):
            bad('check_stabilizer', 'expectation values of the shipped stabilizer circuits on the code words are not all +1')
        # (5) shipped stabilizer circuits implement the listed strings
        for s, circ in zip(listed, code['stabilizer']):
            ctx.case(('stabcirc', name, s))
            nq = circ.num_qubit
            if any(c != 'I' for c in s[nq:]):
                bad('stabilizer-circuit', 'circuit for %s acts on fewer qubits than the string' % s, dict(string=s))
                continue
            U = circ.to_unitary()
            if core.gt(np.abs(U - pauli_matrix([LET.index(c) for c in s[:nq]])).max(), 1e-9):
                bad('stabilizer-circuit', 'shipped stabilizer circuit does not implement its listed Pauli string', dict(string=s))
    except Exception as ex:
        bad('exception', repr(ex))
        return None
    ctx.sample(dict(kind='code', code=tag, encoder_gates=gates[:6] + ['...'], errors_decided=len(exp), generators=[''.join(LET[c] for c in g[0]) for g in pr['GENS']][:3]))
    return dict(n=n, k=k, d=d, K=K, gates=gates, code_np=code_np, name=name)


def g2(m):
    return [[[int(round(z.real)), int(round(z.imag))] for z in row] for row in m]


def run(ctx):
    import numqi
    quick = ctx.tier == 'quick'
    rng = random.Random(ctx.seed)
    names = CODES + ['11_2_5']           # the quick tier decides the ((11,2,5)) code for errors of weight <= 2 only (every stabilizer, circuit and code word in full)
    ctx.rule = ('every shipped code %s: every Pauli error of weight 1..d-1 decided by TLC from the live encoder gate list (one state per error), every '
                'listed stabilizer, every code word; error-set generators for n<=6,d<=4 and Z-weights 1,3/2,2,3; weight enumerators for n<=%d; distinct by (code,error)'
                % (names, 6 if quick else 8))
    ctx.assumptions = ['TLC/SANY correct', 'state-vector comparisons at tolerance 1e-9', 'listed stabilizer strings are read from the source text of generate_code* (they exist only as literals)']
    ctx.tolerances = {'state-vector': 1e-9}
    infos = {}
    for nm in names:
        infos[nm] = check_code(ctx, nm, rng, crosscheck=(nm != '11_2_5'), dmax=(3 if (quick and nm == '11_2_5') else None))
    # ---- recorded events validated by TLC
    ev = []
    for n in range(1, 7):
        for d in range(2, 5):
            try:
                items = [err_letters(e, n) for e in numqi.qec.make_error_list(n, d)]
                if any(x is None for x in items):
                    ctx.violation('C19:make_error_list:form', 'entry is not a product of single-qubit X/Y/Z on distinct qubits', dict(n=n, d=d))
                else:
                    ev.append(dict(op='errset', asym=False, n=n, d=d, p=1, q=1, items=items))
                for p, q in [(1, 1), (3, 2), (2, 1), (3, 1)]:
                    if n > 5 and not (p, q) in [(1, 1), (2, 1)] and quick:
                        continue
                    items = [err_letters(e, n) for e in numqi.qec.make_asymmetric_error_set(n, d, weight_z=p / q)]
                    if any(x is None for x in items):
                        ctx.violation('C19:make_asymmetric_error_set:form', 'entry is not a product of single-qubit X/Y/Z on distinct qubits', dict(n=n, d=d, wz=p / q))
                    else:
                        ev.append(dict(op='errset', asym=True, n=n, d=d, p=p, q=q, items=items))
            except Exception as ex:
                ctx.violation('C19:exception:error-set', repr(ex), dict(n=n, d=d))
    for nm, info in infos.items():
        if info is None:
            continue
        if info['n'] <= (6 if quick else 8):
            try:
                A, B = numqi.qec.quantum_weight_enumerator(info['code_np'])
                if core.gt(np.abs(A - np.round(A)).max(), 1e-7) or core.gt(np.abs(B - np.round(B)).max(), 1e-7):
                    ctx.violation('C19:%s:weight-enumerator' % nm, 'weight enumerator of a stabilizer code is not integral', dict(A=A.tolist(), B=B.tolist()))
                ev.append(dict(op='qwe', code=nm, n=info['n'], k=info['k'], d=info['d'], gates=info['gates'], A=[int(round(x)) for x in A], B=[int(round(x)) for x in B]))
            except Exception as ex:
                ctx.violation('C19:exception:quantum_weight_enumerator', repr(ex), dict(code=nm))
        # KL matrices incl. errors of weight d (polarity: some violate KL), validated as full matrices by TLC
        if info['K'] <= 8:
            n, d = info['n'], info['d']
            pool = []
            for _ in range(30 if quick else 200):
                w = rng.choice([1, d - 1, d, d])
                qs = rng.sample(range(n), min(n, max(1, w)))
                lt = [0] * n
                for qq in qs:
                    lt[qq] = rng.randint(1, 3)
                pool.append(lt)
            ops = [[([qq], _P[c]) for qq, c in enumerate(lt) if c] for lt in pool]
            try:
                ip = numqi.qec.knill_laflamme_inner_product(info['code_np'], ops)
                for lt, m in zip(pool, ip):
                    if core.gt(np.abs(m - np.round(m)).max(), 1e-9):
                        ctx.violation('C19:%s:knill_laflamme_inner_product' % nm, 'inner product of a stabilizer code with a Pauli is not a Gaussian integer', dict(error=lt))
                    ev.append(dict(op='kl', code=nm, n=n, k=info['k'], gates=info['gates'], err=lt, mat=g2(m)))
            except Exception as ex:
                ctx.violation('C19:exception:knill_laflamme_inner_product', repr(ex), dict(code=nm))
    acc, rej, results = tlc.validate_events('qec/Trace_QEC.tla', 'qec/Trace_QEC.cfg', ev, shards=16, timeout=7200)
    for r in results:
        ctx.states += r.distinct
        ctx.transitions += r.generated
    ctx.models.append(dict(model='Trace_QEC', events=len(ev), accepted=acc, rejected=len(rej), exhaustive=False))
    ctx.traces += len(ev)
    nonkl = 0
    for e in ev:
        ctx.case((e['op'], e.get('code'), e.get('n'), e.get('d'), e.get('p'), e.get('q'), repr(e.get('err'))))
    for gi, info in rej:
        e = ev[gi]
        if e['op'] == 'errset':
            key = 'C19:%s:set' % ('make_asymmetric_error_set' if e['asym'] else 'make_error_list')
            ctx.violation(key, 'generated error set differs from the specified set (n=%d d=%d wz=%d/%d)' % (e['n'], e['d'], e['p'], e['q']), dict(n=e['n'], d=e['d'], p=e['p'], q=e['q'], count=len(e['items'])))
        elif e['op'] == 'qwe':
            ctx.violation('C19:%s:weight-enumerator' % e['code'], 'quantum_weight_enumerator differs from the stabilizer/normalizer weight distribution', dict(A=e['A'], B=e['B']))
        else:
            ctx.violation('C19:%s:knill_laflamme_inner_product' % e['code'], 'inner-product matrix rejected by Trace_QEC', dict(err=e['err'], mat=e['mat']))
    ctx.sample(dict(kind='errset-event', event={k: v for k, v in ev[3].items() if k != 'items'}, first_items=ev[3]['items'][:4]))
    kl = [e for e in ev if e['op'] == 'kl']
    if kl:
        ctx.sample(dict(kind='kl-event', event={k: v for k, v in kl[0].items() if k != 'gates'}))


def replay(ctx, rec):
    print('replay', rec['key'], rec['what'], rec['data'])
    return 0
