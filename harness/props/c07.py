"""C07 - Clifford tableau simulation equals unitary conjugation for any gate history.
specs: specs/pauli/{Clifford,CliffordCircuit,MC_CliffordGates,MC_Clifford,MC_CliffordCircuit,Trace_CliffordCircuit,Trace_Clifford}.tla"""
import random
import numpy as np
from .. import tlc, core
from .c08 import code_to_f2, f2_to_code

G1 = ['X', 'Y', 'Z', 'H', 'S']
G2 = ['CX', 'CY', 'CZ']
_MAT = {'X': np.array([[0, 1], [1, 0]]), 'Y': np.array([[0, -1j], [1j, 0]]), 'Z': np.array([[1, 0], [0, -1]]),
        'H': np.array([[1, 1], [1, -1]]) / np.sqrt(2), 'S': np.array([[1, 0], [0, 1j]])}
li = lambda a: [int(x) for x in a]


def build(word):
    from numqi.sim.clifford import CliffordCircuit
    c = CliffordCircuit()
    for g in word:
        if g['b'] == 0:
            getattr(c, g['k'])(g['a'] - 1)
        else:
            getattr(c, g['k'])(g['a'] - 1, g['b'] - 1)
    return c


def dense_pauli(f2):
    import numqi
    return numqi.gate.PauliOperator.from_F2(np.array(f2, dtype=np.uint8)).full_matrix


def replay_closure(ctx, n, states, rng):
    import numqi
    from numqi.sim.clifford import apply_clifford_on_pauli, clifford_array_to_F2
    K = 4 ** (n + 1)
    quick = ctx.tier == 'quick'

    def bad(fn, clause, data):
        ctx.violation('C07:%s:%s' % (fn, clause), '%s: %s (n=%d)' % (fn, clause, n), data)
    gens = [f2_to_code([0, 0] + [1 if j == k else 0 for j in range(2 * n)]) for k in range(2 * n)]
    nrep = 0
    for si, st in enumerate(states):
        word = st['path']
        obs = st['obs']
        r = np.array(obs['r'], dtype=np.uint8)
        S = np.array(obs['S'], dtype=np.uint8)
        data = dict(n=n, word=[[g['k'], g['a'] - 1, g['b'] - 1] for g in word])
        ctx.case(('closure', n, tuple(obs['r']), tuple(map(tuple, obs['S']))))
        full = (not quick) or (si % 16 == 0)
        plist = list(range(K)) if full else gens + [rng.randrange(K) for _ in range(4)]
        # (i) every (r,S) acts as the spec says - independent of CliffordCircuit
        try:
            for pc in plist:
                got = apply_clifford_on_pauli(code_to_f2(pc, n), r, S)
                if f2_to_code(got) != obs['acts'][pc]:
                    bad('apply_clifford_on_pauli', 'image of a phased Pauli', dict(data, r=li(r), S=[li(x) for x in S], pauli=li(code_to_f2(pc, n)), expected=li(code_to_f2(obs['acts'][pc], n)), got=li(got)))
                    break
        except Exception as ex:
            bad('exception', type(ex).__name__ + ' in apply_clifford_on_pauli', dict(data, error=repr(ex)))
        if not word:
            continue
        if max(max(g['a'], g['b']) for g in word) < n:
            continue   # the library infers a smaller register for this word; covered by the smaller model
        nrep += 1
        try:
            c = build(word)
            cr, cS = c.to_symplectic_form()
            if not (np.array_equal(cr, r) and np.array_equal(cS, S)):
                bad('CliffordCircuit.to_symplectic_form', 'tableau of the gate word', dict(data, expected_r=li(r), got_r=li(cr)))
            for pc in plist:
                got = c.apply_pauli_F2(code_to_f2(pc, n))
                if f2_to_code(got) != obs['acts'][pc]:
                    bad('CliffordCircuit.apply_pauli_F2', 'U^dagger P U', dict(data, pauli=li(code_to_f2(pc, n))))
                    break
            if full or si % 4 == 0:
                U = c.to_universal_circuit().to_unitary()
                Ud = U.conj().T
                for pc in gens:
                    lhs = Ud @ dense_pauli(code_to_f2(pc, n)) @ U
                    rhs = dense_pauli(code_to_f2(obs['acts'][pc], n))
                    if core.gt(np.abs(lhs - rhs).max(), 1e-9):
                        bad('to_universal_circuit/state-vector', 'U^dagger P U by the state-vector simulator differs from the tableau', dict(data, pauli=li(code_to_f2(pc, n))))
                        break
                ar, aS = clifford_array_to_F2(Ud)
                if not (np.array_equal(ar, r) and np.array_equal(aS, S)):
                    bad('clifford_array_to_F2', '(r,S) of a Clifford unitary', data)
        except Exception as ex:
            bad('exception', type(ex).__name__ + ' in closure replay', dict(data, error=repr(ex)))
    ctx.sample(dict(kind='closure-state', n=n, word=[[g['k'], g['a'] - 1, g['b'] - 1] for g in states[len(states) // 2]['path']],
                    r=states[len(states) // 2]['obs']['r'], S=states[len(states) // 2]['obs']['S']))
    return nrep


def record_multiply(ctx, n, states, rng, count):
    """clifford_multiply on random pairs of group elements: recorded, validated by Trace_Clifford (code -> spec)"""
    from numqi.sim.clifford import clifford_multiply
    ev = []
    for _ in range(count):
        a, b = rng.choice(states)['obs'], rng.choice(states)['obs']
        rx, Sx = np.array(a['r'], dtype=np.uint8), np.array(a['S'], dtype=np.uint8)
        ry, Sy = np.array(b['r'], dtype=np.uint8), np.array(b['S'], dtype=np.uint8)
        try:
            rz, Sz = clifford_multiply(rx, Sx, ry, Sy)
            ev.append(dict(op='multiply', rx=li(rx), Sx=[li(v) for v in Sx], ry=li(ry), Sy=[li(v) for v in Sy], rz=li(rz), Sz=[li(v) for v in Sz]))
        except Exception as ex:
            ctx.violation('C07:exception:clifford_multiply', repr(ex), dict(rx=li(rx), ry=li(ry)))
    return ev


APPLY_P = {1: lambda n: [0, 0] + [1] + [0] * (n - 1) + [0] * n,               # X_0
           2: lambda n: [0, 1] + [0] * (n - 1) + [1] + [0] * (n - 1) + [1],   # Y on the last qubit
           3: lambda n: [1, 1] + [1] * n + [1] + [0] * (n - 1)}               # -i X..X Z_0


def export_gates(circ):
    out = []
    for gate, index in circ.gate_index_list:
        arr = np.asarray(gate.array)
        name = [k for k, m in _MAT.items() if arr.shape == m.shape and np.abs(arr - m).max() < 1e-12]
        name = name[0] if name else '?'
        if gate.kind == 'unitary':
            out.append([name, int(index[0]) + 1, 0])
        else:
            out.append(['C' + name, int(sorted(index[0])[0]) + 1, int(index[1][0]) + 1])
    return out


def run_history(hist):
    """drive a real CliffordCircuit along an operation word; one event per public call, logged at its return"""
    from numqi.sim.clifford import CliffordCircuit
    c = CliffordCircuit()
    ev = []
    for h in hist:
        try:
            if h['op'] == 'app':
                if h['b'] == 0:
                    getattr(c, h['k'])(h['a'] - 1)
                else:
                    getattr(c, h['k'])(h['a'] - 1, h['b'] - 1)
                ev.append(dict(op='app', k=h['k'], a=h['a'], b=h['b']))
            elif h['op'] in ('qry', 'apply') and not c.gate_index_list:
                ev.append(dict(op='noqry'))        # precondition of a query fails (the generator drew only identities so far): the specification must agree
            elif h['op'] == 'rnd':
                before = len(c.gate_index_list)
                if h['b'] == 0:
                    c.random_one_qubit_gate(h['a'] - 1)
                else:
                    c.random_two_qubit_gate(h['a'] - 1, h['b'] - 1)
                new = list(c.gate_index_list[before:])           # the appended entry is the logged field that binds the generator's choice
                ent = list(new[0]) + [-1] if new else ['I', h['a'] - 1, h['b'] - 1]
                ev.append(dict(op='rnd', a=h['a'], b=h['b'], count=len(new), k=str(ent[0]), ra=int(ent[1]) + 1, rb=int(ent[2]) + 1))
            elif h['op'] == 'qry':
                r, S = c.to_symplectic_form()
                ev.append(dict(op='qry', n=int(c.num_qubit), r=li(r), S=[li(v) for v in S]))
            elif h['op'] == 'apply':
                n = c.num_qubit
                p = h['p'] if 'p' in h else APPLY_P[h['a']](n)
                res = c.apply_pauli_F2(np.array(p, dtype=np.uint8))
                ev.append(dict(op='apply', p=li(p), res=li(res)))
            elif h['op'] == 'export':
                ev.append(dict(op='export', gates=export_gates(c.to_universal_circuit())))
        except Exception as ex:
            ev.append(dict(op='exception', at=h['op'], error=repr(ex)))
            break
    return ev


def random_history(rng, nq, length, with_rnd=False):
    hist = []
    for _ in range(length):
        u = rng.random()
        if u < (0.50 if with_rnd else 0.55) or not hist:
            if rng.random() < 0.5 or nq == 1:
                hist.append(dict(op='app', k=rng.choice(G1), a=rng.randint(1, nq), b=0))
            else:
                a, b = rng.sample(range(1, nq + 1), 2)
                hist.append(dict(op='app', k=rng.choice(G2), a=a, b=b))
        elif u < 0.62 and with_rnd:
            if rng.random() < 0.5 or nq == 1:
                hist.append(dict(op='rnd', a=rng.randint(1, nq), b=0))
            else:
                a, b = rng.sample(range(1, nq + 1), 2)
                hist.append(dict(op='rnd', a=a, b=b))
        elif u < 0.75:
            hist.append(dict(op='qry'))
        elif u < 0.92 and with_rnd:
            hist.append(dict(op='apply', a=rng.randint(1, 3)))      # the Pauli is sized from the object's num_qubit at run time
        elif u < 0.92:
            n = max(max(h.get('a', 0), h.get('b', 0)) for h in hist if h['op'] in ('app', 'rnd'))
            hist.append(dict(op='apply', p=[rng.randrange(2) for _ in range(2 * n + 2)]))
        else:
            hist.append(dict(op='export'))
    return hist


def classify(hist, l):
    """canonical key of a rejected event: what kind of history precedes it"""
    ops = [h['op'] for h in hist[:l]]
    seen_q = False
    stale = False
    for o in ops[:-1]:
        if o in ('qry', 'apply'):
            seen_q = True
        if o in ('app', 'rnd') and seen_q:
            stale = True
    return 'append-after-query' if stale else 'fresh'


def validate_histories(ctx, hists, label):
    traces = [run_history(h) for h in hists]
    bad_ex = [(h, t) for h, t in zip(hists, traces) if t and t[-1]['op'] == 'exception']
    for h, t in bad_ex:
        ctx.violation('C07:history:exception:%s' % t[-1]['at'], 'exception during history: ' + t[-1]['error'], dict(history=h))
    ok = [(h, t) for h, t in zip(hists, traces) if not (t and t[-1]['op'] == 'exception') and t]
    acc, rej, results = tlc.validate_events('pauli/Trace_CliffordCircuit.tla', 'pauli/Trace_CliffordCircuit.cfg', [t for _, t in ok],
                                            shards=min(16, max(1, len(ok) // 300)), per_trace=True)
    for r in results:
        ctx.states += r.distinct
        ctx.transitions += r.generated
    ctx.models.append(dict(model='Trace_CliffordCircuit[%s]' % label, traces=len(ok), accepted=acc, rejected=len(rej), exhaustive=False))
    ctx.traces += len(ok)
    for h, t in ok:
        ctx.case(('hist', repr(h)))
    for gi, info in rej:
        h, t = ok[gi]
        l = info[1]
        kind = classify(h, l)
        ctx.violation('C07:CliffordCircuit:%s:%s' % (t[l - 1]['op'], kind),
                      'history rejected by Trace_CliffordCircuit at event %d (%s): result does not reflect the gates appended so far [%s]' % (l, t[l - 1]['op'], kind),
                      dict(history=h, trace=t, event=l))
    if ok:
        ctx.sample(dict(kind='history-' + label, history=ok[len(ok) // 2][0], recorded=ok[len(ok) // 2][1]))


def validate_repo_tests(ctx):
    """traces recorded from the repository's own tests (harness/recorder.py) validated against the same trace specification"""
    from .. import repotrace
    d = repotrace.record()
    traces = d['cliff']
    if not traces:
        raise core.MachineryError('the repository tests produced no CliffordCircuit trace: ' + d['pytest_tail'])
    acc, rej, results = tlc.validate_events('pauli/Trace_CliffordCircuit.tla', 'pauli/Trace_CliffordCircuit.cfg', traces, shards=1, per_trace=True)
    for r in results:
        ctx.states += r.distinct
        ctx.transitions += r.generated
    ctx.models.append(dict(model='Trace_CliffordCircuit[repository tests]', traces=len(traces), events=sum(len(t) for t in traces), accepted=acc, rejected=len(rej),
                           pytest=d['pytest_tail'], exhaustive=False))
    ctx.traces += len(traces)
    for t in traces:
        ctx.case(('repo-test-trace', len(t), repr(t[:12])))
    for gi, info in rej:
        t = traces[gi]
        l = info[1]
        ctx.violation('C07:CliffordCircuit:%s:repository-test' % t[l - 1]['op'],
                      'a CliffordCircuit history executed by the repository tests is rejected by Trace_CliffordCircuit at event %d (%s)' % (l, t[l - 1]['op']),
                      dict(trace=t[:l], event=l))


def run(ctx):
    quick = ctx.tier == 'quick'
    rng = random.Random(ctx.seed)
    ctx.rule = ('closure: every element of the 1- and 2-qubit Clifford groups modulo phase (= every (r,S), 24 and 11520) with a witness '
                'gate word, replayed; histories: every interleaving of append/query/apply/export up to length %d on 2 qubits plus random '
                'histories up to length 40 on 1-4 qubits; distinct by tableau / by operation word' % (3 if quick else 4))
    ctx.assumptions = ['TLC/SANY and the TLA+ value parser are correct', 'numpy uint8 arithmetic exact; dense comparison tolerance 1e-9']
    ctx.tolerances = {'dense': 1e-9}
    r = tlc.run('pauli/MC_CliffordGates.tla')
    ctx.add_model('MC_CliffordGates(N=3)', r)
    allstates = {}
    for n in (1, 2):
        r = tlc.run('pauli/MC_Clifford.tla', 'pauli/MC_Clifford_n%d.cfg' % n, dump=True, timeout=3000)
        ctx.add_model('MC_Clifford(N=%d)' % n, r)
        want = {1: 24, 2: 11520}[n]
        if r.distinct != want:
            raise core.MachineryError('Clifford closure has %d states, expected %d' % (r.distinct, want))
        states = list(tlc.parse_dump(r))
        allstates[n] = states
        ctx.traces += replay_closure(ctx, n, states, rng)
    ev = []
    for n in (1, 2):
        ev += record_multiply(ctx, n, allstates[n], rng, 300 if quick else 6000)
    acc, rej, results = tlc.validate_events('pauli/Trace_Clifford.tla', 'pauli/Trace_Clifford.cfg', ev)
    for r in results:
        ctx.states += r.distinct
        ctx.transitions += r.generated
    ctx.models.append(dict(model='Trace_Clifford', events=len(ev), accepted=acc, exhaustive=False))
    ctx.traces += len(ev)
    for gi, info in rej:
        ctx.violation('C07:clifford_multiply:composition', 'clifford_multiply result is not the composition (y after x)', ev[gi])
    for e in ev:
        ctx.case(('mul', repr(e['rx']), repr(e['Sx']), repr(e['ry']), repr(e['Sy'])))
    # ---- histories
    r = tlc.run('pauli/MC_CliffordCircuit.tla', 'pauli/MC_CliffordCircuit_%s.cfg' % ('q' if quick else 't'), dump=True, timeout=3000)
    ctx.add_model('MC_CliffordCircuit(%s)' % ('len<=3' if quick else 'len<=4'), r)
    hists = [st['hist'] for st in tlc.parse_dump(r) if st['hist']]
    if quick:
        # length 4 with the reduced vocabulary {H,S,CX}: the shortest histories with a query, an append and a second query
        r = tlc.run('pauli/MC_CliffordCircuit.tla', 'pauli/MC_CliffordCircuit_q4.cfg', dump=True, timeout=3000)
        ctx.add_model('MC_CliffordCircuit(len<=4,{H,S,CX})', r)
        seen = set(repr(h) for h in hists)
        hists += [st['hist'] for st in tlc.parse_dump(r) if st['hist'] and repr(st['hist']) not in seen]
    validate_histories(ctx, hists, 'exhaustive')
    rh = []
    for i in range(300 if quick else 3000):
        rh.append(random_history(rng, rng.randint(1, 4), rng.randint(3, 40)))
    validate_histories(ctx, rh, 'random')
    # generator-chosen gates (random_one_qubit_gate / random_two_qubit_gate) interleaved with queries: exhaustive short histories of the
    # q4r instance and random long ones; the gate drawn is read back from the gate list and bound to the RandomGate action
    r = tlc.run('pauli/MC_CliffordCircuit.tla', 'pauli/MC_CliffordCircuit_q4r.cfg', dump=True, timeout=3000)
    ctx.add_model('MC_CliffordCircuit(len<=4,{H}+random helpers)', r)
    seen = set()
    hr = []
    for st in tlc.parse_dump(r):
        if st['hist'] and any(h['op'] == 'rnd' for h in st['hist']) and repr(st['hist']) not in seen:
            seen.add(repr(st['hist']))
            hr.append(st['hist'])
    for i in range(150 if quick else 1500):
        hr.append(random_history(rng, rng.randint(1, 4), rng.randint(3, 30), with_rnd=True))
    validate_histories(ctx, hr, 'random-helpers')
    validate_repo_tests(ctx)


def replay(ctx, rec):
    d = rec['data']
    print('replay', rec['key'])
    if 'history' in d:
        ctx2 = core.Ctx('C07', 'quick', 0)
        validate_histories(ctx2, [d['history']], 'replay')
        for v in ctx2.violations:
            print('  reproduced:', v['key'], v['what'])
        return 1 if ctx2.violations else 0
    print(d)
    return 0
