"""C01 - every trivialization map lands on its manifold.
specs: specs/manifold/{MC_ManifoldArgs,Trace_Manifold}.tla, specs/rng/Sets.tla (membership claims on rounded outputs)

TLC enumerates the option lattice of numqi.manifold (class x method x field x precision x batch shape x dimension x rank x
magnitude of theta).  For each descriptor the driver instantiates the module, sets its parameters, records the module output, the
functional map on the same parameters in PyTorch and NumPy, per-sample calls and a (k,l)-batched functional call, rounds
everything to Gaussian integers at scale S and lets Trace_Manifold decide the defining constraints (PSD / rank by a Gram
certificate, separability by the decomposition the module holds)."""
import math, random
import numpy as np
from .. import tlc, core

SCALE, TSCALE = 2000, 200
MAG = {1: 0.3, 2: 2.0, 3: 20.0, 4: 100.0}
CLIP = 2.0          # rounded values are clipped at +-CLIP: a point of any of the manifolds has entries of modulus <= 1, and the
                    # quadratic claims stay inside 32 bits (an entry beyond the clip is already far outside the manifold)
BIGCLIP = 4.0e5     # for claims that are linear in possibly large values (positive reals)


def _g(arr, scale=SCALE, clip=None):
    clip = CLIP if clip is None else clip
    a = np.asarray(arr)
    if a.ndim == 0:
        a = a.reshape(1)
    if a.ndim == 1:
        out = []
        for z in a:
            re, im = float(np.real(z)), float(np.imag(z))
            re = max(-clip, min(clip, re)) if math.isfinite(re) else clip      # a non-finite value is recorded as the clip value
            im = max(-clip, min(clip, im)) if math.isfinite(im) else clip
            out.append([int(round(re * scale)), int(round(im * scale))])
        return out
    return [_g(x, scale, clip) for x in a]


def _gram(M, cols):
    M = np.asarray(M, dtype=complex)
    if not np.all(np.isfinite(M)):
        return np.zeros((len(M), cols), dtype=complex)
    w, v = np.linalg.eigh((M + M.conj().T) / 2)
    idx = np.argsort(w)[::-1][:cols]
    return v[:, idx] * np.sqrt(np.maximum(w[idx], 0))


def _dtype(a):
    import torch
    return {(False, False): torch.float64, (False, True): torch.float32, (True, False): torch.complex128, (True, True): torch.complex64}[(a['cplx'], a['p32'])]


def make_module(a):
    import torch, numqi
    M = numqi.manifold
    bs = a['batch'] or None
    dt = _dtype(a)
    c = a['cls']
    if c == 'PositiveReal':
        return M.PositiveReal(bs, a['method'], dtype=dt)
    if c == 'OpenInterval':
        lo, hi = [(0.0, 1.0), (-2.0, 3.0)][a['opt']]
        return M.OpenInterval(lo, hi, bs, dtype=dt)
    # complex descriptors without the batch size 1 go through the documented wrappers of manifold/_compose.py (quantum_state, density_matrix,
    # quantum_gate), which forward to the same classes: both construction routes stay exercised
    via_wrapper = a['cplx'] and a['batch'] != 1
    if c == 'Trace1PSD' and via_wrapper:
        return M.density_matrix(a['d'], a['r'] or None, bs, a['method'], dtype=dt)
    if c == 'Sphere' and via_wrapper:
        return M.quantum_state(a['d'], bs, a['method'], dtype=dt)
    if c == 'SpecialOrthogonal' and via_wrapper:
        return M.quantum_gate(a['d'], bs, a['method'], cayley_order=a['opt'], dtype=dt)
    if c == 'Trace1PSD':
        return M.Trace1PSD(a['d'], a['r'] or None, bs, a['method'], dtype=dt)
    if c == 'SymmetricMatrix':
        return M.SymmetricMatrix(a['d'], bs, is_trace0=bool(a['opt'] % 2), is_norm1=bool(a['opt'] >= 2), dtype=dt)
    if c == 'Ball':
        return M.Ball(a['d'], bs, dtype=dt)
    if c == 'Sphere':
        return M.Sphere(a['d'], bs, a['method'], dtype=dt)
    if c == 'DiscreteProbability':
        w = np.arange(1, a['d'] + 1, dtype=float) if a['opt'] else None
        return M.DiscreteProbability(a['d'], bs, a['method'], weight=w, dtype=dt)
    if c == 'SpecialOrthogonal':
        return M.SpecialOrthogonal(a['d'], bs, a['method'], cayley_order=a['opt'], dtype=dt)
    if c == 'Stiefel':
        return M.Stiefel(a['d'], a['r'], bs, a['method'], euler_with_phase=bool(a['opt']), dtype=dt)
    if c == 'QuantumChannel':
        return M.QuantumChannel(a['d'], a['r'], None, bs, a['method'], return_kind='choi' if a['opt'] else 'kraus', dtype=dt)
    if c == 'SeparableDensityMatrix':
        return M.SeparableDensityMatrix(a['d'], a['r'], None, bs, dtype=dt)
    if c in ('ABkHermitian', 'ABk2localHermitian'):
        import torch
        return getattr(M, c)(a['d'], a['r'], a['opt'], dtype=torch.float32 if a['p32'] else torch.float64)
    raise KeyError(c)


def functional(a, theta):
    """the functional map the class documents, on a parameter array (NumPy or PyTorch)"""
    import numqi
    M = numqi.manifold
    c, m = a['cls'], a['method']
    if c == 'PositiveReal':
        return (M.to_positive_real_softplus if m == 'softplus' else M.to_positive_real_exp)(theta)
    if c == 'OpenInterval':
        lo, hi = [(0.0, 1.0), (-2.0, 3.0)][a['opt']]
        return M.to_open_interval(theta, lo, hi)
    if c == 'Trace1PSD':
        return (M.to_trace1_psd_cholesky if m == 'cholesky' else M.to_trace1_psd_ensemble)(theta, a['d'], a['r'] or None)
    if c == 'SymmetricMatrix':
        return M.to_symmetric_matrix(theta, a['d'], bool(a['opt'] % 2), bool(a['opt'] >= 2))
    if c == 'Ball':
        return M.to_ball(theta, not a['cplx'])
    if c == 'Sphere':
        return (M.to_sphere_quotient if m == 'quotient' else M.to_sphere_coordinate)(theta, not a['cplx'])
    if c == 'DiscreteProbability':
        out = (M.to_discrete_probability_softmax if m == 'softmax' else M.to_discrete_probability_sphere)(theta)
        if a['opt']:        # the class divides by the weights it was given (weight = 1..d)
            w = np.arange(1, a['d'] + 1, dtype=float)
            out = out / (w if isinstance(out, np.ndarray) else __import__('torch').tensor(w, dtype=out.dtype))
        return out
    if c == 'SpecialOrthogonal':
        return M.to_special_orthogonal_exp(theta, a['d']) if m == 'exp' else M.to_special_orthogonal_cayley(theta, a['d'], a['opt'])
    if c in ('Stiefel', 'QuantumChannel'):
        dim, rank = (a['d'], a['r']) if c == 'Stiefel' else (a['d'] * a['r'] * a['r'], a['d'])      # channel: Stiefel(choi_rank*dim_out, dim_in), choi_rank = dim_in*dim_out
        if m == 'choleskyL':
            return M.to_stiefel_choleskyL(theta, dim, rank)
        if m == 'qr':
            return M.to_stiefel_qr(theta, dim, rank)
        if m == 'polar':
            return M.to_stiefel_polar(theta, dim, rank)
        if m == 'so-exp':
            return M.to_special_orthogonal_exp(theta, dim)[..., :rank]
        if m == 'so-cayley':
            return M.to_special_orthogonal_cayley(theta, dim)[..., :rank]
        return M.to_stiefel_euler(theta, dim, rank, bool(a['opt']))
    raise KeyError(c)


def sample_claims(a, x):
    """membership claims on ONE sample x (NumPy array) of the class"""
    c = a['cls']
    d, r = a['d'], a['r']
    C = []
    if c == 'PositiveReal':
        v = np.asarray(x).reshape(-1)
        C.append(dict(c='positive', v=_g(v, clip=BIGCLIP), pos=[bool(t > 0 and math.isfinite(t)) for t in v]))
    elif c == 'OpenInterval':
        lo, hi = [(0, 1), (-2, 3)][a['opt']]
        C.append(dict(c='interval', v=_g(np.asarray(x).reshape(-1)), lo=lo, hi=hi))
    elif c == 'Trace1PSD':
        C += [dict(c='shape', M=_g(x), rows=d, cols=d), dict(c='hermitian', M=_g(x)), dict(c='trace1', M=_g(x)), dict(c='gram', M=_g(x), A=_g(_gram(x, r or d)), cols=int(r or d))]
        if not a['cplx']:
            C.append(dict(c='real', M=_g(x)))
    elif c == 'SymmetricMatrix':
        if a['opt'] < 2:
            # without the unit-norm option the entries are unbounded: Hermiticity and zero trace are scale invariant, so the matrix is
            # recorded relative to its largest entry
            x = np.asarray(x) / max(1.0, float(np.abs(x).max()) if np.all(np.isfinite(x)) else 1.0)
        C += [dict(c='shape', M=_g(x), rows=d, cols=d), dict(c='hermitian', M=_g(x))]
        if not a['cplx']:
            C.append(dict(c='real', M=_g(x)))
        if a['opt'] % 2:
            C.append(dict(c='trace0', M=_g(x)))
        if a['opt'] >= 2:
            C.append(dict(c='norm1', M=_g(x)))
    elif c in ('Ball', 'Sphere'):
        C += [dict(c='ball' if c == 'Ball' else 'unit', v=_g(x)), dict(c='len', v=_g(x), n=d)]
        if not a['cplx']:
            C.append(dict(c='realv', v=_g(x)))
    elif c == 'DiscreteProbability':
        w = np.arange(1, d + 1, dtype=float) if a['opt'] else np.ones(d)
        C += [dict(c='simplex', v=_g(np.asarray(x) * w)), dict(c='len', v=_g(x), n=d)]
    elif c == 'SpecialOrthogonal':
        C += [dict(c='unitary', M=_g(x)), dict(c='shape', M=_g(x), rows=d, cols=d)]
        if d <= 3 and not (a['cplx'] and a['method'] == 'cayley'):
            # unit determinant where the construction guarantees it: exp of a traceless generator, real Cayley transform (the Cayley
            # transform of a traceless anti-Hermitian generator is unitary but not of determinant one)
            C.append(dict(c='det1', M=_g(x, TSCALE), T=TSCALE))
        if not a['cplx']:
            C.append(dict(c='real', M=_g(x)))
    elif c == 'Stiefel':
        C += [dict(c='isometry', M=_g(x)), dict(c='shape', M=_g(x), rows=d, cols=r)]
        if not a['cplx']:
            C.append(dict(c='real', M=_g(x)))
    elif c == 'QuantumChannel':
        di, do = d, r
        if a['opt'] == 0:
            C.append(dict(c='kraus', Ms=_g(x)))
            for k in np.asarray(x):
                C.append(dict(c='shape', M=_g(k), rows=do, cols=di))
        else:
            # library order (out, in, out, in) -> the (in, out, in, out) order of the tp claim
            ch = np.asarray(x).reshape(do, di, do, di).transpose(1, 0, 3, 2).reshape(di * do, di * do)
            C += [dict(c='hermitian', M=_g(ch)), dict(c='gram', M=_g(ch), A=_g(_gram(ch, di * do)), cols=di * do), dict(c='tp', M=_g(ch), di=di, do=do)]
    return C


def build_exp_event(a, seed, rowscale=False):
    """symmetric_matrix_to_trace1PSD: no wrapper class; the Hermitian argument is drawn here (opt: 0 generic, 1 / 2 dominated by one large
    negative / positive eigenvalue - entries of one sign near the magnitude), NumPy and PyTorch routes, batched and per sample"""
    import torch, numqi
    rng = np.random.default_rng(seed)
    d, b, mag = a['d'], a['batch'], MAG[a['mag']]
    nb = max(b, 1)
    H = []
    for i in range(nb):
        if a['opt'] == 0:
            v = rng.uniform(-mag, mag, size=(d, d))
        else:
            sgn = -1.0 if a['opt'] == 1 else 1.0
            if rowscale and i % 2:
                sgn = -sgn
            v = sgn * mag * rng.uniform(0.9, 1.0, size=(d, d))
        v = (v + v.T) / 2
        if a['cplx']:
            w = rng.uniform(-mag, mag, size=(d, d)) * (1.0 if a['opt'] == 0 else 0.05)
            v = v + 1j * (w - w.T) / 2
        H.append(v)
    H = np.stack(H) if b else H[0]
    f = numqi.manifold.symmetric_matrix_to_trace1PSD
    out_np = np.asarray(f(H))
    out_t = f(torch.tensor(H)).detach().cpu().numpy()
    C = []
    if b:
        C.append(dict(c='len', v=[[0, 0]] * len(out_np), n=b))
    samples = [out_np[i] for i in range(b)] if b else [out_np]
    for x in samples[:2]:
        C += [dict(c='shape', M=_g(x), rows=d, cols=d), dict(c='hermitian', M=_g(x)), dict(c='trace1', M=_g(x)), dict(c='gram', M=_g(x), A=_g(_gram(x, d)), cols=d)]
        if not a['cplx']:
            C.append(dict(c='real', M=_g(x)))
    same = lambda x, y: dict(c='same', x=_g(np.asarray(x).reshape(-1)), y=_g(np.asarray(y).reshape(-1)) if np.asarray(x).shape == np.asarray(y).shape else [])
    C.append(same(out_np, out_t))
    if b:
        for i in range(min(b, 2)):
            C.append(same(out_np[i], f(H[i])))
        if b >= 2:
            o2 = np.asarray(f(np.stack([H, H[::-1]])))
            C.append(same(o2[0], out_np))
            C.append(same(o2[1], out_np[::-1]))
    return dict(a=a, S=SCALE, seed=int(seed), claims=C)


def build_event(a, seed, rowscale=False):
    """rowscale: the rows of a batch live on very different scales (row 0 near +m, row 1 near -m, ...) - any real parameter batch is
    admissible, and a map that lets one row influence another (a shift, a norm, a maximum taken over the whole batch) shows there.
    The entries of a row are spread over [0.3 m, m]: with a narrower spread a matrix-valued parameter is nearly rank one and two float32
    routes of an orthonormalisation legitimately differ by 2e-3 (thorough-tier false alarm of the first version, Stiefel choleskyL 6x6)"""
    import torch, numqi
    if a['cls'] == 'ExpTrace1PSD':
        return build_exp_event(a, seed, rowscale)
    rng = np.random.default_rng(seed)
    mod = make_module(a)
    mag = MAG[a['mag']]
    pars = [p for p in mod.parameters()]
    vals = []
    for p in pars:
        v = rng.uniform(-mag, mag, size=tuple(p.shape))
        if rowscale and a['batch'] >= 2 and v.ndim >= 2 and v.shape[0] == a['batch']:
            sgn = np.array([1.0 if i % 2 == 0 else -1.0 for i in range(a['batch'])]).reshape((-1,) + (1,) * (v.ndim - 1))
            v = sgn * mag * rng.uniform(0.3, 1.0, size=v.shape)        # (0.8, 1.0) made matrix-valued parameters nearly rank one: cond^2 ~ 1e4 is beyond single precision
        vals.append(v)
        p.data[...] = torch.tensor(v, dtype=p.dtype)
    with torch.no_grad():
        out = mod()
    out_np = out.detach().cpu().numpy()
    b = a['batch']
    samples = [out_np[i] for i in range(b)] if b else [out_np]
    C = []
    if b:
        C.append(dict(c='len', v=[[0, 0]] * len(out_np), n=b))
    for x in samples[:2]:
        C += sample_claims(a, x)
    def same(x, y):
        # two recordings of one value, compared relative to the largest modulus (values may be large for unbounded manifolds)
        x, y = np.asarray(x).reshape(-1), np.asarray(y).reshape(-1)
        m = max(1.0, float(np.abs(x).max()) if x.size and np.all(np.isfinite(x)) else 1.0)
        return dict(c='same', x=_g(x / m), y=_g(y / m) if x.shape == y.shape else [])
    flat = lambda z: np.asarray(z).reshape(-1)
    prec32 = a['p32']
    if a['cls'] in ('ABkHermitian', 'ABk2localHermitian'):
        dA, dB, k = a['d'], a['r'], a['opt']
        n = dA * dB ** k
        x = out_np / max(1.0, float(np.abs(out_np).max()) if np.all(np.isfinite(out_np)) else 1.0)      # Hermiticity and the symmetry are scale invariant
        C += [dict(c='shape', M=_g(x), rows=n, cols=n), dict(c='hermitian', M=_g(x))]
        if k == 2:
            C.append(dict(c='symB', M=_g(x), dA=dA, dB=dB))
    elif a['cls'] == 'SeparableDensityMatrix':
        dA, dB = a['d'], a['r']
        with torch.no_grad():
            p, A, B = mod.manifold_p().numpy(), mod.manifold_psiA().numpy(), mod.manifold_psiB().numpy()
        nb = max(b, 1)
        p, A, B = p.reshape(nb, -1), A.reshape(nb, -1, dA), B.reshape(nb, -1, dB)
        outs = out_np.reshape(nb, dA * dB, dA * dB)
        for i in range(min(nb, 2)):
            x = outs[i]
            C += [dict(c='hermitian', M=_g(x)), dict(c='trace1', M=_g(x)), dict(c='gram', M=_g(x), A=_g(_gram(x, dA * dB)), cols=dA * dB),
                  dict(c='sepdecomp', M=_g(x), p=_g(p[i]), A=_g(A[i]), B=_g(B[i]), dB=dB)]
            rec = np.einsum('t,ti,tj,tk,tm->ijkm', p[i], A[i], B[i], A[i].conj(), B[i].conj()).reshape(dA * dB, dA * dB)
            C.append(same(x, rec))
    else:
        # the wrapper returns what the functional map returns on the module's parameters - in PyTorch and in NumPy
        th_t = pars[0].detach()
        th_n = vals[0].astype(np.float32 if prec32 else np.float64)
        if a['cls'] == 'OpenInterval' and not b:
            th_t, th_n = th_t[0], th_n[0]
        f_t = np.asarray(functional(a, th_t).detach().cpu().numpy() if hasattr(functional(a, th_t), 'detach') else functional(a, th_t))
        f_n = np.asarray(functional(a, th_n))
        tgt = out_np
        if a['cls'] == 'QuantumChannel':
            di, do = a['d'], a['r']
            kr_t = f_t.reshape((-1, di * do, do, di) if b else (di * do, do, di))
            kr_n = f_n.reshape((-1, di * do, do, di) if b else (di * do, do, di))
            if a['opt']:
                es = 'bkoi,bkpj->boipj' if b else 'koi,kpj->oipj'
                kr_t, kr_n = np.einsum(es, kr_t, kr_t.conj()), np.einsum(es, kr_n, kr_n.conj())
            f_t, f_n = kr_t, kr_n
        C.append(same(tgt, f_t))
        C.append(same(tgt, f_n))
        if b and a['cls'] not in ('QuantumChannel',):
            # a batched call equals the per-sample calls; a (k,l) batch equals the (l,) batches it stacks
            for i in range(min(b, 2)):
                C.append(same(out_np[i], functional(a, th_n[i] if a['cls'] != 'OpenInterval' else th_n[i])))
            if b >= 2 and a['cls'] not in ('PositiveReal', 'OpenInterval') and a['method'] != 'euler':      # to_stiefel_euler asserts theta.ndim <= 2
                kl = np.stack([th_n, th_n[::-1]])
                o2 = np.asarray(functional(a, kl))
                C.append(same(o2[0], out_np))
                C.append(same(o2[1], out_np[::-1]))
    return dict(a=a, S=SCALE, seed=int(seed), claims=C)


def run(ctx):
    quick = ctx.tier == 'quick'
    rng = random.Random(ctx.seed)
    ctx.rule = ('option lattice of numqi.manifold enumerated by TLC (11 classes x methods x real/complex x float32/float64 x batch None,1,2%s x dim 2..%d x rank x |theta| <= 0.3, 2, 20, 100) plus the exponential map symmetric_matrix_to_trace1PSD on both sides of its dense/iterative eigenvalue branch with generic and one-sided spectra; '
                '%s descriptors executed; per descriptor: module output, functional map in PyTorch and NumPy, per-sample and (k,l)-batched calls; membership decided by TLC on outputs rounded at '
                'scale %d (PSD / rank by Gram certificate, separability by the decomposition held by the module); distinct by descriptor'
                % ('' if quick else ',3', 4 if quick else 6, 'a seeded sample with one descriptor from every (class, method, field, precision, batch, magnitude, option) cell and every (class, method, field, dim, rank) cell' if quick else 'all', SCALE))
    ctx.assumptions = ['TLC/SANY correct', 'membership up to the rounding tolerance: 2.5% of the squared scale for quadratic constraints, 1-3 units for linear ones',
                       'theta uniform in [-m, m]^n for the magnitude m of the descriptor (10 is the bound of the Cholesky-L map: m <= 2 there; exp up to 20)']
    ctx.not_covered = ['membership finer than the rounding tolerance (e.g. STRICT inequality of the open ball / open interval at saturation)', 'ABkHermitian / ABk2localHermitian helper classes',
                       'devices other than the CPU']
    ctx.tolerances = dict(scale=SCALE, quadratic='1/40 of the squared scale', same='3 units')
    r = tlc.run('manifold/MC_ManifoldArgs.tla', 'manifold/MC_ManifoldArgs_%s.cfg' % ('q' if quick else 't'), dump=True, timeout=3000)
    ctx.add_model('MC_ManifoldArgs', r)
    calls = [st['a'] for st in tlc.parse_dump(r)]
    calls.sort(key=lambda a: repr(sorted(a.items())))
    if quick:
        # two stratifications, one descriptor from every cell of each: (class, method, field, precision, batch, magnitude, option) - the
        # argument branches - and (class, method, field, dim, rank) - the shapes; a change that needs one particular combination of
        # either kind is then met whatever the seed
        chosen = {}
        for keyf in (lambda a: (a['cls'], a['method'], a['cplx'], a['p32'], a['batch'], a['mag'], a['opt']), lambda a: (a['cls'], a['method'], a['cplx'], a['d'], a['r'])):
            cells = {}
            for a in calls:
                cells.setdefault(keyf(a), []).append(a)
            for k in sorted(cells, key=repr):
                a = rng.choice(cells[k])
                chosen[repr(sorted(a.items()))] = a
        for a in calls:
            if a['cls'] == 'ExpTrace1PSD':       # few, and the failure needs one combination (dimension above the dense branch, magnitude, spectrum): all are executed
                chosen[repr(sorted(a.items()))] = a
        calls = [chosen[k] for k in sorted(chosen)]
    ev, meta = [], []
    # instances of repaired findings stay pinned as regression inputs (6c0e751: single-precision polar map); a finding with status
    # 'known' in known_findings.json would be evaluated here in every run and reported as KNOWN-FINDING
    pinned = [(dict(cls='Stiefel', method='polar', d=6, r=6, opt=0, cplx=False, p32=True, batch=3, mag=1), 14627),
              (dict(cls='Stiefel', method='polar', d=4, r=4, opt=0, cplx=False, p32=True, batch=1, mag=2), 5824)]
    todo = [(a, sd, False) for a, sd in pinned] + [(a, ctx.seed * 1000003 + i, False) for i, a in enumerate(calls)]
    todo += [(a, ctx.seed * 1000003 + 7 * i + 1, True) for i, a in enumerate(calls) if a['batch'] >= 2]          # the same descriptors with rows on different scales
    for a, sd, rowscale in todo:
        ctx.case(('manifold', rowscale) + tuple(sorted(a.items())))
        try:
            e = build_event(a, sd, rowscale)
            e['rowscale'] = rowscale
            ev.append(e)
            meta.append(a)
        except Exception as ex:
            ctx.violation('C01:%s:%s:exception' % (a['cls'], a['method'] or 'default'), 'an admissible configuration raised %s: %s' % (type(ex).__name__, str(ex)[:140]), dict(descriptor=a))
    counts = {}
    for e in ev:
        for c in e['claims']:
            counts[c['c']] = counts.get(c['c'], 0) + 1
    ctx.extra['claims_decided_by_kind'] = counts          # vacuity guard: every claim kind of Trace_Manifold must occur
    missing = {'unit', 'ball', 'simplex', 'interval', 'positive', 'hermitian', 'trace1', 'gram', 'isometry', 'unitary', 'det1', 'kraus', 'tp', 'sepdecomp', 'symB', 'trace0', 'norm1', 'same', 'real', 'realv'} - set(counts)
    if missing:
        raise core.MachineryError('vacuous run: claim kinds never generated: %s' % sorted(missing))
    acc, rej, results = tlc.validate_events('manifold/Trace_Manifold.tla', 'manifold/Trace_Manifold.cfg', ev, shards=16)
    for r in results:
        ctx.states += r.distinct
        ctx.transitions += r.generated
    ctx.models.append(dict(model='Trace_Manifold', events=len(ev), accepted=acc, rejected=len(rej), exhaustive=False))
    ctx.traces += len(ev)
    for gi, info in rej:
        a = meta[gi]
        ctx.violation('C01:%s:%s:%s%s' % (a['cls'], a['method'] or 'default', info[-1], ':float32' if a['p32'] else ''),
                      '%s(method=%s, dim=%d, rank=%d, opt=%d, %s, %s, batch=%s, |theta|<=%g): claim "%s" rejected - the output is not on the manifold / the call routes disagree'
                      % (a['cls'], a['method'], a['d'], a['r'], a['opt'], 'complex' if a['cplx'] else 'real', 'float32' if a['p32'] else 'float64', a['batch'] or None, MAG[a['mag']], info[-1]),
                      dict(descriptor=a, failing_claim=info[-1], seed=ev[gi]['seed'], rowscale=ev[gi].get('rowscale', False)))
    if ev:
        ctx.sample(dict(kind='manifold-event', descriptor=ev[len(ev) // 2]['a'], claims=[c['c'] for c in ev[len(ev) // 2]['claims']]))


def replay(ctx, rec):
    print('replay', rec['key'], rec['what'])
    d = rec['data']
    if 'descriptor' in d and 'seed' in d:
        e = build_event(d['descriptor'], d['seed'], d.get('rowscale', False))
        acc, rej, _ = tlc.validate_events('manifold/Trace_Manifold.tla', 'manifold/Trace_Manifold.cfg', [e], shards=1)
        print('accepted' if acc else 'rejected: %s' % (rej,))
        return 0 if acc else 1
    return 0
