"""C18 - catalogue constructors return the objects they name.
specs: specs/catalogue/{States,MC_States,Trace_Catalogue}.tla (+ specs/lib/Rat.tla)"""
import math, random
from fractions import Fraction
import numpy as np
from .. import tlc, core

TOL = 1e-12


def rf(r):
    return r[0] / r[1]


def rmat(m):
    return np.array([[rf(e) for e in row] for row in m], dtype=float)


def call_ket(c):
    import numqi
    S = numqi.state
    f, n = c['f'], c['n']
    if f == 'W': return S.W(n), None
    if f == 'GHZ': return S.GHZ(n), None
    if f == 'Bell': return S.Bell(n), None
    if f == 'maximally_entangled_state': return S.maximally_entangled_state(n), None
    return S.maximally_coherent_state(n), S.maximally_coherent_state(n, return_dm=True)


def call_dm(c):
    import numqi
    S = numqi.state
    f = c['f']
    p = rf(c['p'])
    if f == 'Werner': return S.Werner(c['d'], p)
    if f == 'Isotropic': return S.Isotropic(c['d'], p)
    if f == 'maximally_mixed_state': return S.maximally_mixed_state(c['d'])
    if f == 'get_2qutrit_Antoine2022': return S.get_2qutrit_Antoine2022(p)
    if f == 'get_bes2x4_Horodecki1997': return S.get_bes2x4_Horodecki1997(p)
    return S.get_bes3x3_Horodecki1997(p)


def replay_states(ctx, states):
    for st in states:
        cfg, obs = st['cfg'], st['obs']
        c = cfg['c']
        f = c['f']
        data = dict(constructor=f, args={k: v for k, v in c.items() if k != 'f'})
        ctx.case(('state', f, repr(sorted(c.items()))))
        try:
            if cfg['kind'] == 'ket':
                want = math.sqrt(rf(obs['ket']['c2'])) * np.array(obs['ket']['g'], dtype=float)
                got, dm = call_ket(c)
                ctx.evaluations += 1
                if got.shape != want.shape or core.gt(np.abs(got - want).max(), TOL):
                    ctx.violation('C18:%s:ket' % f, '%s: returned ket differs from the textbook state' % f, data)
                if dm is not None:
                    wd = rmat(obs['dm'])
                    if dm.shape != wd.shape or core.gt(np.abs(dm - wd).max(), TOL):
                        ctx.violation('C18:%s:return_dm' % f, '%s(return_dm=True) is not the projector of the ket returned without it' % f, data)
            else:
                want = rmat(obs['dm'])
                got = call_dm(c)
                ctx.evaluations += 1
                if got.shape != want.shape:
                    ctx.violation('C18:%s:shape' % f, '%s: documented shape %s, got %s' % (f, want.shape, got.shape), data)
                elif core.gt(np.abs(got - want).max(), TOL):
                    tr = float(np.trace(got).real)
                    ctx.violation('C18:%s:matrix' % f, '%s: returned matrix differs from the textbook state (trace %.6g)' % (f, tr), dict(data, trace=tr))
        except Exception as ex:
            ctx.violation('C18:exception:%s' % f, type(ex).__name__ + ': ' + str(ex)[:160], data)


def project_radical(v):
    """harness projection: a real/complex vector v -> (c, g) with v = g / sqrt(c), c a small positive integer, g Gaussian integers"""
    cands = list(range(1, 65))
    # squared moduli that are rationals with a moderate denominator (e.g. Pythagorean parameters): c = lcm of the denominators
    try:
        from math import gcd
        L = 1
        for z in v:
            m2 = abs(z) ** 2
            if m2 > 1e-12:
                q = Fraction(m2).limit_denominator(2000000).denominator
                L = L * q // gcd(L, q)
        if L < 2 ** 28:
            cands += [L * k for k in (1, 2, 4, 5, 25) if L * k < 2 ** 28]
    except Exception:
        pass
    for c in cands:
        w = v * math.sqrt(c)
        g = np.round(w.real) + 1j * np.round(w.imag)
        if np.abs(w - g).max() < 1e-7 and np.abs(g).max() < 40000:
            return c, [[int(z.real), int(z.imag)] for z in g]
    return None


def upb_events(ctx):
    import numqi
    E = numqi.entangle
    kinds = [('tiles', None), ('feng4x4', None), ('gentiles1', 4), ('gentiles2', (3, 4)), ('genshifts', 3), ('genshifts', 5), ('feng2x2x2x2', None), ('john2^8', None), ('min4x4', None), ('pyramid', None), ('quadres', 5), ('sixparam', None), ('sixparam', 'pyth1'), ('sixparam', 'pyth2')]
    ev = []
    skipped = []
    for kind, args in kinds:
        # sixparam with Pythagorean parameters: all cosines / sines / phases rational -> exactly representable complex UPB
        pyth = {'pyth1': [math.atan2(4, 3), math.atan2(3, 4), math.atan2(4, 3), math.atan2(3, 4), math.atan2(4, 3), math.atan2(3, 4)],
                'pyth2': [math.atan2(3, 4), math.atan2(4, 3), math.atan2(-4, 3), math.atan2(4, 3), math.atan2(3, 4), math.atan2(3, -4)]}
        if isinstance(args, str):
            args = pyth[args]
        try:
            upb, bes = E.load_upb(kind, args, return_bes=True, ignore_warning=True) if args is not None else E.load_upb(kind, return_bes=True, ignore_warning=True)
        except Exception as ex:
            skipped.append('%s: %s' % (kind, type(ex).__name__))
            continue
        parties = []
        ok = True
        for P in upb:
            cs, gs = [], []
            for v in np.asarray(P):
                pr = project_radical(np.asarray(v, dtype=complex))
                if pr is None:
                    ok = False
                    break
                cs.append(pr[0])
                gs.append(pr[1])
            if not ok:
                break
            parties.append(dict(c=cs, g=gs))
        if not ok:
            skipped.append('%s: vectors are not single-radical Gaussian-integer vectors' % kind)
            continue
        n = len(np.asarray(upb[0]))
        D = int(np.prod([np.asarray(P).shape[1] for P in upb]))
        # BES against the complementary projector built from the exact vectors
        prod = np.ones((n, 1), dtype=complex)
        for p in parties:
            V = np.array([[complex(z[0], z[1]) for z in g] for g in p['g']]) / np.sqrt(np.array(p['c']))[:, None]
            prod = (prod[:, :, None] * V[:, None, :]).reshape(n, -1)
        want = (np.eye(D) - prod.T @ prod.conj()) / (D - n)
        if bes.shape != want.shape or core.gt(np.abs(bes - want).max(), 1e-10):
            ctx.violation('C18:load_upb:bes:%s' % kind, 'returned BES is not the normalised complementary projector of the UPB', dict(kind=kind, args=args))
        rank = int(np.linalg.matrix_rank(bes, tol=1e-8))
        ev.append(dict(op='upb', kind=kind, size=n, dim=D, rank=rank, parties=parties))
        ctx.case(('upb', kind, repr(args)))
        ev[-1]['label'] = '%s %s' % (kind, '' if args is None else [round(float(a), 4) for a in np.atleast_1d(args)])
    ctx.extra['upb_kinds_not_exactly_representable'] = skipped
    return ev


def closed_events(ctx):
    import numqi
    S = numqi.state
    ev = []
    for fam, fns in (('Werner', [S.get_Werner_ree, S.get_Werner_GME, S.get_Werner_eof]), ('Isotropic', [S.get_Isotropic_ree, S.get_Isotropic_GME, S.get_Isotropic_eof])):
        for d in (2, 3, 4, 5):
            lo = Fraction(-1) if fam == 'Werner' else Fraction(-1, d * d - 1)
            thr = Fraction(1, d) if fam == 'Werner' else Fraction(1, d + 1)
            grid = sorted({lo, lo / 2, Fraction(0), thr / 2, thr, thr + Fraction(1, 100), (thr + 1) / 2, Fraction(9, 10), Fraction(99, 100), Fraction(1)})
            for a in grid:
                for fn in fns:
                    try:
                        v = float(np.asarray(fn(d, float(a))).reshape(-1)[0])
                        ev.append(dict(op='closed', family=fam, fn=fn.__name__, d=d, num=a.numerator, den=a.denominator, finite=bool(np.isfinite(v)), zero=bool(v == 0.0), positive=bool(v > 0)))
                        ctx.case(('closed', fn.__name__, d, str(a)))
                    except Exception as ex:
                        ctx.violation('C18:exception:%s' % fn.__name__, type(ex).__name__ + ': ' + str(ex)[:160], dict(d=d, alpha=str(a)))
            # the shape on the entangled range: uniform grid threshold .. 1 (d up to 5: the piecewise isotropic EOF has a branch only for d >= 3,
            # with a slope factor that is trivial for d = 3)
            for fn in fns:
                if fn.__name__.endswith('_ree') and d > 3:
                    continue
                try:
                    grid = np.linspace(float(thr), 1.0, 201)
                    vals = np.array([float(np.asarray(fn(d, float(x))).reshape(-1)[0]) for x in grid]) if fn.__name__.endswith('_ree') else np.asarray(fn(d, grid), dtype=float).reshape(-1)
                    endval = -1
                    if fn.__name__ == 'get_Isotropic_eof':
                        endval = int(round(math.log(d) * 10 ** 6))
                    elif fn.__name__ == 'get_Werner_eof':
                        endval = int(round(math.log(2) * 10 ** 6))
                    ev.append(dict(op='closed_shape', family=fam, fn=fn.__name__, d=d, S=10 ** 6, endval=endval,
                                   vals=[int(round(v * 10 ** 6)) if math.isfinite(v) else -10 ** 9 for v in vals]))
                    ctx.case(('closed_shape', fn.__name__, d))
                except Exception as ex:
                    ctx.violation('C18:exception:%s' % fn.__name__, type(ex).__name__ + ': ' + str(ex)[:160], dict(d=d, shape=True))
            # both sides of the threshold, 2^-10 .. 2^-50 away from it
            for fn in fns:
                try:
                    ref = float(np.asarray(fn(d, float(thr + Fraction(1, 100)))).reshape(-1)[0])
                    for e in (10, 20, 26, 30, 34, 40, 44, 50):
                        for k in (-3, -1, 1, 3):
                            al = float(thr) + k * 2.0 ** (-e)
                            v = float(np.asarray(fn(d, al)).reshape(-1)[0])
                            va = v if fn.__name__.endswith('_ree') else float(np.asarray(fn(d, np.array([al, float(thr) / 2]))).reshape(-1)[0])     # the batched path (REE is documented for a float only)
                            ev.append(dict(op='closed_near', family=fam, fn=fn.__name__, d=d, k=k, e=e, finite=bool(np.isfinite(v) and np.isfinite(va)), zero=bool(v == 0.0 and va == 0.0),
                                           nonneg=bool(v >= -1e-12), below=bool(v <= ref + 1e-12), value=repr(v)))
                            ctx.case(('closed_near', fn.__name__, d, k, e))
                except Exception as ex:
                    ctx.violation('C18:exception:%s' % fn.__name__, type(ex).__name__ + ': ' + str(ex)[:160], dict(d=d, near_threshold=True))
    return ev


def run_povm(ctx):
    """tetrahedron POVM: single-qubit elements against the exact vertices, multi-qubit elements as ordered tensor products"""
    import numqi
    r = tlc.run('catalogue/MC_POVM.tla', dump=True, timeout=600)
    ctx.add_model('MC_POVM', r)
    verts = {}
    for st in tlc.parse_dump(r):
        verts[st['k']] = [rf(t[0]) * math.sqrt(t[1]) for t in st['vert']]
    sig = [np.eye(2), np.array([[0, 1], [1, 0]]), np.array([[0, -1j], [1j, 0]]), np.array([[1, 0], [0, -1]])]
    E1 = [(sig[0] + sum(verts[k][i] * sig[i + 1] for i in range(3))) / 4 for k in (1, 2, 3, 4)]
    try:
        got = numqi.utils.get_tetrahedron_POVM(1)
        ctx.case(('povm', 1))
        if got.shape != (4, 2, 2) or max(np.abs(got[k] - E1[k]).max() for k in range(4)) > 1e-12:
            ctx.violation('C18:get_tetrahedron_POVM:elements', 'single-qubit elements differ from (I + n_k.sigma)/4 at the tetrahedron vertices', None)
        for nq in (2, 3):
            got = numqi.utils.get_tetrahedron_POVM(nq)
            ctx.case(('povm', nq))
            want = E1
            for _ in range(nq - 1):
                want = [np.kron(a, b) for a in want for b in E1]
            if got.shape != (4 ** nq, 2 ** nq, 2 ** nq) or max(np.abs(g - w).max() for g, w in zip(got, want)) > 1e-12:
                ctx.violation('C18:get_tetrahedron_POVM:tensor-order', '%d-qubit elements are not the ordered tensor products of the single-qubit elements' % nq, dict(num_qubit=nq))
            if core.gt(np.abs(got.sum(axis=0) - np.eye(2 ** nq)).max(), 1e-12):
                ctx.violation('C18:get_tetrahedron_POVM:resolution', 'elements do not resolve the identity', dict(num_qubit=nq))
    except Exception as ex:
        ctx.violation('C18:exception:get_tetrahedron_POVM', type(ex).__name__ + ': ' + str(ex)[:160], None)


BASES_SCALE = 2000


def bases_events(ctx, quick):
    """catalogued orthonormal measurement bases of numqi.unique_determine, one event per call: the projectors rounded at scale
    BASES_SCALE with a one-column Gram certificate each; TLC decides block structure, rank one, orthogonality and resolution"""
    import numqi
    from .c10 import _g, _gram
    U = numqi.unique_determine
    ev = []
    calls = []
    for d in range(2, 6 if quick else 9):
        for ai, alpha in enumerate((0.0, 0.3, math.pi / 3, 1.0, math.pi) if not quick else (0.3, math.pi / 3)):
            for wc in (False, True):
                calls.append(('get_chebshev_orthonormal', d, wc, alpha))
    for d in ((4, 6) if quick else (4, 6, 8, 10)):
        calls.append(('get_element_probing_POVM_eq9', d, False, None))
    for fn, d, flag, alpha in calls:
        ctx.case(('bases', fn, d, flag, alpha))
        try:
            if fn == 'get_chebshev_orthonormal':
                P = U.get_chebshev_orthonormal(d, alpha, with_computational_basis=flag)
            else:
                P = U.get_element_probing_POVM('eq9', d)
            P = np.asarray(P)
            ev.append(dict(op='bases', fn=fn, d=d, flag=flag, S=BASES_SCALE, alpha=repr(alpha), Ps=[_g(x, BASES_SCALE) for x in P], As=[_g(_gram(x, 1), BASES_SCALE) for x in P]))
        except Exception as ex:
            ctx.violation('C18:exception:%s' % fn, '%s(d=%d, flag=%s, alpha=%s) raised %s: %s' % (fn, d, flag, alpha, type(ex).__name__, str(ex)[:140]), dict(fn=fn, d=d, flag=flag, alpha=alpha))
    return ev


UPB_SCALE = 2000


def wtype_events(ctx, quick):
    """numqi.state.Wtype on Gaussian-integer coefficient vectors handed over in every dtype a caller may use; the ket rounded at scale
    UPB_SCALE, TLC decides support, proportionality, unit norm and the positive real factor (WtypeOK)"""
    import numqi
    from .c10 import _g
    rng = random.Random(ctx.seed + 18)
    ev = []
    vecs = [[(1, 0), (1, 0)], [(1, 0), (0, 1), (1, 0)], [(2, -1), (0, 0), (-1, 3)], [(0, 1), (0, -2), (3, 0), (1, 1)], [(-1, 0), (2, 0), (-3, 0), (1, 0), (2, 0)],
            [(0, 2), (0, -1), (0, 3)]]
    for n in range(2, 5 if quick else 7):
        for _ in range(3 if quick else 12):
            v = [(rng.randint(-4, 4), rng.randint(-4, 4) if rng.random() < 0.7 else 0) for _ in range(n)]
            if any(x != (0, 0) for x in v):
                vecs.append(v)
    for v in vecs:
        is_real = all(im == 0 for _, im in v)
        arrs = [('complex128', np.array([complex(a, b) for a, b in v], dtype=np.complex128)), ('complex64', np.array([complex(a, b) for a, b in v], dtype=np.complex64))]
        if is_real:
            arrs += [('float64', np.array([float(a) for a, _ in v])), ('int64', np.array([a for a, _ in v], dtype=np.int64))]
        for dt, arr in arrs:
            ctx.case(('wtype', tuple(v), dt))
            try:
                keep = arr.copy()
                out = np.asarray(numqi.state.Wtype(arr))
                if not np.array_equal(keep, arr):
                    ctx.violation('C18:Wtype:mutates-input', 'Wtype modified its coefficient vector', dict(c=v, dtype=dt))
                if out.ndim != 1:
                    ctx.violation('C18:Wtype:shape', 'Wtype did not return a vector', dict(c=v, dtype=dt))
                    continue
                ev.append(dict(op='wtype', c=[list(x) for x in v], dtype=dt, S=UPB_SCALE, v=_g(out, UPB_SCALE)))
            except Exception as ex:
                ctx.violation('C18:exception:Wtype', 'Wtype(%s as %s) raised %s: %s' % (v, dt, type(ex).__name__, str(ex)[:140]), dict(c=v, dtype=dt))
    return ev


def upbnum_events(ctx, quick):
    """bipartite UPB kinds whose vectors are not single-radical (Fourier vectors of the generalised tiles, quadratic residues): the outputs
    rounded at scale UPB_SCALE, validated by Trace_Catalogue 'upbnum' events; several sizes per kind incl. the smallest and larger ones"""
    import numqi
    from .c10 import _g, _gram
    E = numqi.entangle
    kinds = [('gentiles2', (3, 4)), ('gentiles2', (3, 5)), ('gentiles2', (4, 5)), ('gentiles1', 4), ('gentiles1', 6), ('quadres', 3)] + ([] if quick else [('gentiles2', (4, 6)), ('gentiles2', (5, 5)), ('gentiles1', 8), ('quadres', 7)])
    ev = []
    for kind, args in kinds:
        ctx.case(('upbnum', kind, args))
        try:
            upb, bes = E.load_upb(kind, args, return_bes=True, ignore_warning=True)
            if len(upb) != 2:
                continue
            A, B = np.asarray(upb[0], dtype=complex), np.asarray(upb[1], dtype=complex)
            n, dA, dB = len(A), A.shape[1], B.shape[1]
            D = dA * dB
            prod = (A[:, :, None] * B[:, None, :]).reshape(n, D)
            bes = np.asarray(bes, dtype=complex)
            pt = bes.reshape(dA, dB, dA, dB).transpose(0, 3, 2, 1).reshape(D, D)
            claims = [dict(tag='hermitian', c='hermitian', M=_g(bes, UPB_SCALE)), dict(tag='trace1', c='trace1', M=_g(bes, UPB_SCALE)),
                      dict(tag='gram', c='gram', M=_g(bes, UPB_SCALE), A=_g(_gram(bes, D - n), UPB_SCALE), cols=D - n),
                      dict(tag='ppt', c='gram', M=_g(pt, UPB_SCALE), A=_g(_gram(pt, D), UPB_SCALE), cols=D)]
            ev.append(dict(op='upbnum', kind=kind, args=repr(args), S=UPB_SCALE, size=n, dim=D, A=_g(A, UPB_SCALE), B=_g(B, UPB_SCALE), prod=_g(prod, UPB_SCALE), bes=_g(bes, UPB_SCALE), claims=claims))
        except Exception as ex:
            ctx.violation('C18:exception:load_upb', 'load_upb(%r, %r) raised %s: %s' % (kind, args, type(ex).__name__, str(ex)[:140]), dict(kind=kind, args=repr(args)))
    return ev


def run(ctx):
    import numqi
    quick = ctx.tier == 'quick'
    ctx.rule = ('every constructor of numqi.state on parameter grids incl. both end points (d<=%d, n<=%d; rational alpha / q; Horodecki b with rational sqrt(1-b^2)) compared entrywise with the textbook object; '
                'UPB kinds whose vectors are single-radical Gaussian-integer vectors validated by TLC (orthonormal product set, rank D-|UPB|) and their BES compared with the exact complementary projector; '
                'closed-form REE/EOF/GME of Werner/isotropic states: exact zero on the separable range incl. the end point; the catalogued orthonormal measurement bases of numqi.unique_determine (Chebyshev 4PB/5PB, element-probing eq. 9) by rounded projectors with rank-one Gram certificates; distinct by (constructor, arguments)' % (3 if quick else 4, 4 if quick else 5))
    ctx.assumptions = ['TLC/SANY correct', 'tolerance 1e-12 on constructor entries']
    ctx.not_covered = ['multipartite UPB kinds with nested radicals or roots of unity (the bipartite ones are validated on rounded outputs: upbnum events)', 'agreement of the closed forms with the generic routines on the entangled range',
                       'the Dicke constructor (covered by C17)']
    r = tlc.run('catalogue/MC_States.tla', 'catalogue/MC_States_%s.cfg' % ('q' if quick else 't'), dump=True, timeout=3000)
    ctx.add_model('MC_States', r)
    states = list(tlc.parse_dump(r))
    replay_states(ctx, states)
    ctx.traces += len(states)
    run_povm(ctx)
    ev = upb_events(ctx) + closed_events(ctx) + bases_events(ctx, quick) + upbnum_events(ctx, quick) + wtype_events(ctx, quick)
    acc, rej, results = tlc.validate_events('catalogue/Trace_Catalogue.tla', 'catalogue/Trace_Catalogue.cfg', ev, shards=8)
    for r in results:
        ctx.states += r.distinct
        ctx.transitions += r.generated
    ctx.models.append(dict(model='Trace_Catalogue', events=len(ev), accepted=acc, rejected=len(rej), exhaustive=False))
    ctx.traces += len(ev)
    for gi, info in rej:
        e = ev[gi]
        if e['op'] == 'upb':
            ctx.violation('C18:load_upb:orthonormal-product:%s' % e['kind'], 'UPB is not an orthonormal set of product vectors / complement rank differs from D-|UPB|', dict(kind=e['kind']))
        elif e['op'] == 'upbnum':
            ctx.violation('C18:load_upb:numeric:%s' % e['kind'], 'load_upb(%s, %s): local vectors not normalised / members not pairwise orthogonal / the returned state is not the normalised complementary projector, PSD of rank D-|UPB| and PPT' % (e['kind'], e['args']), dict(kind=e['kind'], args=e['args']))
        elif e['op'] == 'bases':
            ctx.violation('C18:%s:bases' % e['fn'], '%s(d=%d, flag=%s, alpha=%s): not the documented number of orthonormal bases / a projector is not Hermitian rank-one PSD / a block is not orthogonal or does not resolve the identity'
                          % (e['fn'], e['d'], e['flag'], e['alpha']), dict(fn=e['fn'], d=e['d'], flag=e['flag'], alpha=e['alpha']))
        elif e['op'] == 'wtype':
            ctx.violation('C18:Wtype:%s' % ('complex' if e['dtype'].startswith('complex') and any(x[1] for x in e['c']) else 'real'),
                          'Wtype(%s as %s) is not the unit-norm positive multiple of the coefficient vector on the single-excitation basis states' % (e['c'], e['dtype']), dict(c=e['c'], dtype=e['dtype']))
        elif e['op'] == 'closed_shape':
            ctx.violation('C18:%s:shape' % e['fn'], '%s(d=%d, alpha) on the entangled range is not a non-decreasing continuous function ending at the documented value' % (e['fn'], e['d']), {k: v for k, v in e.items() if k != 'vals'})
        elif e['op'] == 'closed_near':
            ctx.violation('C18:%s:near-threshold' % e['fn'], '%s(d=%d, alpha=threshold%+d/2^%d) = %s: not finite / not exactly zero on the separable side / negative or above the value at threshold+1/100 on the entangled side'
                          % (e['fn'], e['d'], e['k'], e['e'], e['value']), e)
        else:
            ctx.violation('C18:%s:separable-range' % e['fn'], '%s(d=%d, alpha=%d/%d): not exactly zero on the separable range / not positive outside / not finite' % (e['fn'], e['d'], e['num'], e['den']), e)
    st = [s for s in states if s['cfg']['kind'] == 'dm' and s['cfg']['c']['f'] == 'Werner'][2]
    ctx.sample(dict(kind='state', constructor='Werner', args=st['cfg']['c'], first_row=st['obs']['dm'][0][:4]))
    ctx.sample(dict(kind='upb-event', event={k: v for k, v in ev[0].items() if k != 'parties'}, first_party_c=ev[0]['parties'][0]['c']))


def replay(ctx, rec):
    print('replay', rec['key'], rec['what'], rec['data'])
    return 0
