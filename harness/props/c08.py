"""C08 - Pauli encodings are faithful.  spec: specs/pauli/{Pauli,PauliEnc,MC_Pauli,Trace_Pauli}.tla"""
import random, itertools
import numpy as np
from .. import tlc, core

LET = 'IXYZ'


def code_to_f2(c, n):
    ph = c >> (2 * n)
    x = [(c >> (n + n - 1 - k)) & 1 for k in range(n)]
    z = [(c >> (n - 1 - k)) & 1 for k in range(n)]
    return np.array([ph >> 1, ph & 1] + x + z, dtype=np.uint8)


def f2_to_code(v):
    n = (len(v) - 2) // 2
    c = 2 * int(v[0]) + int(v[1])
    for b in v[2:]:
        c = 2 * c + int(b)
    return c


def gmat(m):
    return np.array([[complex(e[0], e[1]) for e in row] for row in m])


def digits_to_int(d):
    r = 0
    for x in d:
        r = 4 * r + x
    return r


def int_to_digits(v, n):
    v = int(v)
    out = []
    for _ in range(n):
        out.append(v % 4)
        v //= 4
    return out[::-1]


def replay_states(ctx, n, states):
    import numqi
    from numqi.gate import PauliOperator as PO
    G = numqi.gate
    K = 4 ** (n + 1)
    ops = {}
    exp = {}
    for st in states:
        e = st['enc']
        exp[e['code']] = e
    assert len(exp) == K, 'dump incomplete'

    def bad(fn, clause, data):
        ctx.violation('C08:%s:%s' % (fn, clause), '%s: %s (n=%d)' % (fn, clause, n), data)

    for c, e in sorted(exp.items()):
        f2 = np.array(e['f2'], dtype=np.uint8)
        if f2_to_code(f2) != c or not np.array_equal(code_to_f2(c, n), f2):
            raise core.MachineryError('code/f2 mismatch in dump')
        s = ''.join(LET[k] for k in e['letters'])
        sign = 1j ** e['sign']
        dense = gmat(e['dense'])
        idx = digits_to_int(e['letters'])
        idxf2 = np.array(e['idxf2'], dtype=np.uint8)
        data = dict(n=n, f2=e['f2'], str=s, sign=e['sign'])
        ctx.case(('state', n, c))
        try:
            op = PO.from_F2(f2.copy())
            ops[c] = op
            if op.str_ != s: bad('PauliOperator.str_', 'string of F2', data)
            if op.sign != sign: bad('PauliOperator.sign', 'sign of F2', data)
            if not np.array_equal(op.full_matrix, dense): bad('PauliOperator.full_matrix', 'dense matrix', data)
            r = G.pauli_F2_to_str(f2.copy())
            if r[0] != s or r[1] != sign: bad('pauli_F2_to_str', 'single', data)
            if not np.array_equal(G.pauli_str_to_F2(s, sign), f2): bad('pauli_str_to_F2', 'single', data)
            if not np.array_equal(PO.from_str(s, sign).F2, f2): bad('PauliOperator.from_str', 'F2 of string', data)
            if not np.array_equal(PO.from_np_list(op.np_list, sign).F2, f2): bad('PauliOperator.from_np_list', 'round trip', data)
            if not np.array_equal(PO.from_full_matrix(dense).F2, f2): bad('PauliOperator.from_full_matrix', 'F2 of dense', data)
            if f2_to_code(op.inverse().F2) != e['inv']: bad('PauliOperator.inverse', 'inverse', data)
            if G.pauli_F2_to_index(f2.copy()) != idx: bad('pauli_F2_to_index', 'single with_sign', data)
            if G.pauli_F2_to_index(f2[2:].copy(), with_sign=False) != idx: bad('pauli_F2_to_index', 'single without sign', data)
            if not np.array_equal(G.pauli_index_to_F2(idx, n), idxf2): bad('pauli_index_to_F2', 'single with_sign', data)
            if not np.array_equal(G.pauli_index_to_F2(idx, n, with_sign=False), f2[2:]): bad('pauli_index_to_F2', 'single without sign', data)
            if G.pauli_index_to_str(idx, n) != s: bad('pauli_index_to_str', 'single', data)
            if G.pauli_str_to_index(s) != idx: bad('pauli_str_to_index', 'single', data)
            if not np.array_equal(PO.from_index(idx, n).F2, idxf2): bad('PauliOperator.from_index', 'F2 of index', data)
            if len(op) != n: bad('PauliOperator.__len__', 'num_qubit', data)
        except Exception as ex:
            bad('exception', type(ex).__name__ + ' in per-state conversions', dict(data, error=repr(ex)))
    ctx.sample(dict(kind='state', n=n, f2=exp[K // 3]['f2'], letters=exp[K // 3]['letters'], sign=exp[K // 3]['sign']))
    # ---- all ordered pairs (one test per transition of the multiplication table)
    for c, e in sorted(exp.items()):
        a = ops.get(c)
        if a is None:
            continue
        for d in range(K):
            b = ops.get(d)
            if b is None:
                continue
            ctx.case(('pair', n, c, d))
            try:
                if f2_to_code((a @ b).F2) != e['row'][d]:
                    bad('PauliOperator.__matmul__', 'product incl. phase', dict(n=n, a=exp[c]['f2'], b=exp[d]['f2'], expected=code_to_f2(e['row'][d], n).tolist(), got=(a @ b).F2.tolist()))
                if bool(a.commutate_with(b)) != bool(e['comm'][d]):
                    bad('PauliOperator.commutate_with', 'commutation', dict(n=n, a=exp[c]['f2'], b=exp[d]['f2']))
            except Exception as ex:
                bad('exception', type(ex).__name__ + ' in pair op', dict(n=n, a=exp[c]['f2'], b=exp[d]['f2'], error=repr(ex)))
    ctx.sample(dict(kind='pair', n=n, a=exp[5]['f2'], b=exp[K - 2]['f2'], product=code_to_f2(exp[5]['row'][K - 2], n).tolist()))
    # ---- batched forms, shapes (K,) and (k,l)
    codes = sorted(exp)
    allf2 = np.stack([np.array(exp[c]['f2'], dtype=np.uint8) for c in codes])
    strs = [''.join(LET[k] for k in exp[c]['letters']) for c in codes]
    signs = np.array([1j ** exp[c]['sign'] for c in codes])
    idxs = [digits_to_int(exp[c]['letters']) for c in codes]
    idxf2 = np.stack([np.array(exp[c]['idxf2'], dtype=np.uint8) for c in codes])
    for shape in [(K,), (4, K // 4), (K // 8, 2, 4)]:
        ctx.case(('batch', n, shape))
        d = dict(n=n, shape=list(shape))
        try:
            r = G.pauli_F2_to_str(allf2.reshape(shape + (-1,)))
            if r[0].shape != shape or r[0].reshape(-1).tolist() != strs or not np.array_equal(r[1].reshape(-1), signs):
                bad('pauli_F2_to_str', 'batched', d)
            r = G.pauli_str_to_F2(np.array(strs).reshape(shape), signs.reshape(shape))
            if not np.array_equal(r, allf2.reshape(shape + (-1,))): bad('pauli_str_to_F2', 'batched', d)
            r = G.pauli_F2_to_index(allf2.reshape(shape + (-1,)))
            if r.shape != shape or r.reshape(-1).tolist() != idxs: bad('pauli_F2_to_index', 'batched with_sign', d)
            r = G.pauli_F2_to_index(allf2[:, 2:].reshape(shape + (-1,)), with_sign=False)
            if r.shape != shape or r.reshape(-1).tolist() != idxs: bad('pauli_F2_to_index', 'batched without sign', d)
            r = G.pauli_index_to_F2(np.array(idxs).reshape(shape), n)
            if not np.array_equal(r, idxf2.reshape(shape + (-1,))): bad('pauli_index_to_F2', 'batched with_sign', d)
            r = G.pauli_index_to_F2(np.array(idxs).reshape(shape), n, with_sign=False)
            if not np.array_equal(r, allf2[:, 2:].reshape(shape + (-1,))): bad('pauli_index_to_F2', 'batched without sign', d)
            r = G.pauli_index_to_str(np.array(idxs).reshape(shape), n)
            if r.shape != shape or r.reshape(-1).tolist() != strs: bad('pauli_index_to_str', 'batched', d)
            r = G.pauli_str_to_index(np.array(strs).reshape(shape))
            if r.shape != shape or r.reshape(-1).tolist() != idxs: bad('pauli_str_to_index', 'batched', d)
        except Exception as ex:
            bad('exception', type(ex).__name__ + ' in batched conversion', dict(d, error=repr(ex)))
    # ---- get_pauli_group orderings against the spec's dense matrices (sign-free index form)
    try:
        grp = G.get_pauli_group(n, kind='numpy')
        gs = G.get_pauli_group(n, kind='str')
        gi = G.get_pauli_group(n, kind='str_to_index')
        for c in codes:
            e = exp[c]
            if e['sign'] != 0:
                continue
            i = digits_to_int(e['letters'])
            s = ''.join(LET[k] for k in e['letters'])
            ctx.case(('group', n, i))
            if not np.array_equal(grp[i], gmat(e['dense'])): bad('get_pauli_group', 'numpy ordering', dict(n=n, index=i))
            if gs[i] != s or gi[s] != i: bad('get_pauli_group', 'str ordering', dict(n=n, index=i))
    except Exception as ex:
        bad('exception', type(ex).__name__ + ' in get_pauli_group', dict(n=n, error=repr(ex)))


def record_random(ctx, rng, count, nmax):
    """drive the real code on random operators (code -> spec trace validation)"""
    import numqi
    from numqi.gate import PauliOperator as PO
    G = numqi.gate
    ev = []
    li = lambda a: [int(x) for x in a]

    def rf2(n):
        return np.array([rng.randrange(2) for _ in range(2 * n + 2)], dtype=np.uint8)
    for i in range(count):
        n = rng.choice([1, 2, 3, 4, 5, 7, 8, 12]) if nmax >= 12 else rng.randint(1, nmax)
        a, b = rf2(n), rf2(n)
        try:
            A, B = PO.from_F2(a.copy()), PO.from_F2(b.copy())
            ev.append(dict(op='matmul', a=li(a), b=li(b), res=li((A @ B).F2)))
            ev.append(dict(op='inverse', a=li(a), res=li(A.inverse().F2)))
            ev.append(dict(op='commute', a=li(a), b=li(b), res=bool(A.commutate_with(B))))
            s, sg = G.pauli_F2_to_str(a.copy())
            sge = {(1, 0): 0, (0, 1): 1, (-1, 0): 2, (0, -1): 3}.get((int(sg.real), int(sg.imag)), -1)
            ev.append(dict(op='F2_to_str', a=li(a), letters=[LET.index(ch) for ch in s], sign=sge))
            letters = [rng.randrange(4) for _ in range(n)]
            sg2 = rng.randrange(4)
            ev.append(dict(op='str_to_F2', letters=letters, sign=sg2, res=li(G.pauli_str_to_F2(''.join(LET[k] for k in letters), 1j ** sg2))))
            _i = G.pauli_F2_to_index(a.copy())
            ev.append(dict(op='F2_to_index', a=li(a), digits=int_to_digits(_i, n), inrange=bool(0 <= int(_i) < 4 ** n)))
            h = rng.choice([None, True, False])
            sd = rng.randrange(10 ** 6)
            ev.append(dict(op='rand_pauli', n=n, herm=str(h), seed=sd, res=li(numqi.random.rand_pauli(n, is_hermitian=h, seed=sd).F2)))
        except Exception as ex:
            ev.append(dict(op='exception', where='binary form n=%d' % n, error=repr(ex)))
    # index forms up to 4^31 (digit sequences keep TLC within 32 bits); single and batched code paths
    for i in range(count // 2):
        n = rng.choice([1, 2, 5, 11, 16, 20, 31, 32])
        dg = [rng.randrange(4) for _ in range(n)]
        if i % 7 == 0:
            dg = [3] * n           # largest index 4^n - 1
        idx = digits_to_int(dg)
        try:
            ev.append(dict(op='index_to_F2', digits=dg, mode='single', res=li(G.pauli_index_to_F2(idx, n))))
            ev.append(dict(op='index_to_str', digits=dg, mode='single', letters=[LET.index(ch) for ch in G.pauli_index_to_str(idx, n)]))
            s = ''.join(LET[k] for k in dg)
            _i = G.pauli_str_to_index(s)
            ev.append(dict(op='str_to_index', letters=dg, mode='single', digits=int_to_digits(_i, n), inrange=bool(0 <= int(_i) < 4 ** n)))
            arr = np.array([idx, idx], dtype=np.uint64)
            ev.append(dict(op='index_to_F2', digits=dg, mode='batch', res=li(G.pauli_index_to_F2(arr, n)[1])))
            ev.append(dict(op='index_to_str', digits=dg, mode='batch', letters=[LET.index(ch) for ch in G.pauli_index_to_str(arr, n)[1]]))
            _i = G.pauli_str_to_index(np.array([s, s]))[0]
            ev.append(dict(op='str_to_index', letters=dg, mode='batch', digits=int_to_digits(_i, n), inrange=bool(0 <= int(_i) < 4 ** n)))
            f2 = np.array([[0, 0] + [1 if k in (1, 2) else 0 for k in dg] + [1 if k in (2, 3) else 0 for k in dg]] * 2, dtype=np.uint8)
            _i = G.pauli_F2_to_index(f2)[1]
            ev.append(dict(op='F2_to_index', a=li(f2[0]), mode='batch', digits=int_to_digits(_i, n), inrange=bool(0 <= int(_i) < 4 ** n)))
        except Exception as ex:
            ev.append(dict(op='exception', where='index form n=%d' % n, error=repr(ex)))
    return ev


def run_object_history(start_f2, hist):
    """drive a real PauliOperator object along a history of views / inverse / products; log every observation"""
    from numqi.gate import PauliOperator as PO
    li = lambda a: [int(x) for x in a]
    cur = PO.from_F2(np.array(start_f2, dtype=np.uint8))
    ev = [dict(op='new', f2=li(start_f2))]
    sgn = {(1, 0): 0, (0, 1): 1, (-1, 0): 2, (0, -1): 3}

    def view(v):
        if v == 'F2':
            return li(cur.F2)
        if v == 'str':
            return [LET.index(ch) for ch in cur.str_]
        if v == 'sign':
            z = complex(cur.sign)
            return sgn.get((int(round(z.real)), int(round(z.imag))), -1)
        m = cur.full_matrix
        return [[[int(round(z.real)), int(round(z.imag))] for z in row] for row in m]
    try:
        for h in hist:
            if h[0] == 'view':
                ev.append(dict(op='view', v=h[1], val=view(h[1])))
            elif h[0] == 'inverse':
                cur = cur.inverse()
                ev.append(dict(op='inverse', f2=li(cur.F2)))
            else:
                cur = cur @ PO.from_F2(np.array(h[1], dtype=np.uint8))
                ev.append(dict(op='mul', q=li(h[1]), f2=li(cur.F2)))
        # final observation of every view of the last object
        for v in ('sign', 'str', 'dense', 'F2'):
            ev.append(dict(op='view', v=v, val=view(v)))
    except Exception as ex:
        ev.append(dict(op='exception', error=repr(ex)))
    return ev


def object_histories(ctx):
    quick = ctx.tier == 'quick'
    r = tlc.run('pauli/MC_PauliObject.tla', 'pauli/MC_PauliObject_%s.cfg' % ('q' if quick else 't'), dump=True, timeout=3000)
    ctx.add_model('MC_PauliObject(%s)' % ('N=1,len<=4' if quick else 'N=2,len<=4'), r)
    hs = [(st['start'], st['hist']) for st in tlc.parse_dump(r) if st['hist']]
    traces = []
    keep = []
    for start, hist in hs:
        f2 = [start['ph'] >> 1, start['ph'] & 1] + start['x'] + start['z']
        t = run_object_history(f2, hist)
        if t[-1]['op'] == 'exception':
            ctx.violation('C08:PauliOperator:exception-in-history', t[-1]['error'], dict(start=f2, history=hist))
            continue
        traces.append(t)
        keep.append((f2, hist))
        ctx.case(('objhist', tuple(f2), repr(hist)))
    acc, rej, results = tlc.validate_events('pauli/Trace_PauliObject.tla', 'pauli/Trace_PauliObject.cfg', traces, shards=16)
    for r in results:
        ctx.states += r.distinct
        ctx.transitions += r.generated
    ctx.models.append(dict(model='Trace_PauliObject', traces=len(traces), accepted=acc, rejected=len(rej), exhaustive=True))
    ctx.traces += len(traces)
    for gi, info in rej:
        f2, hist = keep[gi]
        t = traces[gi]
        e = t[info[1] - 1]
        ctx.violation('C08:PauliOperator:%s-after-history' % (e['op'] + ('.' + e['v'] if e['op'] == 'view' else '')),
                      'observation of a PauliOperator object disagrees with the element it denotes (event %d of the history)' % info[1],
                      dict(start=f2, history=hist, trace=t, event=info[1]))
    if traces:
        ctx.sample(dict(kind='object-history', start=keep[len(keep) // 3][0], history=keep[len(keep) // 3][1]))


def validate_repo_tests(ctx):
    """what the repository's own tests did with the Pauli routines (recorded by harness/recorder.py), validated by the same trace specs"""
    from .. import repotrace
    d = repotrace.record()
    ev, ob = d['pauli'], d['pobj']
    if not ev or not ob:
        raise core.MachineryError('the repository tests produced no Pauli events: ' + d['pytest_tail'])
    acc, rej, results = tlc.validate_events('pauli/Trace_Pauli.tla', 'pauli/Trace_Pauli.cfg', ev, shards=4)
    acc2, rej2, results2 = tlc.validate_events('pauli/Trace_PauliObject.tla', 'pauli/Trace_PauliObject.cfg', ob, shards=4)
    for r in results + results2:
        ctx.states += r.distinct
        ctx.transitions += r.generated
    ctx.models.append(dict(model='Trace_Pauli[repository tests]', events=len(ev), accepted=acc, rejected=len(rej), pytest=d['pytest_tail'], exhaustive=False))
    ctx.models.append(dict(model='Trace_PauliObject[repository tests]', traces=len(ob), accepted=acc2, rejected=len(rej2), skipped_by_recorder=d['skipped'], exhaustive=False))
    ctx.traces += len(ev) + len(ob)
    for e in ev:
        ctx.case(('repo-ev', repr(sorted(e.items()))))
    for t in ob:
        ctx.case(('repo-obj', repr(t[0]['f2'])))
    for gi, info in rej:
        ctx.violation('C08:trace:%s:repository-test' % ev[gi]['op'], 'a call made by the repository tests is rejected by Trace_Pauli: %s' % ev[gi]['op'], ev[gi])
    for gi, info in rej2:
        ctx.violation('C08:PauliOperator:dense:repository-test', 'a PauliOperator <-> dense conversion made by the repository tests is rejected by Trace_PauliObject', dict(trace=ob[gi]))


def run(ctx):
    quick = ctx.tier == 'quick'
    ctx.rule = ('exhaustive: every phased Pauli operator (state of MC_Pauli) and every ordered pair (row of the '
                'multiplication table) for n in %s; random: recorded calls on operators with n<=12 (index forms n<=31); '
                'a case is distinct by (kind,n,operands) and non-trivial because every case is a different operator / pair'
                % ('1,2' if quick else '1,2,3'))
    ctx.not_covered = []
    ctx.assumptions = ['TLC/SANY and the TLA+ value parser are correct', 'numpy uint8/complex arithmetic on small integers is exact']
    for n in ([1, 2] if quick else [1, 2, 3]):
        r = tlc.run('pauli/MC_Pauli.tla', 'pauli/MC_Pauli_n%d.cfg' % n, dump=True, timeout=3000)
        ctx.add_model('MC_Pauli(N=%d)' % n, r, exhaustive=True)
        if r.distinct != 4 ** (n + 1):
            raise core.MachineryError('Pauli group model has %d states, expected %d' % (r.distinct, 4 ** (n + 1)))
        states = list(tlc.parse_dump(r))
        replay_states(ctx, n, states)
        ctx.traces += len(states)
    object_histories(ctx)
    rng = random.Random(ctx.seed)
    ev = record_random(ctx, rng, 400 if quick else 4000, 12)
    for i, e in enumerate(ev):
        if e['op'] == 'exception':
            ctx.violation('C08:exception:' + e['where'].split(' n=')[0], 'exception while recording: ' + e['error'], e)
    ev = [e for e in ev if e['op'] != 'exception']
    acc, rej, results = tlc.validate_events('pauli/Trace_Pauli.tla', 'pauli/Trace_Pauli.cfg', ev)
    for r in results:
        ctx.states += r.distinct
        ctx.transitions += r.generated
    ctx.models.append(dict(model='Trace_Pauli', events=len(ev), accepted=acc, exhaustive=False))
    ctx.traces += len(ev)
    for e in ev:
        ctx.case(('ev', repr(sorted(e.items()))))
    for gi, info in rej:
        e = ev[gi]
        ctx.violation('C08:trace:%s' % e['op'], 'recorded call rejected by Trace_Pauli: %s' % e['op'], e)
    ctx.sample(dict(kind='recorded-event', event=ev[0]))
    ctx.sample(dict(kind='recorded-event', event=ev[-1]))
    validate_repo_tests(ctx)


def replay(ctx, rec):
    print('replay C08', rec['key'], rec['what'])
    print(rec['data'])
    ctx2 = core.Ctx('C08', 'quick', rec.get('seed', 0))
    run(ctx2)
    hit = [v for v in ctx2.violations if v['key'] == rec['key']]
    print('reproduced' if hit else 'not reproduced')
    return 1 if hit else 0
