"""C13 - two-qubit measures agree with each other; the convex-roof ansatz bounds from above.
specs: specs/contract/{TwoQubit,MC_TwoQubit}.tla"""
import math, random
import numpy as np
from .. import tlc, core


def rf(r):
    return r[0] / r[1]


def hbin(x):
    return 0.0 if x <= 0 or x >= 1 else -x * math.log(x) - (1 - x) * math.log(1 - x)


def eof_of_c(c):
    return hbin((1 + math.sqrt(max(0.0, 1 - c * c))) / 2)


def gme_of_c(c):
    return (1 - math.sqrt(max(0.0, 1 - c * c))) / 2


def run_bell(ctx, states, rng, nmodel):
    import numqi, torch
    E = numqi.entangle
    done_models = 0
    for st in states:
        cfg, obs = st['cfg'], st['obs']
        if cfg['kind'] != 'bell':
            continue
        rho = np.array([[complex(e[0], e[1]) for e in row] for row in obs['rho']]) / obs['den']
        C, N, npt = rf(obs['c']), rf(obs['neg']), obs['npt']
        n = cfg['n']
        pmax = max(n) / sum(n)
        data = dict(weights=n, local_unitaries=[cfg['ua'], cfg['ub']], concurrence=C)
        ctx.case(('bell', tuple(n), tuple(cfg['ua']), tuple(cfg['ub'])))

        def bad(fn, clause, extra=None):
            ctx.violation('C13:%s:%s' % (fn, clause), '%s: %s (Bell-diagonal weights %s)' % (fn, clause, n), dict(data, **(extra or {})))
        try:
            c = float(E.get_concurrence_2qubit(rho))
            ng = float(E.get_negativity(rho, (2, 2)))
            ef = float(E.get_eof_2qubit(rho))
            gm = float(E.get_gme_2qubit(rho))
            ctx.evaluations += 1
            vals = dict(concurrence=c, negativity=ng, eof=ef, gme=gm)
            if not all(np.isfinite(v) for v in vals.values()): bad('two-qubit-measures', 'non-finite value', vals)
            if core.gt(abs(c - C), 1e-6): bad('get_concurrence_2qubit', 'differs from max(0, 2 p_max - 1) (also: not invariant under the local unitary)', vals)
            if core.gt(abs(ng - N), 1e-8): bad('get_negativity', 'differs from max(0, p_max - 1/2)', vals)
            if core.gt(abs(ef - eof_of_c(C)), 1e-5): bad('get_eof_2qubit', 'not the monotone function h((1+sqrt(1-C^2))/2) of the concurrence', vals)
            # compared in concurrence space: the map C -> GME has unbounded slope at C = 1
            if core.gt(abs(math.sqrt(max(0.0, 1 - (1 - 2 * gm) ** 2)) - C), 1e-6): bad('get_gme_2qubit', 'not the monotone function (1-sqrt(1-C^2))/2 of the concurrence', vals)
            if not (-1e-9 <= c <= 1 + 1e-9 and -1e-9 <= ef <= math.log(2) + 1e-9 and -1e-9 <= gm <= 0.5 + 1e-9 and -1e-9 <= ng <= 0.5 + 1e-9): bad('two-qubit-measures', 'value outside its range', vals)
            if core.gt(abs(pmax - 0.5), 1e-5):
                if E.is_ppt(rho, (2, 2)) != (not npt): bad('is_ppt', 'PPT verdict differs from p_max <= 1/2', vals)
                for nm, v in vals.items():
                    if (v > 1e-7) != npt: bad('two-qubit-measures', '%s is non-zero although PPT / zero although NPT' % nm, vals)
            # convex-roof models at arbitrary parameter points: never below the closed form
            rank = sum(1 for x in n if x > 0)
            if done_models < nmodel and rng.random() < 0.2:
                done_models += 1
                closed = dict(EntanglementFormationModel=eof_of_c(C), ConcurrenceModel=C, DensityMatrixGMEModel=gme_of_c(C), DensityMatrixLinearEntropyModel=C * C / 2)
                for ens in sorted({max(2, rank), min(8, max(2, rank) + 1), 8}):      # the Stiefel parametrisation needs >= 2 ensemble members
                    models = [E.EntanglementFormationModel(2, 2, ens, rank=rank), E.ConcurrenceModel(2, 2, ens, rank=rank),
                              E.DensityMatrixGMEModel((2, 2), ens, rank=rank), E.DensityMatrixLinearEntropyModel((2, 2), ens, rank=rank)]
                    for m in models:
                        m.set_density_matrix(rho)
                        # "an actual pure-state decomposition of the GIVEN state": the ensemble is sqrt(rho) X^T with X on a Stiefel manifold
                        # (membership of X: C01), so the stored factor must reproduce rho:  S S^dagger = rho
                        S = m._sqrt_rho.detach().numpy().reshape(4, -1)
                        if core.gt(np.abs(S @ S.conj().T - rho).max(), 1e-9):
                            bad(type(m).__name__, 'the ensemble the model evaluates does not decompose the given state (S S^dagger differs from rho by %.3g, ensemble %d, rank %d)' % (np.abs(S @ S.conj().T - rho).max(), ens, rank), dict(ensemble=ens, rank=rank))
                        npar = len(numqi.optimize.get_model_flat_parameter(m))
                        for scale in (0.1, 1.0, 10.0):
                            th = np.array([rng.gauss(0, scale) for _ in range(npar)])
                            numqi.optimize.set_model_flat_parameter(m, th)
                            with torch.no_grad():
                                v = float(m())
                            ctx.evaluations += 1
                            nm = type(m).__name__
                            if not np.isfinite(v) or v < closed[nm] - 1e-7:
                                bad(nm, 'loss %.9g at an arbitrary parameter point is below the closed-form value %.9g (ensemble %d, scale %g)' % (v, closed[nm], ens, scale), dict(ensemble=ens, rank=rank))
        except Exception as ex:
            ctx.violation('C13:exception:bell', type(ex).__name__ + ': ' + str(ex)[:160], data)
    ctx.extra['states_with_model_checks'] = done_models


def run_xstate(ctx, states, rng, limit):
    """X states (not in the local-unitary orbit of Bell-diagonal states): exact Yu-Eberly concurrence"""
    import numqi
    E = numqi.entangle
    xs = [s for s in states if s['cfg']['kind'] == 'xstate']
    if len(xs) > limit:
        xs = rng.sample(xs, limit)
    for st in xs:
        cfg, obs = st['cfg'], st['obs']
        rho = np.array([[complex(e[0], e[1]) for e in row] for row in obs['rho']]) / obs['den']
        C, npt = rf(obs['c']), obs['npt']
        data = dict(populations_sqrt=cfg['n'], w=cfg['w'], z=cfg['z'], local_unitaries=[cfg['ua'], cfg['ub']], concurrence=C)
        ctx.case(('xstate', tuple(cfg['n']), tuple(cfg['w']), tuple(cfg['z']), tuple(cfg['ua']), tuple(cfg['ub'])))

        def bad(fn, clause, extra=None):
            ctx.violation('C13:%s:xstate:%s' % (fn, clause), '%s: %s (X state)' % (fn, clause), dict(data, **(extra or {})))
        try:
            c = float(E.get_concurrence_2qubit(rho))
            ng = float(E.get_negativity(rho, (2, 2)))
            ef = float(E.get_eof_2qubit(rho))
            gm = float(E.get_gme_2qubit(rho))
            ctx.evaluations += 1
            vals = dict(concurrence=c, negativity=ng, eof=ef, gme=gm)
            if not all(np.isfinite(v) for v in vals.values()): bad('two-qubit-measures', 'non-finite value', vals)
            if core.gt(abs(c - C), 1e-6): bad('get_concurrence_2qubit', 'differs from 2 max(0, |w| - sqrt(rho22 rho33), |z| - sqrt(rho11 rho44))', vals)
            if core.gt(abs(ef - eof_of_c(C)), 1e-5): bad('get_eof_2qubit', 'not the monotone function h((1+sqrt(1-C^2))/2) of the concurrence', vals)
            if core.gt(abs(math.sqrt(max(0.0, 1 - (1 - 2 * gm) ** 2)) - C), 1e-6): bad('get_gme_2qubit', 'not the monotone function (1-sqrt(1-C^2))/2 of the concurrence', vals)
            if not (-1e-9 <= c <= 1 + 1e-9 and -1e-9 <= ef <= math.log(2) + 1e-9 and -1e-9 <= gm <= 0.5 + 1e-9 and -1e-9 <= ng <= 0.5 + 1e-9): bad('two-qubit-measures', 'value outside its range', vals)
            if npt or C == 0:
                # (at the PPT boundary |w| = sqrt(rho22 rho33) the verdicts are within rounding of the threshold)
                boundary = (not npt) and (abs(cfg['w'][0]) + abs(cfg['w'][1]) == cfg['n'][1] * cfg['n'][2] or abs(cfg['z'][0]) + abs(cfg['z'][1]) == cfg['n'][0] * cfg['n'][3])
                if not boundary:
                    if E.is_ppt(rho, (2, 2)) != (not npt): bad('is_ppt', 'PPT verdict differs from the exact one', vals)
                    for nm, v in vals.items():
                        if (v > 1e-7) != npt: bad('two-qubit-measures', '%s is non-zero although PPT / zero although NPT' % nm, vals)
        except Exception as ex:
            ctx.violation('C13:exception:xstate', type(ex).__name__ + ': ' + str(ex)[:160], data)


def run_lu_orbit(ctx, states, rng, count):
    """invariance under ARBITRARY local unitaries: the closed forms of U_A (x) U_B rho (U_A (x) U_B)^dagger equal the exact values of rho
    (provenance: local-unitary orbit of an exactly known state); includes the maximally entangled orbit where C = 1 exactly"""
    import numqi
    E = numqi.entangle
    bell = [s for s in states if s['cfg']['kind'] == 'bell']
    maxent = [s for s in bell if rf(s['obs']['c']) == 1.0]
    for t in range(count):
        st = rng.choice(maxent) if t % 2 == 0 else rng.choice(bell)
        rho = np.array([[complex(e[0], e[1]) for e in row] for row in st['obs']['rho']]) / st['obs']['den']
        sa, sb = rng.randrange(10**6), rng.randrange(10**6)
        U = np.kron(numqi.random.rand_haar_unitary(2, seed=sa), numqi.random.rand_haar_unitary(2, seed=sb))
        r2 = U @ rho @ U.conj().T
        r2 = (r2 + r2.conj().T) / 2
        C = rf(st['obs']['c'])
        data = dict(weights=st['cfg']['n'], unitary_seeds=[sa, sb], concurrence=C)
        try:
            vals = dict(concurrence=float(E.get_concurrence_2qubit(r2)), eof=float(E.get_eof_2qubit(r2)), gme=float(E.get_gme_2qubit(r2)), negativity=float(E.get_negativity(r2, (2, 2))))
            ctx.evaluations += 1
            if not all(np.isfinite(v) for v in vals.values()):
                ctx.violation('C13:two-qubit-measures:non-finite-lu-orbit', 'non-finite value on a local-unitary image of a Bell-diagonal state (C=%g)' % C, dict(data, **{k: repr(v) for k, v in vals.items()}))
            elif core.gt(abs(vals['concurrence'] - C), 1e-6) or core.gt(abs(vals['eof'] - eof_of_c(C)), 1e-5) or core.gt(abs(vals['negativity'] - rf(st['obs']['neg'])), 1e-7) or core.gt(abs(math.sqrt(max(0.0, 1 - (1 - 2 * vals['gme']) ** 2)) - C), 1e-5):
                ctx.violation('C13:two-qubit-measures:lu-invariance', 'closed forms are not invariant under a local unitary', dict(data, **vals))
        except Exception as ex:
            ctx.violation('C13:exception:lu-orbit', type(ex).__name__ + ': ' + str(ex)[:160], data)
    ctx.case(('lu-orbit', count))


def run_model_reuse(ctx, states, rng, nseq):
    """one model instance re-used over a sequence of states: set_density_matrix(rho_1); forward; set_density_matrix(rho_2); forward ...
    every forward value must bound the closed form of the state that was set LAST (history-dependent behaviour of the model objects)"""
    import numqi, torch
    E = numqi.entangle
    bell = [s for s in states if s['cfg']['kind'] == 'bell']
    for q in range(nseq):
        rank = rng.choice([1, 2, 3, 4])
        pool = [s for s in bell if sum(1 for x in s['cfg']['n'] if x > 0) == rank]
        # a weakly entangled state first, a strongly entangled one second: a model that keeps evaluating the first state
        # then reports a loss below the closed form of the second
        byc = sorted(pool, key=lambda t: rf(t['obs']['c']))
        seq = [rng.choice(byc[: max(1, len(byc) // 4)]), rng.choice(byc[-max(1, len(byc) // 4):]), rng.choice(pool)]
        ens = max(2, rank) + rng.randint(0, 2)
        models = [E.EntanglementFormationModel(2, 2, ens, rank=rank), E.ConcurrenceModel(2, 2, ens, rank=rank),
                  E.DensityMatrixGMEModel((2, 2), ens, rank=rank), E.DensityMatrixLinearEntropyModel((2, 2), ens, rank=rank)]
        for m in models:
            nm = type(m).__name__
            hist = []
            try:
                for st in seq:
                    rho = np.array([[complex(e[0], e[1]) for e in row] for row in st['obs']['rho']]) / st['obs']['den']
                    C = rf(st['obs']['c'])
                    closed = dict(EntanglementFormationModel=eof_of_c(C), ConcurrenceModel=C, DensityMatrixGMEModel=gme_of_c(C), DensityMatrixLinearEntropyModel=C * C / 2)[nm]
                    m.set_density_matrix(rho)
                    hist.append(dict(weights=st['cfg']['n'], closed=closed))
                    npar = len(numqi.optimize.get_model_flat_parameter(m))
                    for scale in (0.01, 1.0):
                        numqi.optimize.set_model_flat_parameter(m, np.array([rng.gauss(0, scale) for _ in range(npar)]))
                        with torch.no_grad():
                            v = float(m())
                        ctx.evaluations += 1
                        if not np.isfinite(v) or v < closed - 1e-7:
                            ctx.violation('C13:%s:reused-instance' % nm, '%s re-used over a sequence of states: loss %.9g after set_density_matrix #%d is below the closed form %.9g of the CURRENT state' % (nm, v, len(hist), closed),
                                          dict(history=hist, rank=rank, ensemble=ens))
                            raise StopIteration
            except StopIteration:
                pass
            except Exception as ex:
                ctx.violation('C13:exception:model-reuse', type(ex).__name__ + ': ' + str(ex)[:160], dict(model=nm, rank=rank))
        ctx.case(('reuse', q, rank))


def run_pure(ctx, states, rng, limit):
    import numqi
    E = numqi.entangle
    sel = [s for s in states if s['cfg']['kind'] == 'pure']
    if len(sel) > limit:
        sel = rng.sample(sel, limit)
    for st in sel:
        amp = st['cfg']['ub']
        psi = np.array([complex(a[0], a[1]) for a in amp])
        psi = psi / np.linalg.norm(psi)
        C = math.sqrt(rf(st['obs']['c2']))
        data = dict(amplitudes=amp, concurrence=C)
        ctx.case(('pure', repr(amp)))
        try:
            rho = np.outer(psi, psi.conj())
            v = dict(pure=float(E.get_concurrence_pure(psi.reshape(2, 2))), mixed=float(E.get_concurrence_2qubit(rho)),
                     eof_pure=float(E.get_eof_pure(psi.reshape(2, 2))), eof_mixed=float(E.get_eof_2qubit(rho)), gme=float(E.get_gme_2qubit(rho)))
            ctx.evaluations += 1
            if not all(np.isfinite(x) for x in v.values()): ctx.violation('C13:two-qubit-measures:non-finite-pure', 'non-finite value on a pure state', dict(data, **{k: repr(x) for k, x in v.items()}))
            if core.gt(abs(v['pure'] - C), 1e-7): ctx.violation('C13:get_concurrence_pure:formula', 'differs from 2|ad-bc|/|psi|^2', dict(data, **v))
            if core.gt(abs(v['mixed'] - C), 1e-6): ctx.violation('C13:get_concurrence_2qubit:pure-state', 'does not reduce to the pure-state formula on a projector', dict(data, **v))
            if core.gt(abs(v['eof_pure'] - eof_of_c(C)), 1e-6) or core.gt(abs(v['eof_mixed'] - eof_of_c(C)), 1e-5): ctx.violation('C13:get_eof:pure-state', 'EOF of a pure state differs from h((1+sqrt(1-C^2))/2)', dict(data, **v))
            if core.gt(abs(math.sqrt(max(0.0, 1 - (1 - 2 * v['gme']) ** 2)) - C), 1e-6): ctx.violation('C13:get_gme_2qubit:pure-state', 'GME of a pure state differs from (1-sqrt(1-C^2))/2', dict(data, **v))
        except Exception as ex:
            ctx.violation('C13:exception:pure', type(ex).__name__ + ': ' + str(ex)[:160], data)


def run(ctx):
    quick = ctx.tier == 'quick'
    rng = random.Random(ctx.seed)
    ctx.rule = ('Bell-diagonal states on an integer weight grid (all ranks 1..4, separable-threshold and near-threshold weights) x 16 pairs of local phased permutations; '
                'pure states with Gaussian-integer amplitudes in {-1,0,1}; convex-roof models at random parameter points of scales 0.1/1/10 with ensemble sizes rank..8 on a subset; distinct by state')
    ctx.assumptions = ['TLC/SANY correct', 'tolerances 1e-6 (sqrt/eigen based closed forms), 1e-5 (EOF), 1e-7 (upper-bound slack)']
    ctx.not_covered = ['generic states outside the Bell-diagonal local-unitary orbit and the X-state family', 'the relation E = h(C) as an identity between two floating results (it is checked through the exact C)']
    r = tlc.run('contract/MC_TwoQubit.tla', 'contract/MC_TwoQubit_%s.cfg' % ('q' if quick else 't'), dump=True, timeout=3000)
    ctx.add_model('MC_TwoQubit', r)
    states = list(tlc.parse_dump(r))
    run_bell(ctx, states, rng, 12 if quick else 150)
    run_lu_orbit(ctx, states, rng, 3000 if quick else 30000)
    run_model_reuse(ctx, states, rng, 8 if quick else 80)
    run_pure(ctx, states, rng, 800 if quick else 10**9)
    run_xstate(ctx, states, rng, 2500 if quick else 10**9)
    ctx.traces += len(states)
    b = [s for s in states if s['cfg']['kind'] == 'bell'][40]
    ctx.sample(dict(kind='bell-diagonal', weights=b['cfg']['n'], local_unitaries=[b['cfg']['ua'], b['cfg']['ub']], concurrence=b['obs']['c'], negativity=b['obs']['neg']))


def replay(ctx, rec):
    print('replay', rec['key'], rec['what'], rec['data'])
    return 0
