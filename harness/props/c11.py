"""C11 - measurement is a valid projective measurement on any qubit subset.
specs: specs/qsim/{Measure,MC_Measure,Sim_Measure}.tla"""
import random
import numpy as np
from .. import tlc, core
from ..qsim import *

TOL = 1e-9


def forced_gen(out):
    class Forced(np.random.Generator):
        def __init__(self, o):
            super().__init__(np.random.PCG64(0))
            self.out = o
            self.seen = None

        def choice(self, a, size=None, replace=True, p=None, axis=0, shuffle=True):
            self.seen = None if p is None else np.array(p)
            return self.out
    return Forced(out)


def z2(c):
    return zo(c).real


def check_family(ctx, states, rng):
    import numqi
    mqv = numqi.sim.state.measure_quantum_vector
    ncfg = 0
    for st in states:
        cfg, obs = st['cfg'], st['obs']
        n = cfg['n']
        S = tuple(q for q in range(n) if (cfg['mask'] >> (n - 1 - q)) & 1)
        n2 = z2(obs['n2'])
        psi = zo_vec(obs['psi']) / np.sqrt(n2)
        want_p = np.array([z2(c) for c in obs['marg']]) / n2
        support = [o for o, p in enumerate(obs['post']) if p]
        data = dict(n=n, family=cfg['fam'], index=list(S))
        ncfg += 1
        ctx.case(('meas', n, cfg['fam'], S))

        def bad(clause, extra=None):
            ctx.violation('C11:measure_quantum_vector:%s' % clause, 'measure_quantum_vector: %s (n=%d family=%s index=%s)' % (clause, n, cfg['fam'], list(S)), dict(data, **(extra or {})))
        seen = set()
        try:
            # real seeds until every outcome of the support was observed (bounded)
            for seed in range(ctx.seed * 1000, ctx.seed * 1000 + 40 * max(1, len(support))):
                if len(seen) == len(support):
                    break
                bitstr, prob, q2 = mqv(psi.copy(), S, seed)
                o = int(''.join(str(b) for b in bitstr), 2)
                ctx.evaluations += 1
                if prob.shape != want_p.shape or core.gt(np.abs(prob - want_p).max(), TOL):
                    bad('probabilities != Born marginals')
                    break
                if o not in support:
                    bad('outcome with zero probability returned', dict(outcome=bitstr))
                    break
                if o in seen:
                    continue
                seen.add(o)
                wantq = zo_vec(obs['post'][o]) / np.sqrt(z2(obs['marg'][o]))
                if core.gt(np.abs(q2 - wantq).max(), TOL):
                    bad('post-measurement state != normalised projection', dict(outcome=bitstr))
                    break
                # measure again: same outcome with certainty, state unchanged
                b2, p2, q3 = mqv(q2.copy(), S, seed + 7)
                e = np.zeros(len(want_p))
                e[o] = 1
                if b2 != bitstr or core.gt(np.abs(p2 - e).max(), TOL) or core.gt(np.abs(q3 - q2).max(), TOL):
                    bad('repeated measurement not idempotent', dict(outcome=bitstr))
                    break
            # outcomes not reached by the seeds: force them (exercises projection / renormalisation for every outcome)
            for o in support:
                if o in seen:
                    continue
                g = forced_gen(o)
                bitstr, prob, q2 = mqv(psi.copy(), S, g)
                wantq = zo_vec(obs['post'][o]) / np.sqrt(z2(obs['marg'][o]))
                if int(''.join(str(b) for b in bitstr), 2) != o or core.gt(np.abs(q2 - wantq).max(), TOL) or core.gt(np.abs(prob - want_p).max(), TOL):
                    bad('post-measurement state != normalised projection', dict(outcome=bitstr, forced=True))
                    break
        except Exception as ex:
            ctx.violation('C11:measure_quantum_vector:exception', type(ex).__name__ + ': ' + str(ex)[:160] + ' (n=%d index=%s)' % (n, list(S)), data)
        ctx.extra['outcomes_reached_by_seed'] = ctx.extra.get('outcomes_reached_by_seed', 0) + len(seen)
        ctx.extra['outcomes_in_support'] = ctx.extra.get('outcomes_in_support', 0) + len(support)
    return ncfg


def replay_program(ctx, beh):
    import numqi
    final = beh[-1][1]
    gates = final['gates']
    obs = final['obs']
    if not gates:
        return
    word = [('shift(+%d)' % g['out']) if g['op'] == 'shift' else gate_str(g) if g['op'] != 'measure' else 'measure(%s)->%d' % ([q - 1 for q in g['tg']], g['out']) for g in final['ops']]
    data = dict(program=word)
    try:
        circ = numqi.sim.Circuit()
        mobj = []
        for c in final['ops']:            # the calls in program order: gate appends, measure gates and shift_qubit_index_
            if c['op'] == 'measure':
                mobj.append(circ.measure(tuple(q - 1 for q in c['tg']), seed=forced_gen(c['out'])))
            elif c['op'] == 'shift':
                circ.shift_qubit_index_(c['out'])
            else:
                add_gate(circ, c)
        mg = list(zip(mobj, [g for g in gates if g['op'] == 'measure']))      # final positions of the measure gates
        n = circ.num_qubit
        if n != obs['n']:
            ctx.violation('C11:Circuit.num_qubit:register-size', 'register size differs', data)
            return
        q = circ.apply_state(numqi.sim.new_base(n))
        want = zo_vec(obs['psi']) / np.sqrt(z2(obs['n2']))
        if core.gt(np.abs(q - want).max(), TOL):
            ctx.violation('C11:MeasureGate:final-state', 'state after a circuit with measure gates differs from the projected state', data)
        for (gate, g), lg in zip(mg, obs['log']):
            k = len(g['tg'])
            bits = [int(b) for b in bin(g['out'])[2:].rjust(k, '0')]
            wp = np.array([z2(c) for c in lg['marg']]) / z2(lg['n2'])
            if list(gate.bitstr) != bits:
                ctx.violation('C11:MeasureGate:bitstr', 'recorded bit string is not the outcome taken at that point', dict(data, gate=[q - 1 for q in g['tg']]))
            if np.asarray(gate.probability).shape != wp.shape or core.gt(np.abs(gate.probability - wp).max(), TOL):
                ctx.violation('C11:MeasureGate:probability', 'recorded probabilities are not the Born marginals of the state at that point of the circuit', dict(data, gate=[q - 1 for q in g['tg']]))
        # with a real seed the outcome must lie in the support and the record must be self-consistent
        circ2 = numqi.sim.Circuit()
        first = None
        for g in gates:
            if g['op'] == 'measure':
                m = circ2.measure(tuple(q - 1 for q in g['tg']), seed=ctx.seed + 11)
                first = first or (m, g)
                break
            add_gate(circ2, g)
        if first is not None and circ2.num_qubit == n:
            circ2.apply_state(numqi.sim.new_base(n))
            m, g = first
            lg = obs['log'][0]
            o = int(''.join(str(b) for b in m.bitstr), 2)
            if z2(lg['marg'][o]) == 0:
                ctx.violation('C11:MeasureGate:support', 'seeded measure gate returned an outcome of probability zero', data)
    except Exception as ex:
        ctx.violation('C11:MeasureGate:exception', type(ex).__name__ + ': ' + str(ex)[:160], data)
    ctx.case(('mprog', tuple(word)))


def run(ctx):
    quick = ctx.tier == 'quick'
    rng = random.Random(ctx.seed)
    ctx.rule = ('every n<=%d, every non-empty ascending qubit subset, 10 structured state families (basis, products, GHZ, W, graph states, zero-probability outcomes, '
                'Clifford+T); every outcome in the support (by seed, else forced); mid-circuit: TLC-simulated circuits with measure gates on <=4 qubits with outcomes '
                'drawn from the support; distinct by (n,family,subset) / program' % (5 if quick else 6))
    ctx.assumptions = ['TLC/SANY correct', 'tolerance 1e-9', 'outcomes are forced through a numpy Generator subclass whose choice() returns the wanted index (the RNG draw itself is covered by C10)']
    ctx.tolerances = {'complex128': TOL}
    r = tlc.run('qsim/MC_Measure.tla', 'qsim/MC_Measure_%s.cfg' % ('q' if quick else 't'), dump=True, timeout=3000)
    ctx.add_model('MC_Measure(n<=%d)' % (5 if quick else 6), r)
    states = list(tlc.parse_dump(r))
    ctx.traces += check_family(ctx, states, rng)
    st = states[len(states) // 2]
    ctx.sample(dict(kind='measurement-config', n=st['cfg']['n'], family=st['cfg']['fam'], mask=st['cfg']['mask'], marginals_times_norm=[z2(c) for c in st['obs']['marg']]))
    for cfg, num in [('3', 60 if quick else 500), ('4', 40 if quick else 300)]:
        r = tlc.run('qsim/Sim_Measure.tla', 'qsim/Sim_Measure_%s.cfg' % cfg, simulate=dict(num=num, file=True), depth=11, seed=ctx.seed + 3, workers=8, timeout=3000)
        ctx.add_model('Sim_Measure(QN=%s)' % cfg, r, exhaustive=False)
        nm = 0
        for f in r.sim_files:
            beh = tlc.parse_behaviour(f)
            replay_program(ctx, beh)
            nm += sum(1 for g in beh[-1][1]['gates'] if g['op'] == 'measure')
            ctx.traces += 1
        ctx.extra['measure_gates_replayed_QN' + cfg] = nm
        if r.sim_files:
            b = tlc.parse_behaviour(r.sim_files[0])[-1][1]
            ctx.sample(dict(kind='mid-circuit-program', program=[gate_str(g) if g['op'] != 'measure' else 'measure(%s)->%d' % ([q - 1 for q in g['tg']], g['out']) for g in b['gates']]))


def replay(ctx, rec):
    print('replay', rec['key'], rec['what'], rec['data'])
    return 0
