"""C06 - boundaries are exact thresholds and the detection hierarchy is nested.
specs: specs/contract/{Hierarchy,Trace_Hierarchy,MC_Boundary}.tla"""
import math, random
import numpy as np
from .. import tlc, core

DELTA = 1e-5


def rf(r):
    return r[0] / r[1]


def build(cfg):
    import numqi
    fam = cfg['fam']
    if fam == 'Werner':
        return numqi.state.Werner(cfg['d'], rf(cfg['a'])).astype(complex), (cfg['d'], cfg['d'])
    if fam == 'Isotropic':
        return numqi.state.Isotropic(cfg['d'], rf(cfg['a'])).astype(complex), (cfg['d'], cfg['d'])
    if fam == 'EmbBell':
        dA, dB = cfg['d'] // 10, cfg['d'] % 10
        psi = np.zeros(dA * dB, dtype=complex)
        psi[0] = psi[dB + 1] = 1 / math.sqrt(2)
        p = rf(cfg['a'])
        return (1 - p) * np.eye(dA * dB) / (dA * dB) + p * np.outer(psi, psi.conj()), (dA, dB)
    w = cfg['w']
    N = sum(w)
    if fam == 'Bell':
        n = w
        m = np.array([[n[0] + n[1], 0, 0, n[0] - n[1]], [0, n[2] + n[3], n[2] - n[3], 0], [0, n[2] - n[3], n[2] + n[3], 0], [n[0] - n[1], 0, 0, n[0] + n[1]]], dtype=complex) / (2 * N)
        return m, (2, 2)
    dims = {4: (2, 2), 6: (2, 3), 8: (2, 4), 9: (3, 3)}[len(w)]
    return np.diag(np.array(w, dtype=float) / N).astype(complex), dims


def run_exact(ctx, states):
    import numqi
    E = numqi.entangle
    psd = numqi.utils.is_positive_semi_definite
    rhos = []
    for st in states:
        cfg, obs = st['cfg'], st['obs']
        rho, dims = build(cfg)
        rhos.append((rho, dims, obs))
        bdm, bppt = math.sqrt(rf(obs['dm2'])), math.sqrt(rf(obs['pt2']))
        data = dict(family=cfg['fam'], d=cfg['d'], alpha=cfg['a'], weights=cfg['w'], beta_dm=bdm, beta_ppt=bppt)
        ctx.case(('ray', cfg['fam'], cfg['d'], tuple(cfg['a']), tuple(cfg['w'])))

        def bad(fn, clause, extra=None):
            ctx.violation('C06:%s:%s' % (fn, clause), '%s: %s (%s d=%s a=%s w=%s)' % (fn, clause, cfg['fam'], cfg['d'], cfg['a'], cfg['w']), dict(data, **(extra or {})))
        try:
            bl, bu = E.get_density_matrix_boundary(rho)
            ctx.evaluations += 1
            if core.gt(abs(bu - bdm), 1e-9 * max(1, bdm)): bad('get_density_matrix_boundary', 'upper boundary differs from the exact threshold', dict(got=float(bu)))
            pl, pu = E.get_ppt_boundary(rho, dims)
            if core.gt(abs(pu - bppt), 1e-9 * max(1, bppt)): bad('get_ppt_boundary', 'upper boundary differs from the exact threshold', dict(got=float(pu)))
            # threshold semantics with the library's own tests: just inside passes, just outside fails
            rin, rout = E.hf_interpolate_dm(rho, beta=bu * (1 - DELTA)), E.hf_interpolate_dm(rho, beta=bu * (1 + DELTA))
            if not psd(rin): bad('get_density_matrix_boundary', 'state just inside the reported boundary is not positive')
            if psd(rout): bad('get_density_matrix_boundary', 'state just outside the reported boundary is still positive')
            pin, pout = E.hf_interpolate_dm(rho, beta=pu * (1 - DELTA)), E.hf_interpolate_dm(rho, beta=pu * (1 + DELTA))
            if not E.is_ppt(pin, dims): bad('get_ppt_boundary', 'state just inside the reported PPT boundary fails is_ppt')
            if E.is_ppt(pout, dims) and psd(pout): bad('get_ppt_boundary', 'state just outside the reported PPT boundary is still a PPT state')
            # interpolation places the state at the requested Gell-Mann distance
            for b in (0.05, bu / 2, bu):
                if core.gt(abs(numqi.gellmann.dm_to_gellmann_norm(E.hf_interpolate_dm(rho, beta=b)) - b), 1e-9): bad('hf_interpolate_dm', 'state is not at the requested Gell-Mann distance', dict(beta=b))
            # the boundary of the generalized (realignment-type) PPT criterion is the threshold of is_generalized_ppt along the ray
            # (root finding with xtol = 1e-5: probes at a relative distance 1e-3)
            gu = float(E.get_generalized_ppt_boundary(rho, dims))
            if not (0 < gu <= bu + 1e-9): bad('get_generalized_ppt_boundary', 'boundary outside (0, beta_DM]', dict(got=gu))
            elif not E.is_generalized_ppt(E.hf_interpolate_dm(rho, beta=gu * (1 - 1e-3)), dims): bad('get_generalized_ppt_boundary', 'state just inside the reported boundary fails is_generalized_ppt', dict(got=gu))
            elif gu < bu * (1 - 2e-3) and E.is_generalized_ppt(E.hf_interpolate_dm(rho, beta=gu * (1 + 1e-3)), dims): bad('get_generalized_ppt_boundary', 'state just outside the reported boundary still passes is_generalized_ppt', dict(got=gu))
            # without the within_dm clamp the PPT boundary is the threshold of the partial transpose alone - it may lie beyond the state space
            bpt_only = math.sqrt(rf(obs['ptonly2']))
            for kw in (dict(within_dm=False), dict(within_dm=False, dm_norm=numqi.gellmann.dm_to_gellmann_norm(rho))):
                ql, qu = E.get_ppt_boundary(rho, dims, **kw)
                if core.gt(abs(qu - bpt_only), 1e-9 * max(1, bpt_only)):
                    bad('get_ppt_boundary', 'upper boundary with within_dm=False differs from the exact threshold of the partial transpose alone', dict(got=float(qu), expected=bpt_only, kwargs=sorted(kw)))
            if pu > bu + 1e-12: bad('get_ppt_boundary', 'PPT boundary exceeds the state-space boundary (within_dm=True)')
        except Exception as ex:
            ctx.violation('C06:exception:exact-ray', type(ex).__name__ + ': ' + str(ex)[:160], data)
    # batched inputs must agree with single inputs
    try:
        for dims in {d for _, d, _ in rhos}:
            grp = [(r, o) for r, d, o in rhos if d == dims]
            arr = np.stack([r for r, _ in grp])
            bl, bu = E.get_density_matrix_boundary(arr)
            pl, pu = E.get_ppt_boundary(arr, dims)
            want_u = np.array([math.sqrt(rf(o['dm2'])) for _, o in grp])
            want_p = np.array([math.sqrt(rf(o['pt2'])) for _, o in grp])
            if bu.shape != want_u.shape or core.gt(np.abs(bu - want_u).max(), 1e-8): ctx.violation('C06:get_density_matrix_boundary:batched', 'batched call disagrees with the exact thresholds', dict(dims=dims))
            if pu.shape != want_p.shape or core.gt(np.abs(pu - want_p).max(), 1e-8): ctx.violation('C06:get_ppt_boundary:batched', 'batched call disagrees with the exact thresholds', dict(dims=dims))
            arr2 = arr.reshape((1, len(grp)) + arr.shape[1:])
            bl2, bu2 = E.get_density_matrix_boundary(arr2)
            if bu2.shape != (1, len(grp)) or core.gt(np.abs(bu2[0] - want_u).max(), 1e-8): ctx.violation('C06:get_density_matrix_boundary:batched', 'batch shape (1,k)', dict(dims=dims))
    except Exception as ex:
        ctx.violation('C06:exception:batched', type(ex).__name__ + ': ' + str(ex)[:160], None)


def units(b):
    return int(round(float(b) * 1e7))


def run_nesting(ctx, rng, quick):
    """boundary lengths of every method along random rays, validated by TLC against the partial order"""
    import numqi
    E = numqi.entangle
    traces, meta = [], []
    dims_list = [(2, 2), (2, 3)] if quick else [(2, 2), (2, 3), (3, 3), (2, 4)]
    nray = 4 if quick else 8
    for dims in dims_list:
        for t in range(nray):
            rho = numqi.random.rand_density_matrix(dims[0] * dims[1], seed=rng.randrange(10**6))
            ev = []
            try:
                N = dims[0] * dims[1]
                gm_ops = numqi.gellmann.all_gellmann_matrix(N, with_I=False)
                bv = numqi.gellmann.dm_to_gellmann_basis(rho)
                bloch_dir = bv / np.linalg.norm(bv)
                ev.append(dict(op='beta', slack=0, cls='DM', k=0, value=units(E.get_density_matrix_boundary(rho)[1])))
                ev.append(dict(op='beta', slack=0, cls='PPT', k=0, value=units(E.get_ppt_boundary(rho, dims)[1])))
                ev.append(dict(op='beta', slack=0, cls='PPT', k=0, value=units(float(E.get_ppt_numerical_range(gm_ops, bloch_dir, dims, use_tqdm=False)) / 2)))
                kmax = 3 if (quick or dims[0] * dims[1] > 6) else 4
                for k in range(1, kmax + 1):
                    if dims[0] * dims[1] ** k > (60 if quick else 130):
                        continue
                    for cls, kw in (('EXT', {}), ('BOS', dict(use_boson=True)), ('BOSP', dict(use_boson=True, use_ppt=True))) + ((('EXTP', dict(use_ppt=True)),) if not quick else ()):
                        if cls in ('BOSP', 'EXTP') and k == 1:
                            continue
                        b = E.get_ABk_symmetric_extension_boundary(rho, dims, k, **kw)
                        ev.append(dict(op='beta', slack=0, cls=cls, k=k, value=units(b)))
                        if k >= 2 and t % 2 == 0:
                            # the same boundary through the operator-space routine: with the full (traceless) Gell-Mann basis as operators
                            # and the unit Bloch direction, Tr(rho G_i) = 2 a_i, hence beta_range = 2 beta (same class => equal within Tol)
                            b2 = E.get_ABk_extension_numerical_range(gm_ops, bloch_dir, dims, k, use_tqdm=False, **kw)
                            ev.append(dict(op='beta', slack=0, cls=cls, k=k, value=units(float(b2) / 2)))
                if t < (1 if quick else 3) and dims[0] * dims[1] <= 6:
                    # convex hull of product states by gradient descent (AutodiffCHAREE): bisection with xtol = 1e-3 on REE < 1e-7, i.e. it
                    # may report a point up to ~1e-3 + sqrt(1e-7) outside its hull: slack 15e-4
                    b = E.AutodiffCHAREE(dims).get_boundary(rho, xtol=1e-3, use_tqdm=False, seed=rng.randrange(10**6))
                    ev.append(dict(op='beta', slack=15000, cls='CHA', k=0, value=units(b)))
                if not quick and dims == (2, 2):
                    # the convex-hull heuristic drives an LP solver that fails on some rays in this environment (cvxpy falls back to
                    # CLARABEL where the library expects ECOS; the repository's own CHA test fails the same way): a failure yields no
                    # boundary and is recorded as inconclusive - the property speaks about the values that are returned
                    try:
                        model = E.CHABoundaryBagging(dims)
                        b = model.solve(rho, use_tqdm=False, seed=rng.randrange(10**6))
                        ev.append(dict(op='beta', slack=0, cls='CHA', k=0, value=units(b)))
                    except Exception as ex:
                        ctx.extra['cha_inconclusive'] = ctx.extra.get('cha_inconclusive', 0) + 1
                        ctx.extra['cha_inconclusive_reason'] = type(ex).__name__ + ': ' + str(ex)[:100]
            except Exception as ex:
                ctx.violation('C06:exception:boundary-method', type(ex).__name__ + ': ' + str(ex)[:160], dict(dims=dims))
                continue
            traces.append(ev)
            meta.append(dict(kind='ray', dims=dims, betas={'%s(%d)' % (e['cls'], e['k']): e['value'] / 1e7 for e in ev}))
            ctx.case(('nest', dims, t))
    return traces, meta


def run_inner(ctx, rng, quick):
    """objects produced by the inner models at ARBITRARY parameter points must pass every outer test"""
    import numqi, torch
    E = numqi.entangle
    traces, meta = [], []
    for dims, k in ([((2, 2), 2), ((2, 2), 3), ((2, 3), 2)] if quick else [((2, 2), 2), ((2, 2), 3), ((2, 2), 4), ((2, 3), 2), ((2, 3), 3), ((3, 3), 2)]):
        for t in range(2 if quick else 5):
            try:
                m = E.PureBosonicExt(dims[0], dims[1], k)
                npar = len(numqi.optimize.get_model_flat_parameter(m))
                numqi.optimize.set_model_flat_parameter(m, np.array([rng.gauss(0, [0.1, 1, 10][t % 3]) for _ in range(npar)]))
                m.set_dm_target(np.eye(dims[0] * dims[1]) / (dims[0] * dims[1]))
                with torch.no_grad():
                    m()
                rho = m.dm_torch.numpy()
                ev = []
                for tk in range(2, k + 1):
                    ev.append(dict(op='inner', cls='PUREB', k=k, tcls='BOS', tk=tk, verdict=bool(E.is_ABk_symmetric_ext(rho, dims, tk, use_boson=True))))
                    ev.append(dict(op='inner', cls='PUREB', k=k, tcls='EXT', tk=tk, verdict=bool(E.is_ABk_symmetric_ext(rho, dims, tk))))
                ev.append(dict(op='inner', cls='PUREB', k=k, tcls='DM', tk=0, verdict=bool(numqi.utils.is_positive_semi_definite(rho, shift=1e-9) and abs(np.trace(rho) - 1) < 1e-9)))
                traces.append(ev)
                meta.append(dict(kind='PureBosonicExt', dims=dims, k=k, scale=[0.1, 1, 10][t % 3]))
                ctx.case(('pureb', dims, k, t))
            except Exception as ex:
                ctx.violation('C06:exception:PureBosonicExt', type(ex).__name__ + ': ' + str(ex)[:160], dict(dims=dims, k=k))
    for dims in ([(2, 2), (2, 3)] if quick else [(2, 2), (2, 3), (3, 3)]):
        for t in range(2 if quick else 5):
            try:
                m = E.AutodiffCHAREE(dims, num_state=3 + t)
                npar = len(numqi.optimize.get_model_flat_parameter(m))
                numqi.optimize.set_model_flat_parameter(m, np.array([rng.gauss(0, [0.1, 1, 10][t % 3]) for _ in range(npar)]))
                m.set_dm_target(np.eye(dims[0] * dims[1]) / (dims[0] * dims[1]))
                with torch.no_grad():
                    m()
                rho = m.dm_torch.numpy()
                ev = [dict(op='inner', cls='CHA', k=0, tcls='PPT', tk=0, verdict=bool(E.is_ppt(rho, dims))),
                      dict(op='inner', cls='CHA', k=0, tcls='BOS', tk=2, verdict=bool(E.is_ABk_symmetric_ext(rho, dims, 2, use_boson=True))),
                      dict(op='inner', cls='CHA', k=0, tcls='DM', tk=0, verdict=bool(numqi.utils.is_positive_semi_definite(rho, shift=1e-9) and abs(np.trace(rho) - 1) < 1e-9))]
                if dims == (2, 2):
                    ev.append(dict(op='inner', cls='CHA', k=0, tcls='BOSP', tk=3, verdict=bool(E.is_ABk_symmetric_ext(rho, dims, 3, use_boson=True, use_ppt=True))))
                traces.append(ev)
                meta.append(dict(kind='AutodiffCHAREE', dims=dims, num_state=3 + t))
                ctx.case(('cha', dims, t))
            except Exception as ex:
                ctx.violation('C06:exception:AutodiffCHAREE', type(ex).__name__ + ': ' + str(ex)[:160], dict(dims=dims))
    return traces, meta


def run(ctx):
    quick = ctx.tier == 'quick'
    rng = random.Random(ctx.seed)
    ctx.rule = ('exact rays: Werner / isotropic / Bell-diagonal / diagonal states with rational spectra in dims (2,2),(2,3),(3,3),(2,4): boundaries, probes on both sides (delta 1e-5), interpolation, batched inputs; '
                'nesting: every boundary method along random rays validated against the partial order of the hierarchy; inner models (pure bosonic extension, convex hull of product states) at arbitrary '
                'parameter points handed to every outer test; distinct by ray / model instance')
    ctx.assumptions = ['TLC/SANY correct', 'SDP optima are trusted to the solver tolerance: order constraints are checked with slack 2e-5 in the stated direction only']
    ctx.not_covered = ['exactness of SDP optima themselves', 'CHABoundaryBagging only in the thorough tier']
    r = tlc.run('contract/MC_Boundary.tla', dump=True, timeout=600)
    ctx.add_model('MC_Boundary', r)
    states = list(tlc.parse_dump(r))
    run_exact(ctx, states)
    ctx.traces += len(states)
    t1, m1 = run_nesting(ctx, rng, quick)
    t2, m2 = run_inner(ctx, rng, quick)
    traces, meta = t1 + t2, m1 + m2
    acc, rej, results = tlc.validate_events('contract/Trace_Hierarchy.tla', 'contract/Trace_Hierarchy.cfg', traces, shards=4)
    for r in results:
        ctx.states += r.distinct
        ctx.transitions += r.generated
    ctx.models.append(dict(model='Trace_Hierarchy', traces=len(traces), accepted=acc, rejected=len(rej), exhaustive=False))
    ctx.traces += len(traces)
    for gi, info in rej:
        m = meta[gi]
        if m['kind'] == 'ray':
            ctx.violation('C06:hierarchy:boundary-order', 'boundary lengths violate the nesting of the hierarchy along a ray: %s' % m['betas'], m)
        else:
            ctx.violation('C06:hierarchy:inner-model:%s' % m['kind'], 'an object produced by the inner model is rejected by an outer test it must satisfy', dict(m, events=traces[gi]))
    ctx.sample(dict(m1[0]))
    ctx.sample(dict(kind='inner-model', meta=m2[0], events=t2[0][:3]))
    st = states[3]
    ctx.sample(dict(kind='exact-ray', cfg=st['cfg'], beta_dm_squared=st['obs']['dm2'], beta_ppt_squared=st['obs']['pt2']))


def replay(ctx, rec):
    print('replay', rec['key'], rec['what'], rec['data'])
    return 0
