"""C05 - entanglement criteria never flag a separable state.
specs: specs/contract/{SepCalculus,Sim_Sep,Trace_Sep}.tla"""
import random
from fractions import Fraction
import numpy as np
from .. import tlc, core

ZERO_TOL = 1e-6
SDP_TOL = 1e-4       # SDP-based measures: the library's own accuracy statement without MOSEK (tests/test_entangle/test_entangle_symext.py asserts 1e-4)


def _is_guard(ex):
    try:
        return float(str(ex)) <= -1e-4
    except ValueError:
        return False


def gv(v):
    return np.array([complex(z[0], z[1]) for z in v])


def build_rho(dims, terms):
    D = int(np.prod(dims))
    rho = np.zeros((D, D), dtype=complex)
    for t in terms:
        v = np.array([1.0 + 0j])
        for p in t['vecs']:
            v = np.kron(v, gv(p))
        rho += t['w'] * np.outer(v, v.conj())
    return rho / np.trace(rho).real


def evaluate(ctx, rho, dims, sdp, label, heavy_only_small=False):
    """call every criterion the library offers; one event per call logged at its return"""
    import numqi
    E = numqi.entangle
    ev = []

    import time
    rt = ctx.extra.setdefault('route_seconds', {})

    def timed(name, f):
        t0 = time.time()
        try:
            return f()
        finally:
            rt[name] = round(rt.get(name, 0.0) + time.time() - t0, 1)

    def verdict(crit, f):
        try:
            ev.append(dict(op='verdict', crit=crit, value=bool(timed(crit, f))))
        except Exception as ex:
            ev.append(dict(op='exception', crit=crit, error=type(ex).__name__ + ': ' + str(ex)[:120]))

    def measure(name, f, tol=ZERO_TOL):
        try:
            try:
                v = float(np.real(timed(name, f)))
            except AssertionError as ex:
                # the SDP relative-entropy routines end with their own accuracy guard `assert ree > -1e-4, str(ree)`: when the conic solver
                # returns an inaccurate point (ill-conditioned states) the routine REFUSES to answer.  A refusal is not a verdict of
                # 'entangled' and not a value: it is counted as inconclusive (evidence: sdp_guard_aborts), never as a pass.
                if tol == SDP_TOL and _is_guard(ex):
                    ctx.extra['sdp_guard_aborts'] = ctx.extra.get('sdp_guard_aborts', 0) + 1
                    return
                raise
            ev.append(dict(op='measure', name=name, finite=bool(np.isfinite(v)), zero=bool(np.isfinite(v) and abs(v) <= tol), raw=repr(v)))
        except Exception as ex:
            ev.append(dict(op='exception', crit=name, error=type(ex).__name__ + ': ' + str(ex)[:120]))
    verdict('is_ppt', lambda: E.is_ppt(rho, dims))
    verdict('is_generalized_ppt', lambda: E.is_generalized_ppt(rho, dims))
    verdict('check_reduction_witness', lambda: E.check_reduction_witness(rho, dims))
    if len(dims) == 2 and dims[0] == dims[1]:
        verdict('check_swap_witness', lambda: E.check_swap_witness(rho))
    if len(dims) == 2:
        measure('get_negativity', lambda: E.get_negativity(rho, dims))
    if tuple(dims) == (2, 2):
        measure('get_concurrence_2qubit', lambda: E.get_concurrence_2qubit(rho))
        measure('get_eof_2qubit', lambda: E.get_eof_2qubit(rho))
        measure('get_gme_2qubit', lambda: E.get_gme_2qubit(rho))
    if sdp and len(dims) == 2 and dims[0] * dims[1] <= 9:
        verdict('is_ABk_symmetric_ext(k=2)', lambda: E.is_ABk_symmetric_ext(rho, dims, kext=2))
        verdict('is_ABk_symmetric_ext(k=1,ppt)', lambda: E.is_ABk_symmetric_ext(rho, dims, kext=1, use_ppt=True))
        if sdp > 1 or dims[0] * dims[1] <= 6 or not heavy_only_small:       # minutes on rank-deficient 3x3 / 2x4 objects: thorough tier only
            verdict('is_ABk_symmetric_ext(k=3,boson)', lambda: E.is_ABk_symmetric_ext(rho, dims, kext=3, use_boson=True))
            verdict('is_ABk_symmetric_ext(k=2,ppt)', lambda: E.is_ABk_symmetric_ext(rho, dims, kext=2, use_ppt=True))
        # further routes to the same sets: the naive (unsymmetrised) extension SDP, and the SDP-based measures that vanish on the
        # PPT / extendible sets, hence on every separable state
        verdict('is_ABk_symmetric_ext_naive(k=2)', lambda: E.is_ABk_symmetric_ext_naive(rho, dims, 2)[0])
        measure('get_ppt_ree', lambda: E.get_ppt_ree(rho, dims[0], dims[1], use_tqdm=False), SDP_TOL)
        measure('get_linear_entropy_entanglement_ppt', lambda: E.get_linear_entropy_entanglement_ppt(rho, dims), SDP_TOL)
        measure('get_ABk_symmetric_extension_ree(k=2)', lambda: E.get_ABk_symmetric_extension_ree(rho, dims, 2), SDP_TOL)
        measure('get_ABk_symmetric_extension_ree(k=1,ppt)', lambda: E.get_ABk_symmetric_extension_ree(rho, dims, 1, use_ppt=True), SDP_TOL)
        if sdp > 1:
            verdict('is_ABk_symmetric_ext(k=3,boson,ppt)', lambda: E.is_ABk_symmetric_ext(rho, dims, kext=3, use_boson=True, use_ppt=True))
            verdict('is_ABk_symmetric_ext(k=4,boson)', lambda: E.is_ABk_symmetric_ext(rho, dims, kext=4, use_boson=True))
    return ev


def run(ctx):
    import numqi
    quick = ctx.tier == 'quick'
    rng = random.Random(ctx.seed)
    ctx.rule = ('TLC-simulated construction histories of separable states (Gaussian-integer product vectors with components in -2..2, 1..9 terms, dims (2,2),(2,3),(3,2),(3,3),(2,4),(2,2,2),(2,3,2); '
                'computational-basis, repeated, nearly parallel and pure product terms; local unitaries and party permutations) evaluated by every criterion; Werner / isotropic families on rational grids '
                'for both polarities; the symmetric-extension SDPs on a subset; distinct by construction history')
    ctx.assumptions = ['TLC/SANY correct', 'closed-form measures are called zero when |v| <= 1e-6 and finite', 'SDP-based tests inherit the solver tolerance of the library', 'an SDP relative-entropy routine that aborts with its own accuracy guard (AssertionError carrying the negative value) has not answered: inconclusive, counted in sdp_guard_aborts']
    ctx.not_covered = ['Haar-random irrational product vectors (same code path)', 'Horodecki families (covered as exact objects by C18)']
    ctx.tolerances = {'zero': ZERO_TOL, 'zero_sdp_measures': SDP_TOL}
    traces = []
    meta = []
    r = tlc.run('contract/Sim_Sep.tla', 'contract/Sim_Sep.cfg', simulate=dict(num=40 if quick else 400, file=True), depth=10, seed=ctx.seed + 7, workers=8, timeout=3000)
    ctx.add_model('Sim_Sep', r, exhaustive=False)
    # the SDP subset: bipartite objects of dimension <= 9, chosen so that every shape of local dimensions is represented (square AND
    # rectangular: the index bookkeeping of the extension SDPs differs between dimA and dimB)
    cand = []
    for fi, f in enumerate(r.sim_files):
        beh = tlc.parse_behaviour(f)
        for idx in sorted({len(beh) - 1, max(1, len(beh) // 2)}):
            obj = beh[idx][1]['obj']
            if obj['prov'] == 'SEP':
                cand.append((fi, idx, obj, beh[idx][1]['hist']))
    per_shape = 1 if quick else 6
    chosen, count = set(), {}
    for fi, idx, obj, hist in cand:
        dims = tuple(obj['dims'])
        if len(dims) == 2 and dims[0] * dims[1] <= 9 and count.get(dims, 0) < per_shape:
            count[dims] = count.get(dims, 0) + 1
            chosen.add((fi, idx))
    nsdp = len(chosen)
    for fi, idx, obj, hist in cand:
        dims = list(obj['dims'])
        rho = build_rho(dims, obj['terms'])
        sdp = 0
        if (fi, idx) in chosen:
            sdp = 1 if (quick or dims[0] * dims[1] > 6) else 2      # k=3,4 extensions only on 2x2 and 2x3 (minutes per object on 3x3)
        ev = evaluate(ctx, rho, dims, sdp, 'sep', heavy_only_small=quick)
        traces.append([dict(op='object', dims=dims, terms=obj['terms'])] + ev)
        meta.append(dict(kind='separable', dims=dims, history=hist, terms=obj['terms']))
        ctx.case(('sep', tuple(dims), repr(obj['terms'])))
    ctx.extra['sdp_shapes'] = {str(k): v for k, v in count.items()}
    # families with exact rational parameter, both polarities
    for fam in ('Werner', 'Isotropic'):
        for d in (2, 3):
            lo = Fraction(-1) if fam == 'Werner' else Fraction(-1, d * d - 1)
            thr = Fraction(1, d) if fam == 'Werner' else Fraction(1, d + 1)
            for a in sorted({lo, lo / 2, Fraction(0), thr / 2, thr - Fraction(1, 50), thr, thr + Fraction(1, 50), (thr + 1) / 2, Fraction(9, 10)}):
                rho = (numqi.state.Werner if fam == 'Werner' else numqi.state.Isotropic)(d, float(a)).astype(complex)
                ev = evaluate(ctx, rho, [d, d], 0, fam)
                sep = a <= thr
                if not sep:
                    # only criteria with an exact theorem on the family constrain the entangled side
                    ev = [e for e in ev if (e['op'] == 'verdict' and e['crit'] == 'is_ppt') or (e['op'] == 'measure')] + \
                         ([dict(op='verdict', crit='check_swap_witness_werner', value=bool(numqi.entangle.check_swap_witness(rho)))] if fam == 'Werner' else [])
                traces.append([dict(op='family', fam=fam, d=d, num=a.numerator, den=a.denominator)] + ev)
                meta.append(dict(kind=fam, d=d, alpha=str(a)))
                ctx.case((fam, d, str(a)))
    # exceptions are violations on their own (a criterion that raises does not answer 'passes')
    clean = []
    for t, m in zip(traces, meta):
        for e in t:
            if e['op'] == 'exception':
                ctx.violation('C05:%s:exception' % e['crit'].split('(')[0], '%s raised %s on a %s state' % (e['crit'], e['error'], m['kind']), m)
        clean.append([{k: v for k, v in e.items() if k != 'raw'} for e in t if e['op'] != 'exception'])
    acc, rej, results = tlc.validate_events('contract/Trace_Sep.tla', 'contract/Trace_Sep.cfg', clean, shards=8)
    for r in results:
        ctx.states += r.distinct
        ctx.transitions += r.generated
    ctx.models.append(dict(model='Trace_Sep', traces=len(clean), accepted=acc, rejected=len(rej), exhaustive=False))
    ctx.traces += len(clean)
    for gi, info in rej:
        e = clean[gi][info[1] - 1]
        m = meta[gi]
        what = e.get('crit') or e.get('name') or e['op']
        kind = m['kind']
        raw = [x.get('raw') for x in traces[gi] if x.get('name') == e.get('name')] if e['op'] == 'measure' else None
        pure = 'pure-product' if (kind == 'separable' and len(m['terms']) == 1) else ('mixture' if kind == 'separable' else kind)
        ctx.violation('C05:%s:%s' % (what.split('(')[0], pure), '%s gave a result that is not allowed for a %s state (%s%s)' % (what, 'separable' if kind == 'separable' else kind, 'value=%s' % e.get('value') if e['op'] == 'verdict' else 'raw=%s' % raw, ''),
                      dict(m, event=e))
    ctx.extra['sdp_objects'] = nsdp
    ctx.sample(dict(kind='separable-object', dims=meta[0]['dims'], history=meta[0]['history'], first_term=meta[0]['terms'][0], events=clean[0][1:4]))


def replay(ctx, rec):
    print('replay', rec['key'], rec['what'])
    d = rec['data']
    if d.get('kind') == 'separable':
        rho = build_rho(d['dims'], d['terms'])
        print(evaluate(ctx, rho, d['dims'], 0, 'replay'))
    return 0
