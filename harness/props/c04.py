"""C04 - hand-written backward passes return the true gradient.
specs: specs/qsim/{Grad,Sim_Grad}.tla (circuit reverse sweep), specs/qsim/{KL,MC_KL}.tla (Knill-Laflamme inner product)"""
import random, math
import numpy as np
from .. import tlc, core
from ..qsim import *

TOL = 1e-9
NSLOT = {'u3': 3, 'cu3': 3}
PARAM = {'rx', 'ry', 'rz', 'rzz', 'u3', 'crx', 'cry', 'crz', 'cu3', 'foracle'}


def phi_vec(n):
    out = []
    for r in range(1, 2 ** n + 1):
        out.append(complex((r % 3) + 1, (2 * r - 5) if r % 2 == 0 else (3 - r)))
    return np.array(out)


def replay_grad(ctx, gates, obs):
    import numqi, torch
    n = obs['n']
    word = [gate_str(g) + ('#c%d%s' % (g['cell'], 'P' if g['holder'] else '') if g['op'] in PARAM else '') for g in gates]
    data = dict(program=word)
    cells = sorted({g['cell'] for g in gates if g['op'] in PARAM})
    if not cells:
        return
    try:
        circ = numqi.sim.Circuit(default_requires_grad=True)
        objs = {}
        holder_idx = {}     # cell -> (key, j)
        holder_vals = {}    # key -> list of parameter values (rows)
        for g in gates:
            if g['op'] not in PARAM:
                add_gate(circ, g)
                continue
            c = g['cell']
            if g['holder']:
                key = g['op']
                if c not in holder_idx:
                    holder_vals.setdefault(key, [])
                    holder_idx[c] = (key, len(holder_vals[key]))
                    a = angles(g)
                    holder_vals[key].append(list(a) if isinstance(a, tuple) else a)
                key, j = holder_idx[c]
                tg = tuple(q - 1 for q in g['tg'])
                getattr(circ, g['op'])(tg if len(tg) > 1 else tg[0], circ.P[key][j])
            elif c not in objs:
                objs[c] = add_gate(circ, g, requires_grad=True)
            else:
                tg = tuple(q - 1 for q in g['tg'])
                ctrl = {q - 1 for q in setof(g['ctrl'])}
                circ.append_gate(objs[c], () if objs[c].kind == 'custom' else (ctrl, tg) if objs[c].kind == 'control' else tg)
        if circ.num_qubit != n:
            return
        phi = torch.tensor(phi_vec(n), dtype=torch.complex128)

        class Model(torch.nn.Module):
            def __init__(self):
                super().__init__()
                self.circuit_torch = numqi.sim.CircuitTorchWrapper(circ)
                if holder_vals:
                    self.theta = torch.nn.ParameterDict({k: torch.nn.Parameter(torch.tensor(np.array(v, dtype=np.float64))) for k, v in holder_vals.items()})
                self.q0 = torch.zeros(2 ** n, dtype=torch.complex128)
                self.q0[0] = 1

            def forward(self):
                if holder_vals:
                    self.circuit_torch.setP(**{k: v for k, v in self.theta.items()})
                q = self.circuit_torch(self.q0)
                return torch.vdot(phi, q).real
        model = Model()
        loss = model()
        want_loss = zo(obs['loss']['val']).real / SQ2 ** obs['loss']['e']
        if core.gt(abs(loss.item() - want_loss), TOL):
            ctx.violation('C04:CircuitTorchWrapper:forward', 'forward value of the torch wrapper differs from the exact loss', data)
            return
        loss.backward()
        # map cells to gradient entries
        rows = {}
        order = {}
        for gate, _ in circ.gate_index_list:
            if getattr(gate, 'requires_grad', False) and hasattr(gate, 'args') and not isinstance(gate.args, numqi.sim._internal._ParameterHolder):
                lst = order.setdefault(gate.name, [])
                if id(gate) not in lst:
                    lst.append(id(gate))
        for c, obj in objs.items():
            rows[c] = (obj.name, order[obj.name].index(id(obj)))
        got = {}
        for c in cells:
            if c in objs:
                name, row = rows[c]
                gr = model.circuit_torch.theta[name].grad
                got[c] = [float(x) for x in gr[row].reshape(-1)]
            else:
                key, j = holder_idx[c]
                gr = model.theta[key].grad
                got[c] = [float(x) for x in gr[j].reshape(-1)]
        exp = {}
        for c in cells:
            unit = math.pi if any(g['op'] == 'foracle' and g['cell'] == c for g in gates) else 1.0       # Grad.tla states the oracle derivative in units of pi
            exp[c] = [unit * zo(t['val']).real / SQ2 ** t['e'] for t in obs['grad'][c - 1]]
        for c in cells:
            ctx.evaluations += 1
            if len(got[c]) != len(exp[c]) or max(abs(a - b) for a, b in zip(got[c], exp[c])) > TOL:
                g0 = [g for g in gates if g['op'] in PARAM and g['cell'] == c]
                kind = ('placeholder' if g0[0]['holder'] else 'shared' if len(g0) > 1 else 'plain') + ('-controlled' if setof(g0[0]['ctrl']) else '') + ('-custom' if g0[0]['op'] == 'foracle' else '')
                ctx.violation('C04:circuit-backward:%s:%s' % (g0[0]['op'], kind), 'gradient of the circuit reverse sweep differs from the exact forward-mode derivative (cell %d, %s)' % (c, kind),
                              dict(data, cell=c, expected=exp[c], got=got[c]))
        # flat bridge used by the optimizer: gradient in sorted-parameter order
        hf = numqi.optimize.hf_model_wrapper(model)
        theta0 = numqi.optimize.get_model_flat_parameter(model)
        fval, grad = hf(theta0)
        flat = []
        for name, par in sorted([(k, v) for k, v in model.named_parameters()], key=lambda x: x[0]):
            if name.startswith('circuit_torch.theta.'):
                nm = name.split('.')[-1]
                for rid in order[nm]:
                    c = [cc for cc, o in objs.items() if id(o) == rid][0]
                    flat += exp[c]
            else:
                key = name.split('.')[-1]
                for j in range(len(holder_vals[key])):
                    c = [cc for cc, (k2, j2) in holder_idx.items() if k2 == key and j2 == j][0]
                    flat += exp[c]
        if core.gt(abs(fval - want_loss), TOL) or len(grad) != len(flat) or core.gt(np.abs(np.array(grad) - np.array(flat)).max(), TOL):
            ctx.violation('C04:hf_model_wrapper:flat-gradient', 'flat (loss, gradient) handed to the optimizer differs from the exact values in sorted-parameter order', data)
        # gradient with respect to the INPUT state (a differentiable input: a leaf tensor, or the output of another trainable module such as a
        # chained circuit).  The loss is linear in the input state with the coefficients obs.amp, so for a generic complex input psi the
        # forward value is Re sum_j amp[j] psi[j] and psi.grad (dL/dRe + i dL/dIm) is conj(amp)
        amp = np.array([zo(t['val']) / SQ2 ** t['e'] for t in obs['amp']])
        psi = np.array([complex(((j * 5) % 7) - 2.5, ((j * 3) % 5) - 1.5) for j in range(2 ** n)]) / 4
        q_in = torch.tensor(psi, dtype=torch.complex128, requires_grad=True)
        if holder_vals:
            model.circuit_torch.setP(**{k: v for k, v in model.theta.items()})       # a fresh graph for the placeholder parameters
        loss2 = torch.vdot(phi, model.circuit_torch(q_in)).real
        ctx.evaluations += 1
        if core.gt(abs(loss2.item() - float(np.real(np.dot(amp, psi)))), TOL):
            ctx.violation('C04:CircuitTorchWrapper:forward-generic-input', 'forward value on a generic input state differs from the linear form of the specification', data)
        else:
            loss2.backward()
            gq = None if q_in.grad is None else q_in.grad.detach().numpy()
            if gq is None or gq.shape != amp.shape or core.gt(np.abs(gq - amp.conj()).max(), TOL):
                lead = 0
                for g in gates:
                    if g['op'] in PARAM:
                        break
                    lead += 1
                ctx.violation('C04:circuit-backward:input-state:%s' % ('fixed-head' if lead else 'trainable-head'),
                              'gradient with respect to the input state differs from the exact coefficients of the loss (%d fixed gates before the first trainable gate)' % lead,
                              dict(data, expected=[[float(z.real), float(-z.imag)] for z in amp], got=None if gq is None else [[float(z.real), float(z.imag)] for z in gq]))
    except Exception as ex:
        ctx.violation('C04:exception:circuit-gradient', type(ex).__name__ + ': ' + str(ex)[:200], data)
    ctx.case(('gradprog', tuple(word)))


def run_kl(ctx):
    """Knill-Laflamme inner product: forward and hand-written backward on Gaussian-integer code words"""
    import numqi, torch
    from .c19 import _P
    quick = ctx.tier == 'quick'
    r = tlc.run('qsim/MC_KL.tla', 'qsim/MC_KL_%s.cfg' % ('q' if quick else 't'), dump=True, timeout=3000)
    ctx.add_model('MC_KL', r)
    for st in tlc.parse_dump(r):
        cfg, obs = st['cfg'], st['obs']
        n, K = cfg['n'], 2 ** cfg['k']
        q = np.array([[complex(a[0], a[1]) for a in row] for row in obs['q']])
        errs = obs['errs']          # list of letter strings 0..3
        coef = np.array([[[complex(a[0], a[1]) for a in row] for row in m] for m in obs['coef']])
        data = dict(n=n, K=K, errors=errs, seed=cfg['s'])
        ctx.case(('kl', n, K, cfg['s']))
        try:
            ops = [[([qq], _P[c]) for w in err for qq, c in enumerate(w) if c] for err in errs]       # an error = list of words applied in list order
            ip = numqi.qec.knill_laflamme_inner_product(q, ops)
            want = np.array([[[complex(a[0], a[1]) for a in row] for row in m] for m in obs['ip']])
            if core.gt(np.abs(ip - want).max(), TOL):
                ctx.violation('C04:knill_laflamme_inner_product:forward', 'inner products differ from the exact values', data)
                continue
            qt = torch.tensor(q, dtype=torch.complex128, requires_grad=True)
            loss = (numqi.qec.knill_laflamme_inner_product(qt, ops) * torch.tensor(coef)).sum().real
            loss.backward()
            g = qt.grad.detach().numpy()
            wantg = np.array([[complex(a[0], a[1]) for a in row] for row in obs['grad']])
            ctx.evaluations += 1
            if core.gt(np.abs(g - wantg).max(), TOL):
                ctx.violation('C04:knill_laflamme_inner_product:backward', 'hand-written backward differs from the formal derivative of the sesquilinear form', dict(data, expected=obs['grad'], got=[[[z.real, z.imag] for z in row] for row in g]))
            # the loss of the variational code search built on the inner product (L2): exact value and exact gradient
            qt2 = torch.tensor(q, dtype=torch.complex128, requires_grad=True)
            l2 = numqi.qec.knill_laflamme_loss(numqi.qec.knill_laflamme_inner_product(qt2, ops), 'L2')
            wl = obs['lossK2'] / K ** 2
            if core.gt(abs(float(l2.detach()) - wl), 1e-9 * max(1, wl)) or core.gt(abs(float(numqi.qec.knill_laflamme_loss(ip, 'L2')) - wl), 1e-9 * max(1, wl)):
                ctx.violation('C04:knill_laflamme_loss:forward', 'L2 loss differs from the exact value %s/%d' % (obs['lossK2'], K ** 2), data)
            else:
                l2.backward()
                g2 = qt2.grad.detach().numpy()
                wg2 = np.array([[complex(a[0], a[1]) for a in row] for row in obs['gradLK']]) / K
                ctx.evaluations += 1
                if core.gt(np.abs(g2 - wg2).max(), 1e-9 * max(1, np.abs(wg2).max())):
                    ctx.violation('C04:knill_laflamme_loss:backward', 'gradient of the L2 Knill-Laflamme loss differs from the exact derivative of the quartic form', data)
        except Exception as ex:
            ctx.violation('C04:exception:knill_laflamme_inner_product', type(ex).__name__ + ': ' + str(ex)[:200], data)
        ctx.traces += 1


def run_sylvester(ctx):
    """PSD square root (and the repeated root used by the Pade logarithm): forward value and hand-written backward on the rational family"""
    import numqi, torch
    from numqi._torch_op import PSDMatrixSqrtm, _PSDMatrixSqrtmRepeat
    r = tlc.run('qsim/MC_Sylvester.tla', dump=True, timeout=3000, workers=8)
    ctx.add_model('MC_Sylvester', r)
    rm = lambda M: np.array([[e[0] / e[1] for e in row] for row in M], dtype=float)
    for st in tlc.parse_dump(r):
        cfg, obs = st['cfg'], st['obs']
        A, root, X = rm(obs['A']), rm(obs['root']), rm(obs['X'])
        G = np.array(cfg['G'], dtype=float)
        data = dict(n=cfg['n'], spectrum=cfg['t'], repeat=cfg['r'], G=cfg['G'])
        ctx.case(('sqrtm', cfg['n'], repr(cfg['t']), repr(cfg['c1']), repr(cfg['c2']), repr(cfg['G']), cfg['r']))
        try:
            # batch modes: single; the same matrix twice; a batch that also holds a SINGULAR matrix (diag(0,1,..,n-1): an exactly zero
            # eigenvalue, where the backward takes its guard branch) before / after the differentiable one - the gradient of the
            # differentiable element must not depend on what else is in the batch
            D0 = np.diag(np.arange(cfg['n'], dtype=float))
            for batched, stack, pos in ((False, None, 0), (True, [A, A], 1), (True, [D0, A], 1), (True, [A, D0], 0)):
                At = torch.tensor(A if not batched else np.stack(stack), dtype=torch.float64, requires_grad=True)
                out = PSDMatrixSqrtm.apply(At) if cfg['r'] == 1 else _PSDMatrixSqrtmRepeat.apply(At, 2)
                got = out.detach().numpy()
                if core.gt(np.abs((got if not batched else got[pos]) - root).max(), 1e-9):
                    ctx.violation('C04:PSDMatrixSqrtm:forward', 'matrix root differs from the exact root (repeat=%d)' % cfg['r'], data)
                    break
                Gt = torch.tensor(G)
                loss = (out * Gt.T).sum() if not batched else (out[pos] * Gt.T).sum() + 0 * out[1 - pos].sum()
                loss.backward()
                gr = At.grad.numpy() if not batched else At.grad.numpy()[pos]
                ctx.evaluations += 1
                if core.gt(np.abs(gr - X).max(), 1e-8):
                    kind = 'degenerate' if len(set(map(tuple, cfg['t']))) < len(cfg['t']) else 'generic'
                    mode = '' if not batched else (', batched with itself' if stack[0] is stack[1] else ', batched with a singular matrix')
                    ctx.violation('C04:PSDMatrixSqrtm:backward:%s%s' % (kind, ':singular-neighbour' if 'singular' in mode else ''), 'backward of the matrix root (repeat=%d, %s spectrum%s) differs from the solution of the Sylvester equation' % (cfg['r'], kind, mode), dict(data, expected=X.tolist(), got=gr.tolist()))
                    break
            # Pade matrix logarithm at the scalar instances A = c I (all roots equal): log is analytic with d log(A)[H] = H / c there, so the
            # gradient of <G, logm(A)> is exactly G / c (Sylvester.tla, LogScalar); the forward value is log(c) I
            if len(set(map(tuple, cfg['t']))) == 1:
                c = (cfg['t'][0][0] / cfg['t'][0][1]) ** (2 * cfg['r'])
                op = numqi._torch_op.get_PSDMatrixLogm(6, 8)
                At = torch.tensor(A, dtype=torch.float64, requires_grad=True)
                out = op(At)
                if core.gt(np.abs(out.detach().numpy() - math.log(c) * np.eye(cfg['n'])).max(), 1e-8):
                    ctx.violation('C04:PSDMatrixLogm:forward', 'logm(c I) differs from log(c) I', dict(data, c=c))
                (out * torch.tensor(G).T).sum().backward()
                ctx.evaluations += 1
                if core.gt(np.abs(At.grad.numpy() - G / c).max(), 1e-7):
                    ctx.violation('C04:PSDMatrixLogm:backward:scalar', 'backward of the Pade logarithm at A = c I differs from G / c', dict(data, c=c, got=At.grad.numpy().tolist()))
        except Exception as ex:
            ctx.violation('C04:exception:PSDMatrixSqrtm', type(ex).__name__ + ': ' + str(ex)[:160], data)
        ctx.traces += 1


def run(ctx):
    quick = ctx.tier == 'quick'
    ctx.rule = ('TLC-simulated parametrised circuits (<=3 qubits, <=8 gates) with plain, controlled, shared (same gate object re-appended), placeholder and user-registered custom (Grover / fractional Grover oracle of numqi.query, hand-written grad_backward) parameter cells at grid angles; '
                'exact forward-mode gradient per (cell,slot) compared with .grad of CircuitTorchWrapper and with the flat gradient of hf_model_wrapper; Knill-Laflamme inner product on '
                'Gaussian-integer code words (forward and backward); distinct by program / instance')
    ctx.assumptions = ['TLC/SANY correct', 'tolerance 1e-9 (float64)', 'angles on the pi/2 grid (phases pi/4): index, ordering, accumulation and conjugation errors are angle independent']
    ctx.tolerances = {'float64': TOL}
    ctx.not_covered = ['Pade matrix logarithm backward away from scalar matrices (transcendental divided differences - no exact model; covered: A = c I, where the gradient is G / c, and its building block, the repeated PSD square root)', 'PSD square root at singular matrices (not differentiable there)',
                       'losses of the variational models other than the Knill-Laflamme L2 loss (exact quartic form in MC_KL)', 'an error in a trigonometric derivative formula that vanishes on the angle grid']
    for cfg, num in [('3', 50 if quick else 500), ('2', 30 if quick else 300)]:
        r = tlc.run('qsim/Sim_Grad.tla', 'qsim/Sim_Grad_%s.cfg' % cfg, simulate=dict(num=num, file=True), depth=9, seed=ctx.seed + 5, workers=8, timeout=3000)
        ctx.add_model('Sim_Grad(QN=%s)' % cfg, r, exhaustive=False)
        kinds = {}
        for f in r.sim_files:
            beh = tlc.parse_behaviour(f)
            final = beh[-1][1]
            replay_grad(ctx, final['gates'], final['obs'])
            ctx.traces += 1
            for g in final['gates']:
                if g['op'] in PARAM:
                    same = [h for h in final['gates'] if h['op'] in PARAM and h['cell'] == g['cell']]
                    k = ('placeholder' if g['holder'] else 'shared' if len(same) > 1 else 'plain') + ('-controlled' if setof(g['ctrl']) else '') + ('-custom' if g['op'] == 'foracle' else '')
                    kinds[k] = kinds.get(k, 0) + 1
        for k, v in kinds.items():
            ctx.extra.setdefault('parameter_kinds_exercised', {})[k] = ctx.extra.get('parameter_kinds_exercised', {}).get(k, 0) + v
        if r.sim_files:
            fin = tlc.parse_behaviour(r.sim_files[0])[-1][1]
            ctx.sample(dict(kind='gradient-program', program=[gate_str(g) + ('#c%d%s' % (g['cell'], 'P' if g['holder'] else '') if g['op'] in PARAM else '') for g in fin['gates']],
                            exact_gradient=[[zo(t['val']).real / SQ2 ** t['e'] for t in c] for c in fin['obs']['grad']]))
    need = {'plain', 'shared', 'placeholder', 'plain-controlled', 'plain-custom'}
    missing = need - set(ctx.extra.get('parameter_kinds_exercised', {}))
    if missing:
        raise core.MachineryError('vacuous gradient run: parameter kinds never generated: %s' % sorted(missing))
    run_kl(ctx)
    run_sylvester(ctx)


def replay(ctx, rec):
    print('replay', rec['key'], rec['what'], rec['data'])
    return 0
