"""C16 - Gell-Mann coordinates are an orthogonal-basis isomorphism.
specs: specs/tensor/{GellMann,MC_GellMann}.tla"""
import random
import numpy as np
from .. import tlc, core

TOL = 1e-9
TOL32 = 2e-5


def gm(m):
    return np.array([[complex(e[0], e[1]) for e in row] for row in m])


def run_dim(ctx, d, basis, rng):
    import numqi, torch
    GM = numqi.gellmann
    G = np.stack([np.sqrt(b['c2'][0] / b['c2'][1]) * gm(b['m']) for b in basis])     # the documented basis, from the spec
    data = dict(d=d)

    def bad(fn, clause, extra=None):
        ctx.violation('C16:%s:%s' % (fn, clause), '%s: %s (d=%d)' % (fn, clause, d), dict(data, **(extra or {})))

    def analysis(A):
        return np.einsum('kij,...ji->...k', G, A) / 2      # a_k = Tr(G_k A)/2 - the definition
    ctx.case(('gm', d))
    try:
        got = GM.all_gellmann_matrix(d)
        if got.shape != G.shape or core.gt(np.abs(got - G).max(), 1e-12):
            k = int(np.argmax(np.abs(got - G).reshape(len(G), -1).max(axis=1))) if got.shape == G.shape else -1
            bad('all_gellmann_matrix', 'matrices / order differ from the documented basis', dict(index=k))
            return
        if core.gt(np.abs(GM.all_gellmann_matrix(d, with_I=False) - G[:-1]).max(), 1e-12):
            bad('all_gellmann_matrix', 'with_I=False')
        # single-matrix constructor, documented (i,j) addressing
        pairs = [(i, j) for i in range(d) for j in range(i + 1, d)]
        ref = [GM.gellmann_matrix(i, j, d) for i, j in pairs] + [GM.gellmann_matrix(j, i, d) for i, j in pairs] + [GM.gellmann_matrix(i, i, d) for i in range(1, d)] + [GM.gellmann_matrix(0, 0, d)]
        if core.gt(np.abs(np.stack(ref) - G).max(), 1e-12):
            bad('gellmann_matrix', 'single constructor differs')
        if d <= 3:
            g2 = GM.all_gellmann_matrix(d, tensor_n=2)
            want = np.stack([np.kron(G[a], G[b]) for a in range(d * d) for b in range(d * d)])
            if g2.shape != want.shape or core.gt(np.abs(g2 - want).max(), 1e-12):
                bad('all_gellmann_matrix', 'tensor_n=2 ordering / Kronecker products')
        # analysis on every matrix unit and synthesis on every unit vector
        units = np.zeros((d * d, d, d), dtype=complex)
        for p in range(d):
            for q in range(d):
                units[p * d + q, p, q] = 1
        for backend in ('numpy', 'torch'):
            conv = (lambda x: x) if backend == 'numpy' else (lambda x: torch.tensor(x))
            back = (lambda x: x) if backend == 'numpy' else (lambda x: x.numpy())
            for shape in [(d * d,), (d, d), None]:
                A = units if shape is not None else units[1 % (d * d)]
                Ain = A.reshape(shape + (d, d)) if shape is not None else A
                got = back(GM.matrix_to_gellmann_basis(conv(Ain.copy())))
                want = analysis(Ain)
                ctx.case(('gm', d, backend, shape))
                if got.shape != want.shape or core.gt(np.abs(got - want).max(), TOL):
                    bad('matrix_to_gellmann_basis', '%s batch shape %s: coefficients of matrix units' % (backend, shape))
                    break
                V = np.eye(d * d)
                Vin = V.reshape(shape + (d * d,)) if shape is not None else V[2 % (d * d)]
                gotm = back(GM.gellmann_basis_to_matrix(conv(Vin.astype(np.complex128).copy())))
                wantm = np.einsum('...k,kij->...ij', Vin, G)
                if gotm.shape != wantm.shape or core.gt(np.abs(gotm - wantm).max(), TOL):
                    bad('gellmann_basis_to_matrix', '%s batch shape %s: unit vectors do not give the basis matrices' % (backend, shape))
                    break
            # integer matrices with complex entries, batch (3,2): round trips both ways
            A = np.array([[[[complex(rng.randint(-5, 5), rng.randint(-5, 5)) for _ in range(d)] for _ in range(d)] for _ in range(2)] for _ in range(3)])
            v = back(GM.matrix_to_gellmann_basis(conv(A.copy())))
            if core.gt(np.abs(v - analysis(A)).max(), TOL):
                bad('matrix_to_gellmann_basis', '%s: integer matrices' % backend)
            if core.gt(np.abs(back(GM.gellmann_basis_to_matrix(conv(v.copy()))) - A).max(), TOL):
                bad('gellmann_basis_to_matrix', '%s: vector -> matrix does not reconstruct the matrix' % backend)
            w = np.array([[complex(rng.randint(-5, 5), rng.randint(-5, 5)) for _ in range(d * d)] for _ in range(4)])
            if core.gt(np.abs(back(GM.matrix_to_gellmann_basis(GM.gellmann_basis_to_matrix(conv(w.copy())))) - w).max(), TOL):
                bad('matrix_to_gellmann_basis', '%s: vector -> matrix -> vector is not the identity' % backend)
        # single precision torch
        A32 = torch.tensor(units[: min(6, d * d)], dtype=torch.complex64)
        got32 = GM.matrix_to_gellmann_basis(A32).numpy()
        if core.gt(np.abs(got32 - analysis(units[: min(6, d * d)])).max(), TOL32):
            bad('matrix_to_gellmann_basis', 'torch complex64')
        v32 = torch.tensor(np.eye(d * d)[: min(6, d * d)], dtype=torch.float32)
        if core.gt(np.abs(GM.gellmann_basis_to_matrix(v32).numpy() - G[: min(6, d * d)]).max(), TOL32):
            bad('gellmann_basis_to_matrix', 'torch float32')
        # density matrices with rational entries: Bloch vector, norm, distance
        for trial in range(3):
            X = np.array([[complex(rng.randint(-3, 3), rng.randint(-3, 3)) for _ in range(d)] for _ in range(d)])
            rho = X @ X.conj().T + (np.eye(d) if trial else 0)
            if abs(np.trace(rho)) < 1e-12:
                continue
            rho = rho / np.trace(rho).real
            Y = np.array([[complex(rng.randint(-3, 3), rng.randint(-3, 3)) for _ in range(d)] for _ in range(d)])
            sig = Y @ Y.conj().T + np.eye(d)
            sig = sig / np.trace(sig).real
            bv = analysis(rho).real[:-1]
            ctx.case(('gm-dm', d, trial))
            got = GM.dm_to_gellmann_basis(rho)
            if got.shape != bv.shape or core.gt(np.abs(got - bv).max(), TOL):
                bad('dm_to_gellmann_basis', 'Bloch vector')
            if core.gt(np.abs(GM.gellmann_basis_to_dm(got) - rho).max(), TOL):
                bad('gellmann_basis_to_dm', 'Bloch vector does not round-trip')
            if core.gt(abs(GM.dm_to_gellmann_norm(rho) ** 2 - np.dot(bv, bv)), TOL):
                bad('dm_to_gellmann_norm', 'norm != Euclidean norm of the Bloch vector')
            bs = analysis(sig).real[:-1]
            if core.gt(abs(GM.get_density_matrix_distance2(rho, sig) - np.dot(bv - bs, bv - bs)), TOL):
                bad('get_density_matrix_distance2', 'distance^2 != squared Euclidean distance of Bloch vectors')
            rb = np.stack([rho, sig]).reshape(2, 1, d, d)
            gotb = GM.dm_to_gellmann_basis(rb)
            if gotb.shape != (2, 1, d * d - 1) or core.gt(np.abs(gotb[1, 0] - bs).max(), TOL):
                bad('dm_to_gellmann_basis', 'batched')
            if core.gt(np.abs(GM.dm_to_gellmann_norm(rb)[0, 0] ** 2 - np.dot(bv, bv)), TOL):
                bad('dm_to_gellmann_norm', 'batched')
            if core.gt(np.abs(GM.gellmann_basis_to_dm(torch.tensor(np.stack([bv, bs]))).numpy() - np.stack([rho, sig])).max(), TOL):
                bad('gellmann_basis_to_dm', 'torch batched')
    except Exception as ex:
        ctx.violation('C16:exception:gellmann', type(ex).__name__ + ': ' + str(ex)[:160], data)


def run(ctx):
    quick = ctx.tier == 'quick'
    rng = random.Random(ctx.seed)
    ctx.rule = ('every dimension d=2..%d: the whole basis (order, entries), analysis on every matrix unit and synthesis on every unit vector for batch shapes (), (k,), (k,l) in numpy and torch '
                '(float64; complex64/float32 at 2e-5), tensor_n=2 for d<=3, Gaussian-integer matrices, rational density matrices; distinct by dimension' % (6 if quick else 8))
    ctx.assumptions = ['TLC/SANY correct', 'tolerances 1e-9 / 2e-5 (single precision)', 'linearity extends agreement on matrix units and unit vectors to all matrices']
    ctx.tolerances = {'float64': TOL, 'float32': TOL32}
    r = tlc.run('tensor/MC_GellMann.tla', 'tensor/MC_GellMann_%s.cfg' % ('q' if quick else 't'), dump=True, timeout=3000)
    ctx.add_model('MC_GellMann(d<=%d)' % (6 if quick else 8), r)
    for st in tlc.parse_dump(r):
        run_dim(ctx, st['d'], st['basis'], rng)
        ctx.traces += 1
        if st['d'] == 3:
            ctx.sample(dict(kind='basis', d=3, c2=[b['c2'] for b in st['basis']], last_diagonal=st['basis'][7]['m']))


def replay(ctx, rec):
    print('replay', rec['key'], rec['what'], rec['data'])
    return 0
