"""C17 - partial traces and the Dicke-basis reduction equal the explicit contraction.
specs: specs/tensor/{PartialTrace,MC_PartialTrace,Dicke,MC_Dicke}.tla"""
import itertools, random
from fractions import Fraction
import numpy as np
from .. import tlc, core
from ..qsim import setof

TOL = 1e-9


def run_pt(ctx, states, rng):
    import numqi
    for st in states:
        dims = list(st['cfg']['dims'])
        keep = sorted(q - 1 for q in setof(st['cfg']['keep']))
        tab = st['tab']
        D = int(np.prod(dims))
        kd = [dims[k] for k in keep]
        R = int(np.prod(kd)) if kd else 1
        data = dict(dims=dims, keep=keep)
        ctx.case(('pt', tuple(dims), tuple(keep)))
        try:
            rho = np.array([[complex(rng.randint(-4, 4), rng.randint(-4, 4)) for _ in range(D)] for _ in range(D)])
            want = np.zeros((R, R), dtype=complex)
            T = np.array(tab)
            nz = np.nonzero(T)
            np.add.at(want.reshape(-1), T[nz] - 1, rho[nz])
            got = numqi.utils.partial_trace(rho, dims, set(keep))
            ctx.evaluations += 1
            if got.shape != want.shape or core.gt(np.abs(got - want).max(), TOL):
                ctx.violation('C17:partial_trace:contraction', 'partial trace differs from the explicit index contraction (dims=%s keep=%s)' % (dims, keep), data)
                continue
            # the keep argument denotes a SET of subsystems (MC_PartialTrace): every concrete form the function accepts must give the same answer
            forms = [('list', list(keep)), ('tuple', tuple(keep)), ('reversed', list(reversed(keep))), ('repeated', list(keep) + list(keep[:1])), ('numpy-ints', [np.int64(k) for k in keep])]
            if len(keep) == 1:
                forms += [('int', int(keep[0])), ('numpy-int', np.int64(keep[0]))]
            for fname, karg in forms:
                try:
                    g2 = numqi.utils.partial_trace(rho, dims, karg)
                    if g2.shape != want.shape or core.gt(np.abs(g2 - want).max(), TOL):
                        ctx.violation('C17:partial_trace:keep-form', 'partial trace with keep given as %s (%r) differs from the explicit index contraction (dims=%s)' % (fname, karg, dims), dict(data, form=fname))
                except Exception as ex:
                    ctx.violation('C17:partial_trace:keep-form:exception', 'keep given as %s (%r): %s: %s' % (fname, karg, type(ex).__name__, str(ex)[:120]), dict(data, form=fname))
            # every matrix unit separately for the smaller configurations (one implementation test per unit)
            if D <= 12:
                for a in range(D):
                    for b in range(D):
                        e = np.zeros((D, D), dtype=complex)
                        e[a, b] = 1
                        w = np.zeros(R * R, dtype=complex)
                        if tab[a][b]:
                            w[tab[a][b] - 1] = 1
                        if core.gt(np.abs(numqi.utils.partial_trace(e, dims, set(keep)).reshape(-1) - w).max(), TOL):
                            ctx.violation('C17:partial_trace:matrix-unit', 'partial trace of a matrix unit differs (dims=%s keep=%s)' % (dims, keep), dict(data, unit=[a, b]))
                            raise StopIteration
            # states keep unit trace
            psi = np.array([complex(rng.randint(-3, 3), rng.randint(-3, 3)) for _ in range(D)])
            if core.gt(np.abs(psi).max(), 0):
                psi = psi / np.linalg.norm(psi)
                tr = np.trace(numqi.utils.partial_trace(np.outer(psi, psi.conj()), dims, set(keep)))
                if core.gt(abs(tr - 1), TOL):
                    ctx.violation('C17:partial_trace:unit-trace', 'partial trace of a state does not have unit trace', data)
        except StopIteration:
            pass
        except Exception as ex:
            ctx.violation('C17:exception:partial_trace', type(ex).__name__ + ': ' + str(ex)[:160], data)
    st = states[len(states) // 2]
    ctx.sample(dict(kind='partial-trace-config', dims=list(st['cfg']['dims']), keep=sorted(setof(st['cfg']['keep']))))


def run_dicke(ctx, states, rng):
    import numqi, torch
    Dk = numqi.dicke
    for st in states:
        n, d = st['cfg']['n'], st['cfg']['d']
        obs = st['obs']
        kl = [tuple(k) for k in obs['klist']]
        data = dict(num_qudit=n, dim=d)
        ctx.case(('dicke', n, d))

        def bad(fn, clause, extra=None):
            ctx.violation('C17:%s:%s' % (fn, clause), '%s: %s (n=%d d=%d)' % (fn, clause, n, d), dict(data, **(extra or {})))
        try:
            if [tuple(int(x) for x in k) for k in Dk.get_dicke_klist(n, d)] != kl:
                bad('get_dicke_klist', 'order / content of the occupation tuples')
                continue
            if Dk.get_dicke_number(n, d) != len(kl):
                bad('get_dicke_number', 'count')
            basis = Dk.get_dicke_basis(n, d)
            for i, k in enumerate(kl):
                want = np.zeros(d ** n)
                want[sorted(setof(obs['orbit'][i]))] = 1 / np.sqrt(obs['mult'][i])
                if core.gt(np.abs(basis[i] - want).max(), TOL):
                    bad('get_dicke_basis', 'row is not the uniform superposition over the orbit', dict(klist=list(k)))
                    break
                if core.gt(np.abs(Dk.Dicke(*k) - want).max(), TOL):
                    bad('Dicke', 'vector is not the uniform superposition over the orbit', dict(klist=list(k)))
                    break
            # reduction table, both forms
            B2 = obs['B2']
            Bt = Dk.get_partial_trace_ABk_to_AB_index(n, d, return_tensor=True)
            Bl = Dk.get_partial_trace_ABk_to_AB_index(n, d, return_tensor=False)
            want = np.array([[[[float(np.sqrt(c[0] / c[1])) for c in row] for row in m] for m in rs] for rs in B2], dtype=float)
            if Bt.shape != want.shape or core.gt(np.abs(Bt - want).max(), TOL):
                bad('get_partial_trace_ABk_to_AB_index', 'tensor form differs from sqrt(a_r b_s)/n on the allowed pairs')
            dense = np.zeros((d * d, len(kl), len(kl)))
            for idx, (I, J, V) in enumerate(Bl):
                dense[idx, I, J] = V
            if core.gt(np.abs(dense.reshape(want.shape) - want).max(), TOL):
                bad('get_partial_trace_ABk_to_AB_index', 'index-list form differs')
            if d == 2 and n > 1:
                # the qubit special case returns the three non-zero diagonals of the same table
                a00, a01, a11 = Dk.get_qubit_dicke_partial_trace(n)
                if (core.gt(np.abs(a00 - np.diag(want[0, 0])).max(), TOL) or core.gt(np.abs(a11 - np.diag(want[1, 1])).max(), TOL)
                        or core.gt(np.abs(a01 - np.diag(want[0, 1], -1)).max(), TOL) or core.gt(np.abs(a01 - np.diag(want[1, 0], 1)).max(), TOL)):
                    bad('get_qubit_dicke_partial_trace', 'diagonals differ from the exact reduction table')
            # fast reduction vs explicit embedding + exact partial trace, numpy and torch
            for dimA in (2, 3):
                if dimA * d ** n > 400:
                    continue
                v = np.array([[complex(rng.randint(-3, 3), rng.randint(-3, 3)) for _ in range(len(kl))] for _ in range(dimA)])
                full = (v @ basis).reshape(-1)
                rho_full = np.outer(full, full.conj())
                want_r = numqi.utils.partial_trace(rho_full, [dimA] + [d] * n, {0, 1})
                got = Dk.partial_trace_ABk_to_AB(v, Bl)
                ctx.evaluations += 1
                if got.shape != want_r.shape or core.gt(np.abs(got - want_r).max(), 1e-8):
                    bad('partial_trace_ABk_to_AB', 'numpy: fast reduction differs from embedding + explicit partial trace', dict(dimA=dimA))
                Blt = [(torch.tensor(I), torch.tensor(J), torch.tensor(V)) for I, J, V in Bl]
                got_t = Dk.partial_trace_ABk_to_AB(torch.tensor(v), Blt).numpy()
                if got_t.shape != want_r.shape or core.gt(np.abs(got_t - want_r).max(), 1e-8):
                    bad('partial_trace_ABk_to_AB', 'torch: fast reduction differs from embedding + explicit partial trace', dict(dimA=dimA))
        except Exception as ex:
            ctx.violation('C17:exception:dicke', type(ex).__name__ + ': ' + str(ex)[:160], data)
    ctx.sample(dict(kind='dicke-config', num_qudit=states[-1]['cfg']['n'], dim=states[-1]['cfg']['d'], klist=states[-1]['obs']['klist'][:4]))


def run(ctx):
    quick = ctx.tier == 'quick'
    rng = random.Random(ctx.seed)
    ctx.rule = ('partial trace: every dimension list of length 2..%d with entries %s and every keep subset, plus long lists (5%s parties of dimension 2..3) (random Gaussian-integer operators; every matrix unit when the total dimension <= 12); '
                'Dicke: every (copies<=%d, dimension<=%d): occupation order, orbits, reduction table in both forms, fast reduction vs explicit embedding in numpy and torch; distinct by configuration'
                % (3 if quick else 4, '2..3' if quick else '2..4 (total<=64)', '' if quick else ' and 6', 4 if quick else 5, 3 if quick else 4))
    ctx.assumptions = ['TLC/SANY correct', 'tolerance 1e-9 (1e-8 for the composed reduction)', 'linearity / sesquilinearity of the routines extends agreement on integer inputs to all inputs']
    r = tlc.run('tensor/MC_PartialTrace.tla', 'tensor/MC_PartialTrace_%s.cfg' % ('q' if quick else 't'), dump=True, timeout=3000)
    ctx.add_model('MC_PartialTrace', r)
    sts = list(tlc.parse_dump(r))
    run_pt(ctx, sts, rng)
    ctx.traces += len(sts)
    # long lists of small subsystems (5 and 6 parties): index bookkeeping that only shows with many subsystems
    r = tlc.run('tensor/MC_PartialTrace.tla', 'tensor/MC_PartialTrace_%s.cfg' % ('longq' if quick else 'long'), dump=True, timeout=3000)
    ctx.add_model('MC_PartialTrace(long lists)', r)
    seen = {(tuple(st['cfg']['dims']), tuple(sorted(setof(st['cfg']['keep'])))) for st in sts}
    sts = [st for st in tlc.parse_dump(r) if (tuple(st['cfg']['dims']), tuple(sorted(setof(st['cfg']['keep'])))) not in seen]
    run_pt(ctx, sts, rng)
    ctx.traces += len(sts)
    r = tlc.run('tensor/MC_Dicke.tla', 'tensor/MC_Dicke_%s.cfg' % ('q' if quick else 't'), dump=True, timeout=3000)
    ctx.add_model('MC_Dicke', r)
    sts = list(tlc.parse_dump(r))
    run_dicke(ctx, sts, rng)
    ctx.traces += len(sts)


def replay(ctx, rec):
    print('replay', rec['key'], rec['what'], rec['data'])
    return 0
