"""C15 - SU(2)/SO(3) conversions are consistent for every rotation, gimbal lock included.
specs: specs/lie/{Rotation,MC_Rotation,AngMom,MC_AngMom}.tla"""
import math, random
import numpy as np
from .. import tlc, core

TOL = 1e-9


def gmat(m, scale):
    return np.array([[complex(e[0], e[1]) for e in row] for row in m]) / scale


def full_angle(h):
    return math.atan2(2 * h[0] * h[1], h[0] * h[0] - h[1] * h[1]) % (2 * math.pi)


def half_angle(h):
    return math.atan2(h[1], h[0])


def classify(ang):
    b = tuple(ang['b'])
    return 'beta=0' if b == (5, 0) else 'beta=pi' if b == (0, 5) else 'generic'


def run_states(ctx, states, rng, jmax):
    import numqi
    G = numqi.group
    recs = []
    for st in states:
        ang, obs = st['ang'], st['obs']
        R = np.array(obs['R'], dtype=float) / 15625
        U = gmat(obs['U'], 125)
        # Euler angles: alpha, gamma = 2 * half-angle (so the SU(2) element is reproduced, not its negative), beta in [0, pi]
        al, be, ga = 2 * half_angle(ang['a']), 2 * half_angle(ang['b']), 2 * half_angle(ang['g'])
        kind = classify(ang)
        data = dict(alpha_half=ang['a'], beta_half=ang['b'], gamma_half=ang['g'], kind=kind)
        recs.append((R, U, kind, data, obs))
        ctx.case(('rot', tuple(ang['a']), tuple(ang['b']), tuple(ang['g'])))

        def bad(fn, clause):
            ctx.violation('C15:%s:%s:%s' % (fn, clause, kind), '%s: %s [%s]' % (fn, clause, kind), data)
        try:
            if core.gt(np.abs(G.angle_to_so3(al, be, ga) - R).max(), TOL): bad('angle_to_so3', 'matrix differs from Rz Ry Rz')
            if core.gt(np.abs(G.angle_to_su2(al, be, ga) - U).max(), TOL): bad('angle_to_su2', 'matrix differs')
            if core.gt(np.abs(G.su2_to_so3(U) - R).max(), TOL): bad('su2_to_so3', 'image of the 2-to-1 homomorphism differs')
            if core.gt(np.abs(G.su2_to_so3(-U) - R).max(), TOL): bad('su2_to_so3', '-U does not map to the same rotation')
            a2, b2, g2 = G.so3_to_angle(R)
            ctx.evaluations += 1
            if not np.all(np.isfinite([a2, b2, g2])) or core.gt(np.abs(G.angle_to_so3(a2, b2, g2) - R).max(), 1e-7):
                bad('so3_to_angle', 'extracted Euler angles do not rebuild the rotation')
            a3, b3, g3 = G.su2_to_angle(U)
            U3 = G.angle_to_su2(a3, b3, g3)
            if not np.all(np.isfinite([a3, b3, g3])) or min(np.abs(U3 - U).max(), np.abs(U3 + U).max()) > 1e-7:
                bad('su2_to_angle', 'extracted Euler angles do not rebuild the SU(2) element (up to sign)')
            U4 = G.so3_to_su2(R)
            if min(np.abs(U4 - U).max(), np.abs(U4 + U).max()) > 1e-7:
                bad('so3_to_su2', 'lift differs from +-U')
            # spin-j matrices against Sym^n(U) in the Dicke basis (m descending)
            for n in range(1, jmax + 1):
                num = gmat(obs['spin'][n - 1], 125.0 ** n)
                rad = np.array([math.sqrt(math.comb(n, k)) for k in range(n + 1)])
                want = num / np.outer(rad, rad)
                for form, got in (('matrix', G.get_su2_irrep(n, U)), ('angles', G.get_su2_irrep(n, al, be, ga))):
                    # the matrix form goes through su2_to_angle (arccos near its end points loses half the digits)
                    if got.shape != want.shape or core.gt(np.abs(got - want).max(), (1e-7 if form == 'matrix' else 1e-8)):
                        bad('get_su2_irrep', 'j2=%d (%s form): matrix differs from the symmetric power of U' % (n, form))
                        break
        except Exception as ex:
            ctx.violation('C15:exception:%s' % kind, type(ex).__name__ + ': ' + str(ex)[:160], data)
    return recs


def run_batches(ctx, recs, rng, count):
    """batches mixing generic and degenerate rotations must convert element-wise"""
    import numqi
    G = numqi.group
    gen = [r for r in recs if r[2] == 'generic']
    b0 = [r for r in recs if r[2] == 'beta=0']
    bp = [r for r in recs if r[2] == 'beta=pi']
    for t in range(count):
        mix = [rng.choice(gen), rng.choice(b0), rng.choice(gen), rng.choice(bp), rng.choice(b0)][: 2 + t % 4]
        rng.shuffle(mix)
        kinds = [m[2] for m in mix]
        Rb = np.stack([m[0] for m in mix])
        Ub = np.stack([m[1] for m in mix])
        data = dict(kinds=kinds, angles=[m[3] for m in mix])
        ctx.case(('batch', tuple(kinds), t))
        tag = 'mixed' if len(set(kinds)) > 1 else kinds[0]
        try:
            a, b, g = G.so3_to_angle(Rb)
            if core.gt(np.abs(G.angle_to_so3(a, b, g) - Rb).max(), 1e-7):
                ctx.violation('C15:so3_to_angle:batch:%s' % tag, 'batched conversion is not element-wise correct', data)
            a, b, g = G.su2_to_angle(Ub)
            U2 = G.angle_to_su2(a, b, g)
            err = np.minimum(np.abs(U2 - Ub).reshape(len(mix), -1).max(axis=1), np.abs(U2 + Ub).reshape(len(mix), -1).max(axis=1))
            if err.max() > 1e-7:
                ctx.violation('C15:su2_to_angle:batch:%s' % tag, 'batched conversion is not element-wise correct', data)
        except Exception as ex:
            ctx.violation('C15:batch-exception:%s' % tag, 'batch of %s raised %s: %s' % (kinds, type(ex).__name__, str(ex)[:120]), data)


def run(ctx):
    import numqi
    quick = ctx.tier == 'quick'
    rng = random.Random(ctx.seed)
    jmax = 3
    ctx.rule = ('every Euler triple on the Pythagorean half-angle grid (12 x 4 x 12 = 576 rotations: beta in {0, pi} exactly with alpha+-gamma in every quadrant, 288 generic); batches mixing both kinds; '
                'spin-j matrices j2<=3 against Sym^n(U); angular-momentum operators j2<=10; every Clebsch-Gordan table with 2j1, 2j2 <= %d; distinct by angle triple / batch / table' % (4 if quick else 5))
    ctx.assumptions = ['TLC/SANY correct', 'tolerance 1e-9 for forward maps, 1e-7 after angle extraction (arccos near the end points)']
    ctx.not_covered = ['Clebsch-Gordan tables beyond 2j1, 2j2 <= 5 (32-bit overflow of the factorial products)', 'spin-j for j2>3 exactly (32-bit overflow of 125^n numerators)',
                       'D(U1 U2) = D(U1) D(U2) is exact in the spec by construction (symmetric power); on the code side it is compared numerically at products that leave the grid']
    r = tlc.run('lie/MC_Rotation.tla', 'lie/MC_Rotation_q.cfg', dump=True, timeout=3000)
    ctx.add_model('MC_Rotation', r)
    states = list(tlc.parse_dump(r))
    recs = run_states(ctx, states, rng, jmax)
    ctx.traces += len(states)
    run_batches(ctx, recs, rng, 60 if quick else 600)
    # degenerate rotations on a much finer exact angle set (rotations about z by "any" angle)
    r = tlc.run('lie/MC_Gimbal.tla', 'lie/MC_Gimbal.cfg', dump=True, timeout=3000)
    ctx.add_model('MC_Gimbal', r)
    gst = list(tlc.parse_dump(r))
    G = numqi.group
    for st in gst:
        obs, ang = st['obs'], st['ang']
        U = gmat(obs['U'], obs['den'])
        R = np.array(obs['R'], dtype=float) / obs['den'] ** 2
        kind = 'beta=pi' if ang['pi'] else 'beta=0'
        data = dict(alpha_half=ang['a'], gamma_half=ang['g'], kind=kind)
        ctx.case(('gimbal', tuple(ang['a']), tuple(ang['g']), ang['pi']))
        try:
            a3, b3, g3 = G.su2_to_angle(U)
            U3 = G.angle_to_su2(a3, b3, g3)
            if not np.all(np.isfinite([a3, b3, g3])) or min(np.abs(U3 - U).max(), np.abs(U3 + U).max()) > 1e-7:
                ctx.violation('C15:su2_to_angle:fine-grid:%s' % kind, 'extracted Euler angles are not finite / do not rebuild the SU(2) element [%s]' % kind, dict(data, angles=[float(a3), float(b3), float(g3)]))
            a2, b2, g2 = G.so3_to_angle(R)
            if not np.all(np.isfinite([a2, b2, g2])) or core.gt(np.abs(G.angle_to_so3(a2, b2, g2) - R).max(), 1e-7):
                ctx.violation('C15:so3_to_angle:fine-grid:%s' % kind, 'extracted Euler angles are not finite / do not rebuild the rotation [%s]' % kind, data)
            if core.gt(np.abs(G.su2_to_so3(U) - R).max(), 1e-9):
                ctx.violation('C15:su2_to_so3:fine-grid:%s' % kind, 'image differs', data)
            D1 = G.get_su2_irrep(1, U)
            if not np.all(np.isfinite(D1)) or core.gt(np.abs(D1 - U).max(), 1e-7):
                ctx.violation('C15:get_su2_irrep:fine-grid:%s' % kind, 'spin-1/2 matrix of U is not U', data)
        except Exception as ex:
            ctx.violation('C15:exception:fine-grid:%s' % kind, type(ex).__name__ + ': ' + str(ex)[:160], data)
    ctx.traces += len(gst)
    # the edges of the generic chart: cos(alpha) = +-1 or cos(gamma) = +-1 exactly, beta generic, the other angles on the fine set
    r = tlc.run('lie/MC_EulerEdge.tla', 'lie/MC_EulerEdge.cfg', dump=True, timeout=3000)
    ctx.add_model('MC_EulerEdge', r)
    est = list(tlc.parse_dump(r))
    for st in est:
        obs, ang = st['obs'], st['ang']
        U = gmat(obs['U'], obs['den'])
        R = np.array(obs['R'], dtype=float) / obs['den'] ** 2
        kind = 'gamma-edge' if ang['g'][2] == 1 else 'alpha-edge'
        data = dict(alpha_half=ang['a'], beta_half=ang['b'], gamma_half=ang['g'], kind=kind)
        ctx.case(('edge', tuple(ang['a']), tuple(ang['b']), tuple(ang['g'])))
        try:
            a2, b2, g2 = G.so3_to_angle(R)
            if not np.all(np.isfinite([a2, b2, g2])) or core.gt(np.abs(G.angle_to_so3(a2, b2, g2) - R).max(), 1e-7):
                ctx.violation('C15:so3_to_angle:chart-edge:%s' % kind, 'extracted Euler angles are not finite / do not rebuild the rotation [%s, beta generic]' % kind, dict(data, angles=[float(a2), float(b2), float(g2)]))
            a3, b3, g3 = G.su2_to_angle(U)
            U3 = G.angle_to_su2(a3, b3, g3)
            if not np.all(np.isfinite([a3, b3, g3])) or core.gt(min(np.abs(U3 - U).max(), np.abs(U3 + U).max()), 1e-7):
                ctx.violation('C15:su2_to_angle:chart-edge:%s' % kind, 'extracted Euler angles are not finite / do not rebuild the SU(2) element [%s, beta generic]' % kind, dict(data, angles=[float(a3), float(b3), float(g3)]))
            if core.gt(np.abs(G.su2_to_so3(U) - R).max(), 1e-9):
                ctx.violation('C15:su2_to_so3:chart-edge:%s' % kind, 'image differs', data)
            U4 = G.so3_to_su2(R)
            if core.gt(min(np.abs(U4 - U).max(), np.abs(U4 + U).max()), 1e-7):
                ctx.violation('C15:so3_to_su2:chart-edge:%s' % kind, 'so3_to_su2(R) is not +-U', data)
            D1 = G.get_su2_irrep(1, U)
            if core.gt(np.abs(D1 - U).max(), 1e-7):
                ctx.violation('C15:get_su2_irrep:chart-edge:%s' % kind, 'spin-1/2 matrix of U is not U', data)
        except Exception as ex:
            ctx.violation('C15:exception:chart-edge:%s' % kind, type(ex).__name__ + ': ' + str(ex)[:160], data)
    ctx.traces += len(est)
    # near the gimbal points: beta = 2^-e / pi - 2^-e on both sides of the library's threshold zero_eps
    r = tlc.run('lie/MC_NearGimbal.tla', 'lie/MC_NearGimbal.cfg', dump=True, timeout=3000)
    ctx.add_model('MC_NearGimbal', r)
    nst = list(tlc.parse_dump(r))
    if quick:
        nst = rng.sample(nst, 6000)
    for st in nst:
        ang = st['ang']
        al = 2 * math.atan2(ang['a'][1], ang['a'][0]) % (2 * math.pi)
        ga = 2 * math.atan2(ang['g'][1], ang['g'][0]) % (2 * math.pi)
        be = (math.pi - 2.0 ** -ang['e']) if ang['pi'] else 2.0 ** -ang['e']
        kind = ('beta=pi-2^-e' if ang['pi'] else 'beta=2^-e') + (' inside zero_eps' if 2.0 ** -ang['e'] < 1e-7 else ' outside zero_eps')
        data = dict(alpha_half=ang['a'], gamma_half=ang['g'], e=ang['e'], near_pi=ang['pi'], alpha=al, beta=be, gamma=ga)
        ctx.case(('near', tuple(ang['a']), tuple(ang['g']), ang['e'], ang['pi']))
        try:
            R, U = G.angle_to_so3(al, be, ga), G.angle_to_su2(al, be, ga)
            r3 = G.so3_to_angle(R)
            if not np.all(np.isfinite(r3)) or core.gt(np.abs(G.angle_to_so3(*r3) - R).max(), 3e-7):
                ctx.violation('C15:so3_to_angle:near-gimbal:%s' % kind, 'extract-then-rebuild does not return the rotation [%s]: deviation %.3g' % (kind, np.abs(G.angle_to_so3(*r3) - R).max()), data)
            u3 = G.su2_to_angle(U)
            U3 = G.angle_to_su2(*u3)
            dev = min(np.abs(U3 - U).max(), np.abs(U3 + U).max())
            if not np.all(np.isfinite(u3)) or core.gt(dev, 3e-7):
                ctx.violation('C15:su2_to_angle:near-gimbal:%s' % kind, 'extract-then-rebuild does not return +-U [%s]: deviation %.3g' % (kind, dev), data)
        except Exception as ex:
            ctx.violation('C15:exception:near-gimbal:%s' % kind, type(ex).__name__ + ': ' + str(ex)[:160], data)
    ctx.traces += len(nst)
    # representation property at exact products (numerical; both factors anchored exactly above)
    G = numqi.group
    for t in range(40 if quick else 400):
        U1, U2 = rng.choice(recs)[1], rng.choice(recs)[1]
        for n in (1, 2, 3, 4):
            try:
                if core.gt(np.abs(G.get_su2_irrep(n, U1 @ U2) - G.get_su2_irrep(n, U1) @ G.get_su2_irrep(n, U2)).max(), 1e-7):
                    ctx.violation('C15:get_su2_irrep:homomorphism', 'D(U1 U2) != D(U1) D(U2) for j2=%d' % n, dict(j2=n))
                    break
            except Exception as ex:
                ctx.violation('C15:exception:get_su2_irrep', type(ex).__name__ + ': ' + str(ex)[:160], dict(j2=n))
                break
    # angular momentum operators
    r = tlc.run('lie/MC_AngMom.tla', 'lie/MC_AngMom.cfg', dump=True)
    ctx.add_model('MC_AngMom(j2<=10)', r)
    from numqi.matrix_space import get_angular_momentum_op
    for st in tlc.parse_dump(r):
        j2 = st['j2']
        ctx.case(('angmom', j2))
        try:
            jx, jy, jz = get_angular_momentum_op(j2)
            if core.gt(np.abs(np.diag(jz) * 2 - np.array(st['obs']['m2'])).max(), TOL):
                ctx.violation('C15:get_angular_momentum_op:jz', 'J_z is not diag(j..-j)', dict(j2=j2))
            sup = np.diag(jx, 1)
            if core.gt(np.abs(16 * sup ** 2 - np.array(st['obs']['jx16'])).max(), 1e-8) or core.gt(np.abs(jx - jx.T).max(), TOL) or core.gt(np.abs(np.diag(jy, 1) + 1j * sup).max(), TOL) or core.gt(np.abs(jy - jy.conj().T).max(), TOL):
                ctx.violation('C15:get_angular_momentum_op:ladder', 'J_x / J_y entries differ from sqrt((j-m)(j+m+1))/2', dict(j2=j2))
            if core.gt(np.abs(jx @ jy - jy @ jx - 1j * jz).max(), 1e-8):
                ctx.violation('C15:get_angular_momentum_op:commutator', '[Jx,Jy] != i Jz', dict(j2=j2))
        except Exception as ex:
            ctx.violation('C15:exception:angmom', type(ex).__name__ + ': ' + str(ex)[:160], dict(j2=j2))
    # Clebsch-Gordan tables: exact s*sqrt(r) values defined by Racah's formula and certified in TLC by normalisation,
    # highest-weight, ladder and phase relations; replayed into get_clebsch_gordan_coeffient (index order m = j..-j)
    r = tlc.run('lie/MC_CG.tla', 'lie/MC_CG_%s.cfg' % ('q' if quick else 't'), dump=True, timeout=3000)
    ctx.add_model('MC_CG(2j1,2j2<=%d)' % (4 if quick else 5), r)
    from numqi.matrix_space import get_clebsch_gordan_coeffient
    for st in tlc.parse_dump(r):
        a, b, tab = st['a'], st['b'], st['tab']
        if isinstance(tab, list):        # TLC prints a function with domain {1} as a tuple
            tab = {i + 1: v for i, v in enumerate(tab)}
        ctx.case(('cg', a, b))
        data = dict(j1_double=a, j2_double=b)
        try:
            got = get_clebsch_gordan_coeffient(a, b)
            if [int(c) for c, _ in got] != sorted(tab):
                ctx.violation('C15:get_clebsch_gordan_coeffient:j-values', 'list of total spins differs from |j1-j2|..j1+j2', dict(data, got=[int(c) for c, _ in got]))
                continue
            for c, coeff in got:
                want = np.zeros((c + 1, a + 1, b + 1))
                for (m1d, m2d), v in tab[c].items():
                    if v['s']:
                        want[(c - m1d - m2d) // 2, (a - m1d) // 2, (b - m2d) // 2] = v['s'] * np.sqrt(v['r'][0] / v['r'][1])
                ctx.evaluations += want.size
                if np.asarray(coeff).shape != want.shape or core.gt(np.abs(np.asarray(coeff) - want).max(), 1e-10):
                    ctx.violation('C15:get_clebsch_gordan_coeffient:value', 'coefficients differ from the exact table (j=%d/2)' % c, dict(data, j_double=int(c)))
            ctx.traces += 1
        except Exception as ex:
            ctx.violation('C15:exception:clebsch-gordan', type(ex).__name__ + ': ' + str(ex)[:160], data)
    s = states[77]
    ctx.sample(dict(kind='clebsch-gordan', j1_double=a, j2_double=b, j_values=sorted(tab)))
    ctx.sample(dict(kind='rotation', half_angles=s['ang'], R_times_15625=s['obs']['R']))


def replay(ctx, rec):
    print('replay', rec['key'], rec['what'], rec['data'])
    return 0
