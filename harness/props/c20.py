"""C20 - matrix-subspace decomposition is exact and rank certificates are sound.
specs: specs/contract/{MatrixSpace,MC_MatrixSpace,MC_Planted,Trace_MatrixSpace}.tla"""
import random
import numpy as np
from .. import tlc, core


def gm(m):
    return np.array([[complex(e[0], e[1]) for e in row] for row in m])


SCALE = 4000                 # returned frames are rounded to integers at this scale for the trace
TOL_GRAM = SCALE * SCALE // 100   # 1% of the squared scale: rounding alone gives <= ~0.15%
TOL_RES = SCALE * SCALE // 8      # residual of c*g - sum <B_i,g> B_i per entry (rounding accumulates over the basis)


def rint(arr):
    a = np.asarray(arr)
    return [[[[int(round(float(np.real(z)) * SCALE)), int(round(float(np.imag(z)) * SCALE))] for z in row] for row in m] for m in a]


def orthonormal_basis(mats):
    """hand the subspace over as an orthonormal basis (the certificates use absolute thresholds)"""
    A = np.stack([m.reshape(-1) for m in mats])
    q, r = np.linalg.qr(A.T)
    return [q[:, i].reshape(mats[0].shape) for i in range(len(mats))]


def run_basis(ctx, states):
    from numqi.matrix_space import get_matrix_orthogonal_basis
    ev, meta = [], []
    for st in states:
        cfg, obs = st['cfg'], st['obs']
        gens = np.stack([gm(g) for g in obs['gens']])
        pert = [list(k) for k in obs.get('pert') or []]
        if pert:
            gens = gens + 2.0 ** -obs['e'] * np.stack([gm(k) for k in pert])          # nearly structured: exact in float64 (small integers, dyadic factor)
        if obs['label'] in ('R', 'R_T') or (obs['label'] in ('C', 'C_T') and np.abs(gens.imag).max() == 0):
            arr = gens.real.copy()
        else:
            arr = gens
        ctx.case(('basis', cfg['cls'], cfg['n'], cfg['s'], cfg['t']))
        data = dict(cls=cfg['cls'], n=cfg['n'], seed=cfg['s'], generators=len(gens))
        try:
            basis, compl, label = get_matrix_orthogonal_basis(arr, obs['field'])
            ev.append(dict(op='basis', gens=obs['gens'], pert=pert, e=obs.get('e', 0), field=obs['field'], label=str(label), nbasis=int(len(basis)), ncompl=int(len(compl)),
                           basis=rint(basis), compl=rint(compl), scale=SCALE, tol=TOL_GRAM, rtol=TOL_RES))
            meta.append(dict(data, expected=dict(label=obs['label'], dim=obs['dim'], ambient=obs['ambient']), got=dict(label=str(label), nbasis=int(len(basis)), ncompl=int(len(compl)))))
        except Exception as ex:
            ctx.violation('C20:get_matrix_orthogonal_basis:exception', type(ex).__name__ + ': ' + str(ex)[:160], data)
    return ev, meta


def run_planted(ctx, states, quick):
    import numqi
    MS = numqi.matrix_space
    ev, meta = [], []
    pol = dict(certified_on_planted=0, refused_on_planted=0, certified_on_control=0, refused_on_control=0)
    for st in states:
        cfg, obs = st['cfg'], st['obs']
        dims = list(cfg['dims'])
        B = [gm(b) for b in obs['B']]
        real = cfg['kind'] in ('real', 'tri-real')
        if real:
            B = [b.real.copy() for b in B]
        basis = orthonormal_basis(B)
        data = dict(kind=cfg['kind'], dims=dims, r=cfg['r'], seed=cfg['s'])
        ctx.case(('planted', cfg['kind'], tuple(dims), cfg['r'], cfg['s']))
        base = dict(op='cert', B=obs['B'], P=obs['P'], r=cfg['r'])
        try:
            if len(dims) == 2:
                for k in (() if cfg['s'] > 12 else (1, 2) if quick else (1, 2, 3)):      # seeds > 12 exist only for the cheap rank-one detector
                    if cfg['r'] == 3 and k == 3:
                        continue
                    res = bool(MS.has_rank_hierarchical_method(np.stack(basis), cfg['r'], hierarchy_k=k))
                    ev.append(dict(base, fn='has_rank_hierarchical_method(k=%d)' % k, certified=res))
                    meta.append(data)
                    pol['certified_on_planted' if res else 'refused_on_planted'] += 1
                if real and cfg['r'] == 2 and dims[0] == dims[1]:
                    tag, bound = MS.detect_real_matrix_subspace_rank_one(np.stack(basis))
                    ev.append(dict(base, fn='detect_real_matrix_subspace_rank_one', certified=bool(not tag), bound=repr(float(bound))))
                    meta.append(dict(data, bound=float(bound)))
                    pol['certified_on_planted' if not tag else 'refused_on_planted'] += 1
            else:
                tens = [b.reshape(dims) for b in basis]
                for k in ((1, 2) if quick else (1, 2, 3)):
                    res = bool(MS.is_ABC_completely_entangled_subspace(tens, hierarchy_k=k))
                    ev.append(dict(base, fn='is_ABC_completely_entangled_subspace(k=%d)' % k, certified=res))
                    meta.append(data)
                    pol['certified_on_planted' if res else 'refused_on_planted'] += 1
        except Exception as ex:
            ctx.violation('C20:exception:certificate', type(ex).__name__ + ': ' + str(ex)[:160], data)
    # control (polarity / non-vacuity): span{I, R} with R a rotation-like full-rank matrix has no element of rank < 2
    try:
        anti = [np.array(m, dtype=float) for m in ([[1, 0, 0], [0, 1, 0], [0, 0, 1]], [[0, 1, 0], [-1, 0, 0], [0, 0, 2]])]
        ob = orthonormal_basis(anti)
        for k in (1, 2):
            res = bool(MS.has_rank_hierarchical_method(np.stack(ob), 2, hierarchy_k=k))
            pol['certified_on_control' if res else 'refused_on_control'] += 1
        tag, _ = MS.detect_real_matrix_subspace_rank_one(np.stack(ob))
        pol['certified_on_control' if not tag else 'refused_on_control'] += 1
    except Exception as ex:
        ctx.violation('C20:exception:control', type(ex).__name__ + ': ' + str(ex)[:160], None)
    ctx.extra['certificate_polarity'] = pol
    return ev, meta


def _numrange_matrix(st):
    g = lambda z: complex(z[0], z[1])
    blk = lambda B: np.array([[g(B[0]), g(B[1])], [g(B[2]), g(B[3])]])
    sh, b1, b2, c = st['shape'], blk(st['B1']), blk(st['B2']), g(st['c'])
    if sh == '2':
        return b1
    n = dict([('3a', 3), ('3b', 3), ('3c', 3), ('5', 5), ('6', 6)])[sh]
    A = np.zeros((n, n), dtype=complex)

    def put(idx, M):
        for a, i in enumerate(idx):
            for b, j in enumerate(idx):
                A[i, j] = M[a, b]
    if sh == '3a':
        A[0, 0] = c; put([1, 2], b1)
    elif sh == '3b':
        A[1, 1] = c; put([0, 2], b1)
    elif sh == '3c':
        A[2, 2] = c; put([0, 1], b1)
    elif sh == '5':
        put([0, 1], b1); A[2, 2] = c; put([3, 4], b2)
    else:
        put([0, 3], b1); put([1, 4], b2); A[2, 2] = c; A[5, 5] = np.conj(c)
    return A


def run_numrange(ctx, quick):
    """support function of the numerical range: exact values from MC_NumRange, replayed into get_matrix_numerical_range"""
    from numqi.matrix_space import get_matrix_numerical_range
    r = tlc.run('contract/MC_NumRange.tla', 'contract/MC_NumRange.cfg', dump=True, timeout=3000)
    ctx.add_model('MC_NumRange', r)
    states = list(tlc.parse_dump(r))
    rng = random.Random(ctx.seed + 20)
    if quick:
        small = [s for s in states if s['shape'] == '2']
        big = [s for s in states if s['shape'] != '2']
        states = rng.sample(small, min(len(small), 700)) + rng.sample(big, min(len(big), 900))
    for k, st in enumerate(states):
        A = _numrange_matrix(st)
        n = A.shape[0]
        sup = [st['sup4'][j] / 4 for j in range(4)]
        refl = None
        if k % 3 == 1:           # unitary similarity (rational Householder reflection) leaves W(A) unchanged
            v = np.array([(3 * i + 1 + k) % 5 - 2 for i in range(n)], dtype=float)
            if np.abs(v).sum() > 0:
                refl = v.tolist()
                Hh = np.eye(n) - 2 * np.outer(v, v) / (v @ v)
                A = Hh @ A @ Hh
        ctx.case(('numrange', st['shape'], tuple(map(tuple, st['B1'])), tuple(st['c']), k % 3 == 1))
        data = dict(shape=st['shape'], B1=st['B1'], B2=st['B2'], c=st['c'], householder=refl, support_at_axes=sup)
        try:
            for num in (5, 9):
                z = np.asarray(get_matrix_numerical_range(A, num))
                step = (num - 1) // 4
                for j in range(num):
                    if j % step:
                        continue
                    kk = (j // step) % 4
                    val = (np.exp(0.5j * np.pi * kk) * z[j]).real
                    if core.gt(abs(val - sup[kk]), 1e-8):
                        ctx.violation('C20:get_matrix_numerical_range:support', 'the point returned for direction theta=%d*pi/2 (num_point=%d) gives Re(e^{i theta} z)=%.9f, the support function is %s'
                                      % (kk, num, val, sup[kk]), data)
                # every returned point must lie in W(A): below the support function in the four exact directions
                for kk in range(4):
                    if ((np.exp(0.5j * np.pi * kk) * z).real > sup[kk] + 1e-8).any():
                        ctx.violation('C20:get_matrix_numerical_range:outside', 'a returned point lies outside the numerical range (beyond the support line at theta=%d*pi/2)' % kk, data)
            ctx.traces += 1
        except Exception as ex:
            ctx.violation('C20:exception:get_matrix_numerical_range', type(ex).__name__ + ': ' + str(ex)[:160], data)
    ctx.sample(dict(kind='numerical-range', shape=states[-1]['shape'], B1=states[-1]['B1'], c=states[-1]['c'], support_x4=states[-1]['sup4']))


def run(ctx):
    quick = ctx.tier == 'quick'
    ctx.rule = ('structure classes R, R_T, C, C_T (real and complex generators), C_H, R_cT, R_c with integer generators incl. planted dependencies, sizes 2..%d (non-square for the general classes): label, exact '
                'dimension of the span (fraction-free elimination over Z / Z[i]) and complement dimension; returned frames (rounded to integers at scale 4000): one common norm, mutually orthogonal, complement orthogonal to the basis, every generator reproduced by its projection (realified block form checked for R_c / R_cT); planted subspaces (real/complex bipartite with an element of rank r-1 for r=2,3; tripartite with a product '
                'vector) hidden by a unimodular basis change and handed over as an orthonormal basis: no positive certificate; numerical range: every 2x2 Gaussian-integer block with rational support function in the axis directions and direct sums of size 3, 5, 6 (plus rational Householder similarity): returned point attains the exact support function and no point lies outside; distinct by instance' % (3 if quick else 4))
    ctx.assumptions = ['TLC/SANY correct', 'the orthonormal basis handed to the certificates is computed by numpy QR in the harness (the property excludes unnormalised generators)']
    ctx.not_covered = ['numerical-range support points in non-axis directions and of matrices whose support function is irrational', 'SDP-based joint numerical ranges', 'orthonormality of the complement among itself (not part of the property)']
    ctx.tolerances = dict(frame_scale=SCALE, gram_tolerance=TOL_GRAM / SCALE ** 2, residual_tolerance=TOL_RES / SCALE ** 2)
    r = tlc.run('contract/MC_MatrixSpace.tla', 'contract/MC_MatrixSpace_%s.cfg' % ('q' if quick else 't'), dump=True, timeout=3000)
    ctx.add_model('MC_MatrixSpace', r)
    s1 = list(tlc.parse_dump(r))
    ev1, meta1 = run_basis(ctx, s1)
    r = tlc.run('contract/MC_Planted.tla', 'contract/MC_Planted_%s.cfg' % ('q' if quick else 't'), dump=True, timeout=3000)
    ctx.add_model('MC_Planted', r)
    s2 = list(tlc.parse_dump(r))
    ev2, meta2 = run_planted(ctx, s2, quick)
    ev = ev1 + [{k: v for k, v in e.items() if k not in ('fn', 'bound')} for e in ev2]
    acc, rej, results = tlc.validate_events('contract/Trace_MatrixSpace.tla', 'contract/Trace_MatrixSpace.cfg', ev, shards=16)
    for r in results:
        ctx.states += r.distinct
        ctx.transitions += r.generated
    ctx.models.append(dict(model='Trace_MatrixSpace', events=len(ev), accepted=acc, rejected=len(rej), exhaustive=False))
    ctx.traces += len(ev)
    for gi, info in rej:
        if gi < len(ev1):
            m = meta1[gi]
            ctx.violation('C20:get_matrix_orthogonal_basis:%s' % m['cls'], 'rejected clause: %s; exact values %s, returned %s' % (info[-1], m['expected'], m['got']), m)
        else:
            e, m = ev2[gi - len(ev1)], meta2[gi - len(ev1)]
            ctx.violation('C20:%s:unsound-certificate' % e['fn'].split('(')[0], '%s certified a subspace that contains a planted element of rank %d < %d%s' % (e['fn'], e['r'] - 1, e['r'], (' (bound %s)' % e['bound']) if 'bound' in e else ''), m)
    run_numrange(ctx, quick)
    ctx.sample(dict(kind='basis-event', cls=meta1[10]['cls'], expected=meta1[10]['expected'], got=meta1[10]['got']))
    ctx.sample(dict(kind='planted-event', meta=meta2[0], fn=ev2[0]['fn'], certified=ev2[0]['certified']))


def replay(ctx, rec):
    print('replay', rec['key'], rec['what'], rec['data'])
    return 0
