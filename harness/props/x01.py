"""X01 - specification coverage BEYOND the listed properties (not registered in MANIFEST.json; `./check X01`).
The specifications keep growing to cover more of numqi's behaviour; parts that belong to none of C01..C20 are decided here, so
that a defect in them can never be reported against a listed property.
specs: specs/extra/{MC_Qudit,MC_SymplecticGS,MC_PauliOrbit,MC_SymBasis,MC_SchurWeyl,MC_GroupMisc,MC_ClosedGME,MC_IndexStore,MC_Query,MC_LocalBasis,MC_VectorSpace}.tla"""
import itertools, math, random
import numpy as np
from .. import tlc, core
from ..qsim import zo_mat

TOL = 1e-9


def run_qudit(ctx):
    import numqi
    r = tlc.run('extra/MC_Qudit.tla', 'extra/MC_Qudit.cfg', dump=True, timeout=600)
    ctx.add_model('MC_Qudit(d=2,4,8)', r)
    for st in tlc.parse_dump(r):
        d = st['d']
        ctx.case(('qudit', d))
        want = dict(get_quditX=zo_mat(st['X']), get_quditZ=zo_mat(st['Z']), get_quditH=zo_mat(st['H']) / math.sqrt(d))
        for fn, w in want.items():
            try:
                got = getattr(numqi.gate, fn)(d)
                if np.asarray(got).shape != w.shape or core.gt(np.abs(got - w).max(), TOL):
                    ctx.violation('X01:%s:matrix' % fn, '%s(%d) differs from the Weyl-Heisenberg matrix of the specification' % (fn, d), dict(d=d))
            except Exception as ex:
                ctx.violation('X01:%s:exception' % fn, type(ex).__name__ + ': ' + str(ex)[:160], dict(d=d))
        ctx.traces += 1


def run_symplectic_gs(ctx, quick):
    from numqi.group import spf2
    r = tlc.run('extra/MC_SymplecticGS.tla', 'extra/MC_SymplecticGS_%s.cfg' % ('q' if quick else 't'), dump=True, timeout=3000)
    ctx.add_model('MC_SymplecticGS', r)
    n = 2

    def form(u, v):
        return int((np.dot(u[:n], v[n:]) + np.dot(u[n:], v[:n])) % 2)
    for st in tlc.parse_dump(r):
        vs = [np.array(v, dtype=np.uint8) for v in st['vs']]
        m = st['m']
        data = dict(vectors=[list(map(int, v)) for v in vs], pairs_expected=m)
        ctx.case(('sgs', tuple(tuple(int(x) for x in v) for v in vs)))
        try:
            out = spf2.schmidt_orthogonalization([v.copy() for v in vs])
            out = [np.asarray(x, dtype=np.uint8) for x in out]
            if len(out) != 2 * m:
                ctx.violation('X01:schmidt_orthogonalization:pairs', 'number of hyperbolic pairs differs from rank(Gram)/2', dict(data, got=len(out)))
                continue
            es, fs = out[:m], out[m:]
            ok = all(form(es[i], fs[j]) == (1 if i == j else 0) for i in range(m) for j in range(m)) and \
                all(form(es[i], es[j]) == 0 and form(fs[i], fs[j]) == 0 for i in range(m) for j in range(m))
            if not ok:
                ctx.violation('X01:schmidt_orthogonalization:symplectic-basis', 'output is not a family of hyperbolic pairs', data)
            # every output vector lies in the span of the inputs
            span = {tuple(int(x) for x in (sum((c * v for c, v in zip(cs, vs)), np.zeros(2 * n, dtype=np.int64)) % 2)) for cs in itertools.product([0, 1], repeat=len(vs))}
            if any(tuple(int(x) for x in o) not in span for o in out):
                ctx.violation('X01:schmidt_orthogonalization:span', 'an output vector is outside the span of the inputs', data)
            if any(not np.array_equal(a, b) for a, b in zip(vs, [np.array(v, dtype=np.uint8) for v in st['vs']])):
                ctx.violation('X01:schmidt_orthogonalization:mutates-input', 'the input vectors were modified', data)
            ctx.traces += 1
        except Exception as ex:
            ctx.violation('X01:schmidt_orthogonalization:exception', type(ex).__name__ + ': ' + str(ex)[:160], data)


def run_pauli_orbit(ctx, quick):
    """orbits of sets of two-qubit Paulis under the Clifford group: TLC enumerates Sp(4,F2) by brute force and forms the orbit"""
    import numqi
    from ..qsim import setof
    r = tlc.run('extra/MC_PauliOrbit.tla', 'extra/MC_PauliOrbit.cfg', dump=True, timeout=1200)
    ctx.add_model('MC_PauliOrbit(n=2)', r)
    states = list(tlc.parse_dump(r))
    if quick:
        states = sorted(states, key=lambda st: sorted(setof(st['subset'])))[::3]
    for st in states:
        sub = tuple(sorted(setof(st['subset'])))
        orb = st['orbit']
        want = {tuple(sorted(setof(t))) for t in (orb[1] if isinstance(orb, tuple) else orb)}
        ctx.case(('orbit', sub))
        try:
            got = numqi.gate.get_pauli_subset_equivalent(sub, 2)
            got = {tuple(int(x) for x in t) for t in got}
            if got != want:
                ctx.violation('X01:get_pauli_subset_equivalent:orbit', 'orbit of the subset differs from its orbit under Sp(4,F2) (missing %d, extra %d)' % (len(want - got), len(got - want)), dict(subset=list(sub)))
            ctx.traces += 1
        except Exception as ex:
            ctx.violation('X01:get_pauli_subset_equivalent:exception', type(ex).__name__ + ': ' + str(ex)[:160], dict(subset=list(sub)))


def run_pauli_exponential(ctx):
    """exp(i a n.sigma) on the axis grid: a in multiples of pi/4, n along +-x, +-y, +-z - the closed form cos a + i sin a n.sigma
    (a two-line specification; the exact values are in Z[w]/sqrt2)"""
    import numqi
    X = np.array([[0, 1], [1, 0]], dtype=complex); Y = np.array([[0, -1j], [1j, 0]]); Z = np.diag([1.0 + 0j, -1])
    axes = {(math.pi / 2, 0.0): X, (math.pi / 2, math.pi / 2): Y, (0.0, 0.0): Z, (math.pi, 0.0): -Z, (math.pi / 2, math.pi): -X, (math.pi / 2, 3 * math.pi / 2): -Y}
    for k in range(8):
        a = k * math.pi / 4
        for (th, ph), S in axes.items():
            ctx.case(('pexp', k, th, ph))
            want = math.cos(a) * np.eye(2) + 1j * math.sin(a) * S
            try:
                got = numqi.gate.pauli_exponential(a, th, ph)
                if core.gt(np.abs(got - want).max(), TOL):
                    ctx.violation('X01:pauli_exponential:axis-grid', 'exp(i a n.sigma) differs from cos a + i sin a n.sigma', dict(a_quarter_pi=k, theta=th, phi=ph))
            except Exception as ex:
                ctx.violation('X01:pauli_exponential:exception', type(ex).__name__ + ': ' + str(ex)[:160], dict(a_quarter_pi=k))


def run_symbasis(ctx, quick):
    """symmetric / antisymmetric bases of (C^d)^{(x) r}: the matrices of MC_SymBasis against get_symmetric_basis / get_antisymmetric_basis,
    then every other route of numqi.matrix_space to the same projections (nd-tensor, product vectors, pairs of matrices, repeated
    factors, the mixed antisymmetric-symmetric projection of the rank hierarchy) against the specification's matrices"""
    import functools
    import numqi
    MS = numqi.matrix_space
    r = tlc.run('extra/MC_SymBasis.tla', 'extra/MC_SymBasis.cfg', dump=True, timeout=900)
    ctx.add_model('MC_SymBasis', r)
    spec = {}
    for st in tlc.parse_dump(r):
        d, rk, kind = st['d'], st['r'], st['kind']
        M = np.zeros((len(st['rows']), d ** rk))
        for i, row in enumerate(st['rows']):
            for f, sg, num, den in (row[1] if isinstance(row, tuple) else row):
                M[i, f] = sg * math.sqrt(num / den)
        spec[(kind, d, rk)] = M
    rng = np.random.default_rng(ctx.seed + 11)
    kron = lambda xs: functools.reduce(np.kron, xs)

    def cmp(key, what, got, want, data):
        got = np.asarray(got)
        if got.shape != want.shape or core.gt(np.abs(got - want).max(), 1e-10):
            ctx.violation('X01:%s' % key, what, data)
    for (kind, d, rk), B in sorted(spec.items()):
        data = dict(kind=kind, dim=d, rank=rk)
        ctx.case(('symbasis', kind, d, rk))
        try:
            if kind == 'sym':
                cmp('get_symmetric_basis:matrix', 'get_symmetric_basis(%d,%d) differs from the basis of the specification' % (d, rk), MS.get_symmetric_basis(d, rk), B, data)
            else:
                cmp('get_antisymmetric_basis:matrix', 'get_antisymmetric_basis(%d,%d) differs from the basis of the specification' % (d, rk), MS.get_antisymmetric_basis(d, rk), B, data)
            f_nd = MS.project_nd_tensor_to_symmetric_basis if kind == 'sym' else MS.project_nd_tensor_to_antisymmetric_basis
            f_pr = MS.project_to_symmetric_basis if kind == 'sym' else MS.project_to_antisymmetric_basis
            T = rng.integers(-3, 4, size=[d] * rk).astype(np.float64)
            cmp('project_nd_tensor:%s' % kind, 'projection of an nd tensor differs from basis @ tensor', f_nd(T, rk), B @ T.reshape(-1), data)
            for nb in (1, 3):
                Tb = rng.integers(-3, 4, size=[d] * rk + [nb]).astype(np.float64)
                cmp('project_nd_tensor:%s:batch' % kind, 'projection of a batch of nd tensors differs from basis @ tensor', f_nd(Tb, rk), B @ Tb.reshape(-1, nb), dict(data, batch=nb))
                vs = [rng.integers(-3, 4, size=(d, nb)).astype(np.float64) for _ in range(rk)]
                want = np.stack([B @ kron([v[:, b] for v in vs]) for b in range(nb)], axis=1)
                cmp('project_product:%s' % kind, 'projection of a product of vectors differs from basis @ kron(vectors)', np.asarray(f_pr(vs)).reshape(want.shape), want, dict(data, batch=nb))
            if kind == 'sym' and rk >= 2:
                # repeated factors: INDEX names which vector sits in which slot
                vs = [rng.integers(-3, 4, size=(d, 2)).astype(np.float64) for _ in range(rk)]
                for INDEX in sorted(set(itertools.combinations_with_replacement(range(rk), rk)))[:40]:
                    want = np.stack([B @ kron([vs[i][:, b] for i in INDEX]) for b in range(2)], axis=1)
                    cmp('project_product:sym:repeated', 'project_to_symmetric_basis with repeated factors differs from basis @ kron(vectors)', MS.project_to_symmetric_basis(vs, INDEX), want, dict(data, INDEX=list(INDEX)))
            ctx.traces += 1
        except Exception as ex:
            ctx.violation('X01:symbasis:exception', type(ex).__name__ + ': ' + str(ex)[:160], data)
    # pairs of matrices: antisym(A) (x) antisym(B), also with repeated factors
    for dA, dB, rk in [(2, 2, 2), (3, 2, 2), (2, 3, 2), (3, 3, 2), (3, 4, 3), (4, 3, 3), (4, 4, 2)] + ([] if quick else [(4, 4, 3), (4, 4, 4), (3, 3, 3)]):
        data = dict(dimA=dA, dimB=dB, rank=rk)
        ctx.case(('tensor2d', dA, dB, rk))
        try:
            A0, A1 = spec[('anti', dA, rk)], spec[('anti', dB, rk)]
            Ms = [rng.integers(-3, 4, size=(dA, dB)).astype(np.float64) for _ in range(rk)]
            cmp('tensor2d_project_to_antisym_basis', 'differs from A0 @ kron(matrices) @ A1^T', MS.tensor2d_project_to_antisym_basis(Ms), A0 @ kron(Ms) @ A1.T, data)
            for INDEX in sorted(set(itertools.combinations_with_replacement(range(rk), rk)) | {tuple(rng.integers(0, rk, size=rk).tolist()) for _ in range(4)}):
                cmp('tensor2d_project_to_antisym_basis:INDEX', 'with INDEX (repeated / permuted factors) differs from A0 @ kron(matrices[INDEX]) @ A1^T',
                    MS.tensor2d_project_to_antisym_basis(Ms, list(INDEX)), A0 @ kron([Ms[i] for i in INDEX]) @ A1.T, dict(data, INDEX=list(INDEX)))
            ctx.traces += 1
        except Exception as ex:
            ctx.violation('X01:tensor2d_project_to_antisym_basis:exception', type(ex).__name__ + ': ' + str(ex)[:160], data)
    # the mixed projection of the hierarchy: antisymmetric on r+1 factors, symmetric on all r+k factors of C^dA (x) C^dB
    for dA, dB, r_, k in [(2, 2, 1, 2)] + ([] if quick else [(2, 2, 1, 3), (3, 2, 1, 2)]):
        data = dict(dimA=dA, dimB=dB, r=r_, k=k)
        n = r_ + k
        if ('sym', dA * dB, n) not in spec and dA * dB > 4:
            continue
        ctx.case(('mixed', dA, dB, r_, k))
        try:
            S = spec[('sym', dA * dB, n)]
            N0 = S.shape[0]
            z0 = S.reshape([N0] + [x for _ in range(n) for x in (dA, dB)]).transpose([0] + list(range(1, 2 * n + 1, 2)) + list(range(2, 2 * n + 1, 2))).reshape(N0, -1)
            z1, z2 = spec[('anti', dA, r_ + 1)], spec[('anti', dB, r_ + 1)]
            proj = np.einsum(z0, [0, 7], z0.reshape(N0, dA ** (r_ + 1), dA ** (k - 1), dB ** (r_ + 1), dB ** (k - 1)), [0, 1, 2, 3, 4], z1, [5, 1], z2, [6, 3], [5, 2, 6, 4, 7], optimize=True).reshape(-1, z0.shape[1])
            Ms = [rng.integers(-3, 4, size=(dA, dB)).astype(np.float64) for _ in range(n)]
            full = kron([m.reshape(-1) for m in Ms]).reshape([dA, dB] * n).transpose(list(range(0, 2 * n, 2)) + list(range(1, 2 * n, 2))).reshape(-1)
            want = proj @ full
            cmp('naive_tensor2d_project_to_sym_antisym_basis', 'differs from the projector assembled from the bases of the specification', MS.naive_tensor2d_project_to_sym_antisym_basis(Ms, r_), want, data)
            ret0, ret1 = MS.tensor2d_project_to_sym_antisym_basis(Ms, r_)
            got = np.einsum(ret0, [0, 1, 2], ret1, [3, 2], [0, 1, 3], optimize=True)
            Sk = spec[('sym', dA * dB, k - 1)] if k > 1 else None
            basis = Sk.reshape([-1] + [x for _ in range(k - 1) for x in (dA, dB)]).transpose([0] + [2 * x + 1 for x in range(k - 1)] + [2 * x + 2 for x in range(k - 1)]).reshape(-1, (dA * dB) ** (k - 1))
            got = (got @ basis).reshape(got.shape[:2] + (dA ** (k - 1), dB ** (k - 1))).transpose(0, 2, 1, 3).reshape(-1)
            cmp('tensor2d_project_to_sym_antisym_basis', 'the fast mixed projection differs from the projector assembled from the bases of the specification', got, want, data)
            ctx.traces += 1
        except Exception as ex:
            ctx.violation('X01:tensor2d_project_to_sym_antisym_basis:exception', type(ex).__name__ + ': ' + str(ex)[:160], data)


def run_schurweyl(ctx, quick):
    """get_sud_symmetric_irrep_basis / get_symmetric_extension_irrep_coeff against the Schur-Weyl table of MC_SchurWeyl (diagrams with at
    most d rows in the library's order, f_lambda copies of dimension dim W_lambda), then what makes the blocks usable in the extension
    SDPs: orthonormal and complete, every copy invariant under U^{(x)k} with the SAME representation matrix, partial trace of the
    coefficient tensor = f_lambda * identity"""
    import functools
    import numqi
    SE = numqi.group.symext
    r = tlc.run('extra/MC_SchurWeyl.tla', 'extra/MC_SchurWeyl.cfg', dump=True, timeout=600)
    ctx.add_model('MC_SchurWeyl', r)
    rng = np.random.default_rng(ctx.seed + 5)
    for st in sorted(tlc.parse_dump(r), key=lambda st: (st['d'], st['k'])):
        d, k, table = st['d'], st['k'], st['table']
        if d ** k > (100 if quick else 256):
            continue
        data = dict(dim=d, kext=k, table=[[list(t[0]), t[1], t[2]] for t in table])
        ctx.case(('schurweyl', d, k))
        try:
            basis = SE.get_sud_symmetric_irrep_basis(d, k)
            got = [[len(x), x[0].shape[0]] for x in basis]
            want = [[t[1], t[2]] for t in table]
            if got != want or any(y.shape != (t[2], d ** k) for x, t in zip(basis, table) for y in x):
                ctx.violation('X01:get_sud_symmetric_irrep_basis:table', 'number of copies / dimensions %s differ from the Schur-Weyl table %s' % (got, want), data)
                continue
            allb = np.concatenate([y for x in basis for y in x], axis=0)
            if allb.shape[0] != d ** k or core.gt(np.abs(allb @ allb.conj().T - np.eye(d ** k)).max(), 1e-9):
                ctx.violation('X01:get_sud_symmetric_irrep_basis:orthonormal', 'the blocks together are not an orthonormal basis of (C^d)^k', data)
            U = numqi.random.rand_haar_unitary(d, seed=int(rng.integers(1 << 30)))
            Uk = functools.reduce(np.kron, [U] * k)
            for x, t in zip(basis, table):
                reps = [y.conj() @ Uk @ y.T for y in x]
                for y, R in zip(x, reps):
                    if core.gt(np.abs(Uk @ y.T - y.T @ R).max(), 1e-8):
                        ctx.violation('X01:get_sud_symmetric_irrep_basis:invariant', 'a copy of W_lambda is not invariant under U^{(x)k}', dict(data, shape=list(t[0])))
                        break
                if any(core.gt(np.abs(R - reps[0]).max(), 1e-8) for R in reps[1:]):
                    ctx.violation('X01:get_sud_symmetric_irrep_basis:equivalent-copies', 'the copies of W_lambda carry different representation matrices (one SDP block per diagram needs identical ones)', dict(data, shape=list(t[0])))
            coeff, mult = SE.get_symmetric_extension_irrep_coeff(d, k)
            if d == 2:
                ok = len(coeff) == 1 and tuple(mult) == (1,) and coeff[0].shape == (k + 1, k + 1, 2, 2) and not core.gt(np.abs(np.einsum('abii->ab', coeff[0]) - np.eye(k + 1)).max(), 1e-9)
            else:
                ok = list(mult) == [t[1] for t in table] and all(c.shape == (t[2], t[2], d, d) for c, t in zip(coeff, table)) and \
                    not any(core.gt(np.abs(np.einsum('abii->ab', c) - t[1] * np.eye(t[2])).max(), 1e-9) for c, t in zip(coeff, table))
            if not ok:
                ctx.violation('X01:get_symmetric_extension_irrep_coeff:trace', 'multiplicities / shapes / partial trace of the coefficient tensors differ from the Schur-Weyl table', data)
            ctx.traces += 1
        except Exception as ex:
            ctx.violation('X01:schurweyl:exception', type(ex).__name__ + ': ' + str(ex)[:160], data)


def run_groupmisc(ctx, quick):
    """MC_GroupMisc: cycle notation, conjugate partitions, totient / primality, Young symmetrizers"""
    import numqi
    elems = lambda v: list(v[1]) if isinstance(v, tuple) else list(v)
    G = numqi.group
    r = tlc.run('extra/MC_GroupMisc.tla', 'extra/MC_GroupMisc.cfg', dump=True, timeout=1200)
    ctx.add_model('MC_GroupMisc', r)
    for st in tlc.parse_dump(r):
        kind, o = st['kind'], st['obj']
        try:
            if kind == 'perm':
                p = tuple(o['p'])
                ctx.case(('perm', p))
                cyc = G.permutation_to_cycle_notation(p)
                want = {frozenset(elems(x)) for x in elems(o['orbits'])}
                ok = {frozenset(c) for c in cyc} == want and sum(len(c) for c in cyc) == len(p) and all(p[c[i]] == c[(i + 1) % len(c)] for c in cyc for i in range(len(c)))
                if not ok:
                    ctx.violation('X01:permutation_to_cycle_notation', 'cycles %s are not the orbits of %s traversed along the permutation' % (cyc, p), dict(perm=list(p)))
            elif kind == 'partition':
                sh = tuple(o['sh'])
                ctx.case(('partition', sh))
                got = [int(x) for x in G.get_young_diagram_transpose(sh)]
                mask = np.asarray(G.get_young_diagram_mask(sh)).astype(int)
                if got != list(o['conj']) or mask.sum(axis=1).tolist() != list(sh) or mask.sum(axis=0).tolist() != list(o['conj']):
                    ctx.violation('X01:get_young_diagram_transpose', 'conjugate partition / mask of %s differ from the specification (%s)' % (sh, list(o['conj'])), dict(shape=list(sh)))
                G.check_young_diagram(sh)
                if len(sh) >= 2 and sh[0] > sh[-1]:
                    try:
                        G.check_young_diagram(tuple(reversed(sh)))
                        ctx.violation('X01:check_young_diagram', 'an increasing sequence %s passes as a Young diagram' % (tuple(reversed(sh)),), dict(shape=list(reversed(sh))))
                    except AssertionError:
                        pass
            elif kind == 'number':
                n = o['n']
                ctx.case(('number', n))
                if int(G.hf_Euler_totient(n)) != o['phi'] or bool(G.hf_is_prime(n)) != o['prime']:
                    ctx.violation('X01:hf_Euler_totient/hf_is_prime', 'totient / primality of %d differ from the specification' % n, dict(n=n))
            else:
                sh = tuple(o['sh'])
                ctx.case(('symmetrizer', sh))
                terms = {(tuple(t[0]), t[1]) for t in elems(o['terms'])}
                tabs = np.asarray(G.get_all_young_tableaux(sh))
                mask = np.asarray(G.get_young_diagram_mask(sh)).astype(bool)
                for ti, T in enumerate(tabs[:6]):
                    op, sg = G.young_tableau_to_young_symmetrizer(sh, T)
                    got = {(tuple(int(x) for x in a), int(b)) for a, b in zip(np.asarray(op), np.asarray(sg))}
                    sigma = [int(x) for x in T[mask]]               # label of the box that carries label i in the first tableau
                    inv = np.argsort(sigma)
                    want = {(tuple(int(sigma[t[int(inv[i])]]) for i in range(len(sigma))), s_) for t, s_ in terms}
                    if got != want or len(op) != len(terms):
                        ctx.violation('X01:young_tableau_to_young_symmetrizer', 'terms of the Young symmetrizer of shape %s, tableau %d differ from sum_q sum_p sign(q) q.p of the specification' % (sh, ti), dict(shape=list(sh), tableau=ti))
                        break
            ctx.traces += 1
        except Exception as ex:
            ctx.violation('X01:groupmisc:exception', type(ex).__name__ + ': ' + str(ex)[:160], dict(kind=kind))
    # group algebra product on the Cayley tables of the library: (sum a_g g)(sum b_h h) = sum a_g b_h gh
    rng = np.random.default_rng(ctx.seed + 3)
    for name, tab in [('S3', G.get_symmetric_group_cayley_table(3)), ('D4', G.get_dihedral_group_cayley_table(4)), ('Q8', G.get_quaternion_cayley_table()), ('C5', G.get_cyclic_group_cayley_table(5))]:
        tab = np.asarray(tab)
        n = len(tab)
        ctx.case(('algebra', name))
        for shape in [(n,), (3, n)]:
            a, b = rng.integers(-3, 4, size=shape), rng.integers(-3, 4, size=shape)
            want = np.zeros(shape, dtype=np.int64)
            for g in range(n):
                for h in range(n):
                    want[..., tab[g, h]] += a[..., g] * b[..., h]
            try:
                got = G.group_algebra_product(a, b, tab)
                got2 = G.group_algebra_product(a, b, G.get_index_cayley_table(tab), use_index=True)
                if not np.array_equal(np.asarray(got), want) or not np.array_equal(np.asarray(got2), want):
                    ctx.violation('X01:group_algebra_product', 'product in the group algebra of %s differs from sum a_g b_h [gh]' % name, dict(group=name, shape=list(shape)))
            except Exception as ex:
                ctx.violation('X01:group_algebra_product:exception', type(ex).__name__ + ': ' + str(ex)[:160], dict(group=name))


def run_closed_gme(ctx):
    """MC_ClosedGME: closed-form geometric measures of W-type and Dicke states against the exact rational values"""
    import numqi
    r = tlc.run('extra/MC_ClosedGME.tla', 'extra/MC_ClosedGME.cfg', dump=True, timeout=1200)
    ctx.add_model('MC_ClosedGME', r)
    for st in tlc.parse_dump(r):
        want = st['val'][0] / st['val'][1]
        ctx.case(('closedgme', st['kind'], tuple(st['arg'])))
        try:
            if st['kind'] == 'wtype':
                A, B, C = st['arg']
                t = A + B + C
                got = numqi.state.get_Wtype_state_GME(math.sqrt(A / t), math.sqrt(B / t), math.sqrt(C / t))
            else:
                got = numqi.state.get_qubit_dicke_state_GME(*st['arg'])
            if core.gt(abs(float(got) - want), 1e-9):
                ctx.violation('X01:closed-gme:%s' % st['kind'], 'closed-form geometric measure %r differs from the exact value %d/%d (arguments %s)' % (float(got), st['val'][0], st['val'][1], st['arg']), dict(kind=st['kind'], arg=list(st['arg'])))
            ctx.traces += 1
        except Exception as ex:
            ctx.violation('X01:closed-gme:exception', type(ex).__name__ + ': ' + str(ex)[:160], dict(kind=st['kind'], arg=list(st['arg'])))


def run_index_store(ctx, quick):
    """MC_IndexStore: histories of save / remove / read on the JSON index store of numqi.unique_determine, replayed on a scratch file;
    after every step the reply (and the file read back in full) must equal the ordered view of the specification"""
    import json, os, tempfile
    import numqi
    U = numqi.unique_determine
    r = tlc.run('extra/MC_IndexStore.tla', 'extra/MC_IndexStore.cfg', timeout=1200)
    ctx.add_model('MC_IndexStore(MaxOps=3)', r)
    r = tlc.run('extra/MC_IndexStore.tla', 'extra/MC_IndexStore_sim.cfg', simulate=dict(num=40 if quick else 400, file=True), depth=13, seed=ctx.seed + 9, workers=4, timeout=1200)
    ctx.add_model('MC_IndexStore(sim)', r, exhaustive=False)
    tmpdir = tempfile.mkdtemp(prefix='numqi-verif-store-')
    try:
        for fi, f in enumerate(r.sim_files):
            beh = tlc.parse_behaviour(f)
            path = os.path.join(tmpdir, 'store%d.json' % fi)
            hist = []
            ctx.case(('store', fi, repr([st[1]['last'] for st in beh[1:]])))
            for step, (_, st) in enumerate(beh[1:]):
                last = st['last']
                op, key, batch, view = last['op'], last['key'], [list(b) for b in last['batch']], [list(v) for v in last['view']]
                hist.append([op, key, batch])
                try:
                    fmt = (fi + step) % 3
                    if len(batch) == 1 and fmt == 0:
                        arg = list(reversed(batch[0])) + batch[0][:1]                  # list[int], unsorted with a repeat
                    elif fmt == 1:
                        arg = [' '.join(str(x) for x in reversed(b)) for b in batch]     # list[str]
                    else:
                        arg = [list(reversed(b)) + b[:1] for b in batch]                # list[list[int]]
                    if op == 'save':
                        got = U.save_index_to_file(path, key, arg)
                    elif op == 'remove':
                        if not os.path.exists(path):
                            U.save_index_to_file(path, key, None) if False else open(path, 'w').write('{}')     # the documented precondition: the file exists
                        U.remove_index_from_file(path, key, arg)
                        got = U.save_index_to_file(path, key)
                    else:
                        got = U.save_index_to_file(path, key)
                    got = [list(x) for x in got]
                    whole = U.save_index_to_file(path) if os.path.exists(path) else {}
                    el = lambda v: list(v[1]) if isinstance(v, tuple) else list(v)
                    stored = {k: sorted(sorted(el(x)) for x in el(v)) for k, v in st['store'].items()}
                    ok_all = all(sorted(list(x) for x in whole.get(k, [])) == sorted(list(x) for x in v) for k, v in stored.items())
                    if got != view or not ok_all:
                        ctx.violation('X01:index-store:%s' % op, 'after %s the store replies %s, the specification says %s' % (op, got, view), dict(history=hist))
                        break
                except Exception as ex:
                    ctx.violation('X01:index-store:exception', type(ex).__name__ + ': ' + str(ex)[:160], dict(history=hist))
                    break
            ctx.traces += 1
    finally:
        import shutil
        shutil.rmtree(tmpdir, ignore_errors=True)


def run_query(ctx):
    """MC_Query: the discrete helpers of numqi.query.utils and numqi.utils (bit tables, Hamming maps, block measurement matrix,
    register sizing, complex<->real block embedding); every state of the model is one call replayed into the code"""
    import numqi, torch
    from ..qsim import setof
    Q = numqi.query.utils
    r = tlc.run('extra/MC_Query.tla', 'extra/MC_Query.cfg', dump=True, timeout=900)
    ctx.add_model('MC_Query', r)

    def gmat(A):
        return np.array([[complex(e[0], e[1]) for e in row] for row in A])
    for st in tlc.parse_dump(r):
        i, out = st['inst'], st['out']
        kind = i['kind']
        reject = (not isinstance(out, (tuple, list))) and out == -1 and kind != 'hamming'
        data = {k: (sorted(setof(v)) if k == 'S' else v) for k, v in i.items()}
        ctx.case(('query', repr(sorted(data.items(), key=lambda kv: kv[0]))))
        try:
            try:
                if kind == 'xbit':
                    got = [Q.get_xbit(i['m'], i['n'])]
                elif kind == 'hamming':
                    got = [Q.get_hamming_weight(i['x'])]
                elif kind == 'modmap':
                    got = [Q.get_hamming_modulo_map(i['nb'], i['q'])]
                elif kind == 'exactmap':
                    S = sorted(setof(i['S']))
                    got = [Q.get_exact_map(i['nb'], S), Q.get_exact_map(i['nb'], np.array(S[::-1] + S[:1]))]
                elif kind == 'measure':
                    got = [Q.get_measure_matrix(np.array(i['bm']), list(i['part'])), Q.get_measure_matrix(np.array(i['bm'], dtype=np.uint8), np.array(i['part']))]
                elif kind == 'numqubit':
                    got = [numqi.utils.hf_num_state_to_num_qubit(i['N'], i['how']), numqi.utils.hf_num_state_to_num_qubit(np.int64(i['N']), kind=i['how'])]
                else:
                    A, B = gmat(i['A']), gmat(i['B'])
                    AB = A @ B
                    got = []
                    for arrs in ((A, B, AB), (torch.tensor(A), torch.tensor(B), torch.tensor(AB))):
                        rr = [numqi.utils.hf_complex_to_real(x) for x in arrs]
                        got.append(tuple(np.asarray(x) for x in rr))
                        for x, y in zip(arrs, rr):
                            back = np.asarray(numqi.utils.hf_real_to_complex(y))
                            if back.shape != tuple(x.shape) or core.gt(np.abs(back - np.asarray(x)).max(), TOL):
                                ctx.violation('X01:hf_real_to_complex:left-inverse', 'hf_real_to_complex(hf_complex_to_real(A)) differs from A', data)
                    # batch: a stack of [A, 2A] must map to the stack of the images
                    stk = np.stack([A, 2 * A]).reshape(2, 1, *A.shape)
                    img = numqi.utils.hf_complex_to_real(stk)
                    w0 = np.array(out[0], dtype=np.float64)
                    if img.shape != (2, 1) + w0.shape or core.gt(np.abs(img[0, 0] - w0).max(), TOL) or core.gt(np.abs(img[1, 0] - 2 * w0).max(), TOL):
                        ctx.violation('X01:hf_complex_to_real:batch', 'a batched call does not return the stack of the block embeddings', data)
            except AssertionError:
                got = 'reject'
            if reject:
                if got != 'reject':
                    ctx.violation('X01:query-%s:precondition' % kind, 'the documented precondition fails but the call returned a value', data)
            elif got == 'reject':
                ctx.violation('X01:query-%s:rejected' % kind, 'a legal call was rejected', data)
            elif kind == 'c2r':
                for g in got:
                    for gg, w in zip(g, out):
                        w = np.array(w, dtype=np.float64)
                        if gg.shape != w.shape or np.iscomplexobj(gg) or core.gt(np.abs(gg - w).max(), TOL):
                            ctx.violation('X01:hf_complex_to_real:value', 'the image differs from the block matrix [[R,-J],[J,R]] of the specification', data)
            else:
                w = np.array(out, dtype=np.int64)
                for g in got:
                    g = np.asarray(g)
                    if g.shape != w.shape or not np.array_equal(g.astype(np.int64), w) or (g.dtype.kind == 'f' and core.gt(np.abs(g - w).max(), 0)):
                        ctx.violation('X01:query-%s:value' % kind, 'the returned table differs from the specification', dict(data, got=g.tolist()[:8] if g.ndim else int(g)))
            ctx.traces += 1
        except Exception as ex:
            ctx.violation('X01:query-%s:exception' % kind, type(ex).__name__ + ': ' + str(ex)[:160], data)


def run_localbasis(ctx):
    """MC_LocalBasis: the nearest-neighbour two-local Pauli operator basis of an open qubit chain, with and without the identity"""
    import numqi
    r = tlc.run('extra/MC_LocalBasis.tla', 'extra/MC_LocalBasis.cfg', dump=True, timeout=900)
    ctx.add_model('MC_LocalBasis(n<=4)', r)
    for st in tlc.parse_dump(r):
        n, with_i = st['inst']['n'], bool(st['inst']['withI'])
        data = dict(num_qubit=n, with_I=with_i)
        ctx.case(('localbasis', n, with_i))
        try:
            got = np.asarray(numqi.maximum_entropy.get_1dchain_2local_pauli_basis(n, with_I=with_i))
            want = np.array([[[complex(e[0], e[1]) for e in row] for row in m] for m in st['out']])
            if got.shape != want.shape or core.gt(np.abs(got - want).max(), TOL):
                ctx.violation('X01:get_1dchain_2local_pauli_basis:value', 'the operator list differs from the specification (order: bond, then Pauli pair II<IX<..<ZZ without II)', data)
            ctx.traces += 1
        except Exception as ex:
            ctx.violation('X01:get_1dchain_2local_pauli_basis:exception', type(ex).__name__ + ': ' + str(ex)[:160], data)


def run_vectorspace(ctx, quick):
    """MC_VectorSpace: exact ranks of families of Gaussian-integer vectors (over C and over R) against the vector-space helpers of
    numqi.matrix_space: linear independence, reduction to an orthonormal family, orthogonal complement, equality of spans"""
    import numqi
    MS = numqi.matrix_space
    r = tlc.run('extra/MC_VectorSpace.tla', 'extra/MC_VectorSpace.cfg', dump=True, timeout=1800)
    ctx.add_model('MC_VectorSpace(M=3)', r)
    states = list(tlc.parse_dump(r))
    states.sort(key=lambda st: repr(st['fam']))
    if quick:
        states = states[::4]
    arr = lambda F: np.array([[complex(e[0], e[1]) for e in v] for v in F])
    for st in states:
        V, W = arr(st['fam'][0]), arr(st['fam'][1])
        o = st['obs']
        m = V.shape[1]
        data = dict(V=st['fam'][0], W=st['fam'][1], ranks=o)
        ctx.case(('vecspace', repr(st['fam'])))
        try:
            bad = []
            if bool(MS.is_vector_linear_independent(V, 'complex')) != (o['rcV'] == len(V)):
                bad.append('is_vector_linear_independent(complex)')
            if bool(MS.is_vector_linear_independent(V, 'real')) != (o['rrV'] == len(V)):
                bad.append('is_vector_linear_independent(real)')
            R = np.asarray(MS.reduce_vector_space(V))
            if R.shape != (o['rcV'], m) or (len(R) and core.gt(np.abs(R.conj() @ R.T - np.eye(len(R))).max(), 1e-8)) \
                    or (len(R) and np.linalg.matrix_rank(np.vstack([V, R]), tol=1e-8) != o['rcV']):
                bad.append('reduce_vector_space')
            B = np.asarray(MS.get_vector_orthogonal_basis(V))
            if B.shape != (m - o['rcV'], m) or (len(B) and (core.gt(np.abs(B.conj() @ B.T - np.eye(len(B))).max(), 1e-8) or core.gt(np.abs(B.conj() @ V.T).max(), 1e-8))):
                bad.append('get_vector_orthogonal_basis')
            eqc = o['rcV'] == o['rcU'] and o['rcW'] == o['rcU']
            eqr = o['rrV'] == o['rrU'] and o['rrW'] == o['rrU']
            if bool(MS.is_vector_space_equivalent(V, W, 'complex')) != eqc:
                bad.append('is_vector_space_equivalent(complex)')
            if bool(MS.is_vector_space_equivalent(V, W, 'real')) != eqr:
                bad.append('is_vector_space_equivalent(real)')
            for b in bad:
                ctx.violation('X01:%s:rank' % b, '%s disagrees with the exact ranks of the specification' % b, data)
            ctx.traces += 1
        except Exception as ex:
            ctx.violation('X01:vector-space:exception', type(ex).__name__ + ': ' + str(ex)[:160], data)


def run(ctx):
    quick = ctx.tier == 'quick'
    ctx.rule = ('beyond the listed properties: Weyl-Heisenberg matrices d = 2, 4, 8 (commutation, order, Fourier relation as TLC invariants); symplectic Gram-Schmidt over F2 for every list of '
                '%d vectors of F2^4 (number of hyperbolic pairs = rank of the Gram matrix / 2, computed by TLC); Pauli exponential on the axis grid; orbits of two-qubit Pauli subsets under the Clifford group; the symmetric / antisymmetric bases of (C^d)^r for d <= 4, r <= 4 and every projection route of numqi.matrix_space built on them; the Schur-Weyl blocks of numqi.group.symext against the hook-length / hook-content table' % (4 if quick else 5))
    ctx.assumptions = ['TLC/SANY correct', 'tolerance 1e-9']
    ctx.not_covered = ['everything else outside C01..C20 (optimisers, maximum entropy, unique determination, query-complexity optimisation models, optimal control); covered since round 9: the discrete helpers of numqi.query.utils, register sizing and the complex<->real block embedding of numqi.utils (MC_Query)']
    run_qudit(ctx)
    run_symplectic_gs(ctx, quick)
    run_pauli_exponential(ctx)
    run_pauli_orbit(ctx, quick)
    run_symbasis(ctx, quick)
    run_schurweyl(ctx, quick)
    run_groupmisc(ctx, quick)
    run_closed_gme(ctx)
    run_index_store(ctx, quick)
    run_query(ctx)
    run_localbasis(ctx)
    run_vectorspace(ctx, quick)
    ctx.sample(dict(kind='extra-models', models=[m['model'] for m in ctx.models]))


def replay(ctx, rec):
    print('replay', rec['key'], rec['what'], rec['data'])
    return 0
