"""X01 - specification coverage BEYOND the listed properties (not registered in MANIFEST.json; `./check X01`).
The specifications keep growing to cover more of numqi's behaviour; parts that belong to none of C01..C20 are decided here, so
that a defect in them can never be reported against a listed property.
specs: specs/extra/{MC_Qudit,MC_SymplecticGS}.tla"""
import itertools, math, random
import numpy as np
from .. import tlc, core
from ..qsim import zo_mat

TOL = 1e-9


def run_qudit(ctx):
    import numqi
    r = tlc.run('extra/MC_Qudit.tla', 'extra/MC_Qudit.cfg', dump=True, timeout=600)
    ctx.add_model('MC_Qudit(d=2,4,8)', r)
    for st in tlc.parse_dump(r):
        d = st['d']
        ctx.case(('qudit', d))
        want = dict(get_quditX=zo_mat(st['X']), get_quditZ=zo_mat(st['Z']), get_quditH=zo_mat(st['H']) / math.sqrt(d))
        for fn, w in want.items():
            try:
                got = getattr(numqi.gate, fn)(d)
                if np.asarray(got).shape != w.shape or core.gt(np.abs(got - w).max(), TOL):
                    ctx.violation('X01:%s:matrix' % fn, '%s(%d) differs from the Weyl-Heisenberg matrix of the specification' % (fn, d), dict(d=d))
            except Exception as ex:
                ctx.violation('X01:%s:exception' % fn, type(ex).__name__ + ': ' + str(ex)[:160], dict(d=d))
        ctx.traces += 1


def run_symplectic_gs(ctx, quick):
    from numqi.group import spf2
    r = tlc.run('extra/MC_SymplecticGS.tla', 'extra/MC_SymplecticGS_%s.cfg' % ('q' if quick else 't'), dump=True, timeout=3000)
    ctx.add_model('MC_SymplecticGS', r)
    n = 2

    def form(u, v):
        return int((np.dot(u[:n], v[n:]) + np.dot(u[n:], v[:n])) % 2)
    for st in tlc.parse_dump(r):
        vs = [np.array(v, dtype=np.uint8) for v in st['vs']]
        m = st['m']
        data = dict(vectors=[list(map(int, v)) for v in vs], pairs_expected=m)
        ctx.case(('sgs', tuple(tuple(int(x) for x in v) for v in vs)))
        try:
            out = spf2.schmidt_orthogonalization([v.copy() for v in vs])
            out = [np.asarray(x, dtype=np.uint8) for x in out]
            if len(out) != 2 * m:
                ctx.violation('X01:schmidt_orthogonalization:pairs', 'number of hyperbolic pairs differs from rank(Gram)/2', dict(data, got=len(out)))
                continue
            es, fs = out[:m], out[m:]
            ok = all(form(es[i], fs[j]) == (1 if i == j else 0) for i in range(m) for j in range(m)) and \
                all(form(es[i], es[j]) == 0 and form(fs[i], fs[j]) == 0 for i in range(m) for j in range(m))
            if not ok:
                ctx.violation('X01:schmidt_orthogonalization:symplectic-basis', 'output is not a family of hyperbolic pairs', data)
            # every output vector lies in the span of the inputs
            span = {tuple(int(x) for x in (sum((c * v for c, v in zip(cs, vs)), np.zeros(2 * n, dtype=np.int64)) % 2)) for cs in itertools.product([0, 1], repeat=len(vs))}
            if any(tuple(int(x) for x in o) not in span for o in out):
                ctx.violation('X01:schmidt_orthogonalization:span', 'an output vector is outside the span of the inputs', data)
            if any(not np.array_equal(a, b) for a, b in zip(vs, [np.array(v, dtype=np.uint8) for v in st['vs']])):
                ctx.violation('X01:schmidt_orthogonalization:mutates-input', 'the input vectors were modified', data)
            ctx.traces += 1
        except Exception as ex:
            ctx.violation('X01:schmidt_orthogonalization:exception', type(ex).__name__ + ': ' + str(ex)[:160], data)


def run_pauli_orbit(ctx, quick):
    """orbits of sets of two-qubit Paulis under the Clifford group: TLC enumerates Sp(4,F2) by brute force and forms the orbit"""
    import numqi
    from ..qsim import setof
    r = tlc.run('extra/MC_PauliOrbit.tla', 'extra/MC_PauliOrbit.cfg', dump=True, timeout=1200)
    ctx.add_model('MC_PauliOrbit(n=2)', r)
    states = list(tlc.parse_dump(r))
    if quick:
        states = sorted(states, key=lambda st: sorted(setof(st['subset'])))[::3]
    for st in states:
        sub = tuple(sorted(setof(st['subset'])))
        orb = st['orbit']
        want = {tuple(sorted(setof(t))) for t in (orb[1] if isinstance(orb, tuple) else orb)}
        ctx.case(('orbit', sub))
        try:
            got = numqi.gate.get_pauli_subset_equivalent(sub, 2)
            got = {tuple(int(x) for x in t) for t in got}
            if got != want:
                ctx.violation('X01:get_pauli_subset_equivalent:orbit', 'orbit of the subset differs from its orbit under Sp(4,F2) (missing %d, extra %d)' % (len(want - got), len(got - want)), dict(subset=list(sub)))
            ctx.traces += 1
        except Exception as ex:
            ctx.violation('X01:get_pauli_subset_equivalent:exception', type(ex).__name__ + ': ' + str(ex)[:160], dict(subset=list(sub)))


def run_pauli_exponential(ctx):
    """exp(i a n.sigma) on the axis grid: a in multiples of pi/4, n along +-x, +-y, +-z - the closed form cos a + i sin a n.sigma
    (a two-line specification; the exact values are in Z[w]/sqrt2)"""
    import numqi
    X = np.array([[0, 1], [1, 0]], dtype=complex); Y = np.array([[0, -1j], [1j, 0]]); Z = np.diag([1.0 + 0j, -1])
    axes = {(math.pi / 2, 0.0): X, (math.pi / 2, math.pi / 2): Y, (0.0, 0.0): Z, (math.pi, 0.0): -Z, (math.pi / 2, math.pi): -X, (math.pi / 2, 3 * math.pi / 2): -Y}
    for k in range(8):
        a = k * math.pi / 4
        for (th, ph), S in axes.items():
            ctx.case(('pexp', k, th, ph))
            want = math.cos(a) * np.eye(2) + 1j * math.sin(a) * S
            try:
                got = numqi.gate.pauli_exponential(a, th, ph)
                if core.gt(np.abs(got - want).max(), TOL):
                    ctx.violation('X01:pauli_exponential:axis-grid', 'exp(i a n.sigma) differs from cos a + i sin a n.sigma', dict(a_quarter_pi=k, theta=th, phi=ph))
            except Exception as ex:
                ctx.violation('X01:pauli_exponential:exception', type(ex).__name__ + ': ' + str(ex)[:160], dict(a_quarter_pi=k))


def run(ctx):
    quick = ctx.tier == 'quick'
    ctx.rule = ('beyond the listed properties: Weyl-Heisenberg matrices d = 2, 4, 8 (commutation, order, Fourier relation as TLC invariants); symplectic Gram-Schmidt over F2 for every list of '
                '%d vectors of F2^4 (number of hyperbolic pairs = rank of the Gram matrix / 2, computed by TLC); Pauli exponential on the axis grid; orbits of two-qubit Pauli subsets under the Clifford group' % (4 if quick else 5))
    ctx.assumptions = ['TLC/SANY correct', 'tolerance 1e-9']
    ctx.not_covered = ['everything else outside C01..C20 (optimisers, maximum entropy, unique determination, query algorithms, optimal control)']
    run_qudit(ctx)
    run_symplectic_gs(ctx, quick)
    run_pauli_exponential(ctx)
    run_pauli_orbit(ctx, quick)
    ctx.sample(dict(kind='extra-models', models=[m['model'] for m in ctx.models]))


def replay(ctx, rec):
    print('replay', rec['key'], rec['what'], rec['data'])
    return 0
