"""C02 - trivializations are locally onto: the differential has full rank at a generic point.
specs: specs/manifold/{Charts,MC_ChartArgs,Trace_Chart}.tla

Charts.tla holds the two integer tables of the property (parameter count, rank of the differential = dimension of the manifold, or the
parameter count for the minimal charts).  For every chart descriptor TLC enumerates, the driver takes the autograd Jacobian of the
functional map at generic parameter points (standard normal draws), computes an SVD and hands TLC the Jacobian with two certificates:
U, V, sigma for rank >= k and an orthonormal kernel basis N for rank <= k.  TLC re-verifies both in integer arithmetic."""
import random
import numpy as np
from .. import tlc, core
from . import c01

SCALE = 20000
EPS = 200            # 1% of the scale; the rounding of the two staged products stays below (m + n) units ~ 0.6%
FLOOR_MIN = 0.0      # the floor is chosen per event: k * eps < floor <= sigma_k


def jacobian(a, theta):
    """real Jacobian (outputs realified: real parts then imaginary parts) of the functional map at theta"""
    import torch
    th = torch.tensor(theta, dtype=torch.float64)

    def f(t):
        out = c01.functional(a, t)
        if torch.is_complex(out):
            out = torch.view_as_real(out)
        return out.reshape(-1)
    return torch.autograd.functional.jacobian(f, th).detach().numpy()


def build_event(a, seed):
    a2 = dict(a, p32=False, batch=0, mag=2)
    mod = c01.make_module(a2)
    n = int(np.prod(mod.theta.shape))
    rng = np.random.default_rng(seed)
    k = chart_rank(a)
    best = None
    for attempt in range(12):                    # "generic point": several standard normal draws, the best conditioned one is certified
        theta = rng.normal(size=n)
        J = jacobian(a2, theta)
        s = np.linalg.svd(J, compute_uv=False)
        cond = float(s[k - 1] / s[0]) if len(s) >= k and s[0] > 0 else 0.0
        if best is None or cond > best[3]:
            best = (theta, J, s, cond)
    theta, J, s, _ = best
    U, sv, Vt = np.linalg.svd(J, full_matrices=True)
    return theta, J, U, sv, Vt


def certify(a, k, theta, J, U, sv, Vt):
    m, n = J.shape
    scale_j = max(1.0, float(np.abs(J).max()))          # J is recorded relative to its largest entry (rank is scale invariant)
    Jn = J / scale_j
    svn = sv / scale_j
    kk = min(k, len(svn))
    r = lambda M: [[int(round(float(x) * SCALE)) for x in row] for row in np.asarray(M)]
    sig = [int(round(float(x) * SCALE)) for x in svn[:kk]] + [0] * (k - kk)
    Uk = U[:, :k] if U.shape[1] >= k else np.hstack([U, np.zeros((m, k - U.shape[1]))])
    Vk = Vt[:k].T if Vt.shape[0] >= k else np.hstack([Vt.T, np.zeros((n, k - Vt.shape[0]))])
    N = Vt[k:].T if n > k else np.zeros((n, 0))
    floor = int(min([x for x in sig] or [0]))
    return dict(a=a, S=SCALE, eps=EPS, floor=max(floor, 1), J=r(Jn), U=r(Uk), V=r(Vk), sig=sig, N=r(N) if N.shape[1] else [],
                sigma=[float(x) for x in sv[:k + 2]], theta=[float(x) for x in theta])


def run(ctx):
    quick = ctx.tier == 'quick'
    ctx.rule = ('every chart of numqi.manifold named by the property (Sphere, Ball, Trace1PSD, SymmetricMatrix, DiscreteProbability, SpecialOrthogonal, Stiefel; every method, real and complex, every rank, '
                'dim 2..%d): autograd Jacobian at the best conditioned of 12 standard-normal points (%d point sets per chart), rank = ChartRank(a) certified by SVD factors and re-verified by TLC in '
                'integer arithmetic at scale %d; distinct by chart' % (3 if quick else 5, 1 if quick else 3, SCALE))
    ctx.assumptions = ['TLC/SANY correct', 'torch.autograd.functional.jacobian returns the differential of the functional map', 'rank with a gap criterion: k singular values certified >= floor > k*eps, n-k kernel directions with |J N| <= eps (1% of the largest entry of J)']
    ctx.not_covered = ['dims above %d' % (3 if quick else 5), 'PositiveReal / OpenInterval (one-dimensional, monotone)', 'QuantumChannel / SeparableDensityMatrix (compositions of the charts above)', 'non-generic points']
    ctx.tolerances = dict(scale=SCALE, eps=EPS / SCALE)
    r = tlc.run('manifold/MC_ChartArgs.tla', 'manifold/MC_ChartArgs_%s.cfg' % ('q' if quick else 't'), dump=True, timeout=600)
    ctx.add_model('MC_ChartArgs', r)
    calls = sorted([st['a'] for st in tlc.parse_dump(r)], key=lambda a: repr(sorted(a.items())))
    # the tables of the specification, evaluated by TLC: re-read through a tiny trace would be circular, so the driver asks for
    # them per event (Trace_Chart recomputes ChartRank / ParamCount itself); here only the certificate size k is needed
    ev, meta = [], []
    for i, a in enumerate(calls):
        for rep in range(1 if quick else 3):
            ctx.case(('chart', rep) + tuple(sorted(a.items())))
            try:
                theta, J, U, sv, Vt = build_event(a, ctx.seed * 7919 + 31 * i + rep)
                k = chart_rank(a)
                ev.append(certify(a, k, theta, J, U, sv, Vt))
                meta.append(a)
            except Exception as ex:
                ctx.violation('C02:%s:%s:exception' % (a['cls'], a['method'] or 'default'), 'the Jacobian of an admissible chart could not be taken: %s: %s' % (type(ex).__name__, str(ex)[:140]), dict(descriptor=a))
    acc, rej, results = tlc.validate_events('manifold/Trace_Chart.tla', 'manifold/Trace_Chart.cfg', [{k: v for k, v in e.items() if k not in ('sigma', 'theta')} for e in ev], shards=16)
    for r in results:
        ctx.states += r.distinct
        ctx.transitions += r.generated
    ctx.models.append(dict(model='Trace_Chart', events=len(ev), accepted=acc, rejected=len(rej), exhaustive=False))
    ctx.traces += len(ev)
    for gi, info in rej:
        a, e = meta[gi], ev[gi]
        ctx.violation('C02:%s:%s:%s' % (a['cls'], a['method'] or 'default', info[-1]),
                      '%s(method=%s, dim=%d, rank=%d, opt=%d, %s): %s - expected rank %d with %d parameters, leading singular values %s'
                      % (a['cls'], a['method'], a['d'], a['r'], a['opt'], 'complex' if a['cplx'] else 'real', info[-1], chart_rank(a), len(e['J'][0]) if e['J'] else 0, ['%.3g' % x for x in e['sigma']]),
                      dict(descriptor=a, failing_clause=info[-1], singular_values=e['sigma'], theta=e['theta']))
    if ev:
        e = ev[len(ev) // 2]
        ctx.sample(dict(kind='chart-event', descriptor=e['a'], parameters=len(e['J'][0]), expected_rank=len(e['sig']), singular_values=e['sigma']))


def chart_rank(a):
    """the size of the certificate the driver prepares; Trace_Chart recomputes ChartRank(a) from Charts.tla and rejects a mismatch"""
    d, r, cplx, m, o = a['d'], a['r'], a['cplx'], a['method'], a['opt']
    sd = (2 * d * r - r * r) if cplx else (d * r - r * (r + 1) // 2)
    so = (d * d - 1) if cplx else d * (d - 1) // 2
    c = a['cls']
    if c == 'Sphere':
        return 2 * d - 1 if cplx else d - 1
    if c == 'Ball':
        return 2 * d if cplx else d
    if c == 'Trace1PSD':
        return (2 * d * r - r * r if cplx else d * r - r * (r - 1) // 2) - 1
    if c == 'SymmetricMatrix':
        return (d * d if cplx else d * (d + 1) // 2) - (o % 2) - (1 if o >= 2 else 0)
    if c == 'DiscreteProbability':
        return d - 1
    if c == 'SpecialOrthogonal':
        return so
    if m in ('qr', 'polar'):
        return sd
    if m == 'choleskyL':
        return min(sd, (2 if cplx else 1) * (d * r - r * (r + 1) // 2))
    if m in ('so-exp', 'so-cayley'):
        return min(sd, so)
    return min(sd, (d * r - r * (r + 1) // 2) if not cplx else (2 * d * r - r * r if o else 2 * d * r - r * (r + 1)))


def replay(ctx, rec):
    print('replay', rec['key'], rec['what'])
    return 0
