"""C03 - the state-vector simulator applies gates exactly as the embedded operator.
specs: specs/qsim/{Embed,MC_Embed,Gates,Circuit,Sim_Circuit}.tla"""
import itertools, random
import numpy as np
from .. import tlc, core
from ..qsim import *

TOL = 1e-9


def replay_routing(ctx, states):
    import numqi
    st_apply = numqi.sim.state.apply_gate
    st_ctrl = numqi.sim.state.apply_control_n_gate
    dm_apply = numqi.sim.dm.apply_gate
    dm_expect = numqi.sim.dm.operator_expectation
    # group units of the same configuration (for the sesquilinear dm test)
    byconf = {}
    for st in states:
        c = st['cfg']
        key = (c['n'], tuple(c['tg']), tuple(sorted(setof(c['ctrl']))))
        byconf.setdefault(key, {})[(c['i'], c['j'])] = np.array(st['expect'], dtype=float)
    nbad = 0
    for (n, tg, ctrl), units in sorted(byconf.items()):
        K = 2 ** len(tg)
        D = 2 ** n
        tg0 = tuple(q - 1 for q in tg)
        ctrl0 = {q - 1 for q in ctrl}
        data = dict(n=n, targets=list(tg0), controls=sorted(ctrl0))

        def bad(fn, clause, extra=None):
            ctx.violation('C03:%s:%s' % (fn, clause), '%s: %s (n=%d targets=%s controls=%s)' % (fn, clause, n, list(tg0), sorted(ctrl0)), dict(data, **(extra or {})))
        if len(units) != K * K:
            raise core.MachineryError('routing dump incomplete')
        ctx.case(('route', n, tg, ctrl))
        try:
            for (i, j), M in units.items():
                op = np.zeros((K, K), dtype=complex)
                op[i - 1, j - 1] = 1
                for c in range(D):
                    e = np.zeros(D, dtype=complex)
                    e[c] = 1
                    got = st_ctrl(e, op, ctrl0, tg0) if ctrl0 else st_apply(e, op, tg0)
                    ctx.evaluations += 1
                    if core.gt(np.abs(got - M[:, c]).max(), TOL):
                        bad('state.apply_control_n_gate' if ctrl0 else 'state.apply_gate', 'embedded operator on a basis column', dict(unit=[i - 1, j - 1], column=c))
                        break
                if not ctrl0:
                    # expectation value Tr(rho O) on matrix-unit density matrices: = Emb(O)[c'][c]
                    for c, c2 in [(0, 0), (D - 1, 1 % D), (D // 2, D - 1)]:
                        rho = np.zeros((D, D), dtype=complex)
                        rho[c, c2] = 1
                        v = dm_expect(rho, op, tg0)
                        if core.gt(abs(v - M[c2, c]), TOL):
                            bad('dm.operator_expectation', 'Tr(rho O)', dict(unit=[i - 1, j - 1], rho=[c, c2]))
                            break
            # Circuit-level methods on a superposition with non-unit coefficients (linearity is exercised, not assumed)
            rngl = random.Random(hash((n, tg, ctrl)) & 0xffff)
            psi = np.array([complex(rngl.randint(-3, 3), rngl.randint(-3, 3)) for _ in range(D)])
            (i1, j1), (i2, j2) = rngl.choice(sorted(units)), rngl.choice(sorted(units))
            op = np.zeros((K, K), dtype=complex)
            op[i1 - 1, j1 - 1] += 2 - 1j
            op[i2 - 1, j2 - 1] += 1j
            M = (2 - 1j) * units[(i1, j1)] + 1j * units[(i2, j2)]
            if ctrl0:
                # identity part of a controlled embedding appears once, not once per unit
                Pid = np.diag([0.0 if all((c >> (n - 1 - q)) & 1 for q in ctrl0) else 1.0 for c in range(D)])
                M = M - (2 - 1j + 1j - 1) * Pid
            circ = numqi.sim.Circuit()
            pad = None
            if ctrl0 and len(tg0) == 1:
                circ.controlled_single_qubit_gate(op, ctrl0, tg0[0])
            elif ctrl0 and len(tg0) == 2:
                circ.controlled_double_qubit_gate(op, ctrl0, tg0)
            elif not ctrl0:
                [circ.single_qubit_gate, circ.double_qubit_gate, circ.triple_qubit_gate][len(tg0) - 1](op, *tg0)
            else:
                circ = None
            if circ is not None and circ.num_qubit == n:
                got = circ.apply_state(psi.copy())
                if core.gt(np.abs(got - M @ psi).max(), TOL):
                    bad('Circuit.%s' % circ.gate_index_list[0][0].name, 'circuit-level gate on a superposition', dict(op=[[i1 - 1, j1 - 1], [i2 - 1, j2 - 1]]))
            if not ctrl0:
                rho = np.outer(psi, np.conj(np.roll(psi, 1)))
                got = dm_apply(rho, op, tg0)
                if core.gt(np.abs(got - M @ rho @ M.conj().T).max(), TOL):
                    bad('dm.apply_gate', 'U rho U^dagger', dict(op=[[i1 - 1, j1 - 1], [i2 - 1, j2 - 1]]))
                got = st_apply(psi, op, tg0)
                if core.gt(np.abs(got - M @ psi).max(), TOL):
                    bad('state.apply_gate', 'superposition / complex gate', None)
            else:
                got = st_ctrl(psi, op, ctrl0, tg0)
                if core.gt(np.abs(got - M @ psi).max(), TOL):
                    bad('state.apply_control_n_gate', 'superposition / complex gate', None)
        except Exception as ex:
            bad('exception', type(ex).__name__ + ': ' + str(ex)[:200])
    k0 = sorted(byconf)[len(byconf) // 2]
    ctx.sample(dict(kind='routing-config', n=k0[0], targets=[q - 1 for q in k0[1]], controls=[q - 1 for q in k0[2]], units=len(byconf[k0])))
    return len(byconf)


def replay_behaviour(ctx, beh, with_u):
    """step a real Circuit object through one TLC behaviour, comparing the observations after every call"""
    import numqi
    circ = numqi.sim.Circuit()
    prev_gates = []
    word = []
    for act, st in beh[1:]:
        call = st['ops'][-1]
        obs = st['obs']
        word.append(call['call'] + (':' + gate_str(call['g']) if call['call'] in ('add', 'reuse', 'addP', 'setP') else ':%s' % (call['src'] or call['d'])))
        data = dict(word=list(word))
        try:
            apply_call(circ, dict(call, new_gates=st['gates']), prev_gates)
            n = circ.num_qubit
            if n != obs['n']:
                ctx.violation('C03:Circuit.num_qubit:register-size', 'register size differs from 1 + largest index in use', data)
                return
            q = circ.apply_state(numqi.sim.new_base(n))
            if core.gt(np.abs(q - zo_vec(obs['psi'], obs['e'])).max(), TOL):
                key = call['call'] if call['call'] != 'add' else call['g']['op']
                ctx.violation('C03:Circuit.apply_state:%s' % key, 'state after the circuit differs from the ordered product of embedded operators (last call %s)' % word[-1], data)
                return
        except Exception as ex:
            ctx.violation('C03:exception:Circuit', type(ex).__name__ + ': ' + str(ex)[:200], data)
            return
        prev_gates = st['gates']
    if len(beh) < 2:
        return
    obs = beh[-1][1]['obs']
    n = obs['n']
    data = dict(word=list(word))
    try:
        if with_u:
            U = circ.to_unitary()
            if core.gt(np.abs(U - zo_mat(obs['u'], obs['ue'])).max(), TOL):
                ctx.violation('C03:Circuit.to_unitary:product', 'to_unitary differs from the ordered product of embedded operators', data)
            elif obs['unitary'] and core.gt(np.abs(U @ U.conj().T - np.eye(2 ** n)).max(), TOL):
                ctx.violation('C03:Circuit.to_unitary:unitary', 'to_unitary is not unitary', data)
        for mask in range(1, 2 ** n):
            keep = {qq for qq in range(n) if (mask >> (n - 1 - qq)) & 1}
            got = numqi.sim.state.reduce_to_probability(q, keep)
            want = np.array([zo(c).real for c in obs['marg'][mask - 1]]) / 2 ** obs['e']
            if got.shape != want.shape or core.gt(np.abs(got - want).max(), TOL):
                ctx.violation('C03:reduce_to_probability:born-marginal', 'marginal probabilities differ from the Born marginals', dict(data, keep=sorted(keep)))
                break
        X, Y = np.array([[0, 1], [1, 0]], dtype=complex), np.array([[0, -1j], [1j, 0]])
        got = numqi.sim.state.inner_product_psi0_O_psi1(q, q, [[(X, 0), (Y, n - 1)]])[0] if n > 1 else None
        if n > 1 and core.gt(abs(got - zo(obs['xy']) / 2 ** obs['e']), TOL):
            ctx.violation('C03:inner_product_psi0_O_psi1:pauli-string', '<psi|X_0 Y_last|psi> differs', data)
    except Exception as ex:
        ctx.violation('C03:exception:observables', type(ex).__name__ + ': ' + str(ex)[:200], data)
    ctx.case(('prog', tuple(word)))


def run_wide(ctx, quick):
    """wide registers (6..9 qubits): a fixed family of target tuples / control sets, generic gate matrix with pairwise different entries"""
    import numqi
    r = tlc.run('qsim/MC_EmbedWide.tla', 'qsim/MC_EmbedWide_%s.cfg' % ('q' if quick else 't'), dump=True, timeout=3000)
    ctx.add_model('MC_EmbedWide(n<=%d)' % (7 if quick else 9), r)
    for st in tlc.parse_dump(r):
        c = st['cfg']
        n, tg, ctrl, col = c['n'], tuple(q - 1 for q in c['tg']), {q - 1 for q in setof(c['ctrl'])}, c['col']
        K = 2 ** len(tg)
        op = np.array([[(rr + 1) + 1j * (cc + 1) for cc in range(K)] for rr in range(K)])
        want = zo_vec(st['out'])
        data = dict(n=n, targets=list(tg), controls=sorted(ctrl), column=col)
        ctx.case(('wide', n, tg, tuple(sorted(ctrl)), col))
        try:
            e = np.zeros(2 ** n, dtype=complex)
            e[col] = 1
            got = numqi.sim.state.apply_control_n_gate(e, op, ctrl, tg) if ctrl else numqi.sim.state.apply_gate(e, op, tg)
            if core.gt(np.abs(got - want).max(), TOL):
                ctx.violation('C03:%s:wide-register' % ('state.apply_control_n_gate' if ctrl else 'state.apply_gate'), 'embedded operator on a basis column of a %d-qubit register' % n, data)
            circ = numqi.sim.Circuit()
            if ctrl and len(tg) == 1:
                circ.controlled_single_qubit_gate(op, ctrl, tg[0])
            elif ctrl and len(tg) == 2:
                circ.controlled_double_qubit_gate(op, ctrl, tg)
            elif not ctrl:
                [circ.single_qubit_gate, circ.double_qubit_gate, circ.triple_qubit_gate][len(tg) - 1](op, *tg)
            else:
                circ = None
            if circ is not None:
                if circ.num_qubit < n:        # the circuit only spans the qubits it touches: pad with an identity on the last qubit
                    circ.single_qubit_gate(np.eye(2), n - 1)
                got = circ.apply_state(e.copy())
                if core.gt(np.abs(got - want).max(), TOL):
                    ctx.violation('C03:Circuit:wide-register', 'a generic gate appended to a circuit acts differently from the embedded operator on a %d-qubit register' % n, data)
            # density-matrix routine on the same column: U |c><c| U^dagger
            if not ctrl and n <= 7:
                dm = np.zeros((2 ** n, 2 ** n), dtype=complex)
                dm[col, col] = 1
                got = numqi.sim.dm.apply_gate(dm, op, tg)
                if core.gt(np.abs(got - np.outer(want, want.conj())).max(), 1e-8):
                    ctx.violation('C03:dm.apply_gate:wide-register', 'U rho U^dagger on a basis projector of a %d-qubit register' % n, data)
            ctx.traces += 1
        except Exception as ex:
            ctx.violation('C03:exception:wide-register', type(ex).__name__ + ': ' + str(ex)[:160], data)


def run_opstring(ctx, quick):
    """operator strings with overlapping, non-commuting factors: <e_r| g_m ... g_1 |e_0> must be the amplitudes of Run(word)"""
    import numqi
    r = tlc.run('qsim/MC_OpString.tla', 'qsim/MC_OpString_%s.cfg' % ('q' if quick else 't'), dump=True, timeout=3000)
    ctx.add_model('MC_OpString', r)
    ipf = numqi.sim.state.inner_product_psi0_O_psi1
    G = numqi.gate
    mats = {'X': G.X, 'Z': G.Z, 'H': G.H, 'S': G.S, 'T': G.T, 'Swap': G.Swap}
    for st in tlc.parse_dump(r):
        n, word = st['n'], st['word']
        want = zo_vec(st['psi']['v'], st['psi']['e'])
        term = [(GENM[g['mat']] if g['op'] == 'double' else mats[g['op']],) + tuple(q - 1 for q in g['tg']) for g in reversed(word)]
        data = dict(n=n, string=[(g['op'] + (':' + g['mat'] if g['mat'] else ''), [q - 1 for q in g['tg']]) for g in reversed(word)])
        ctx.case(('opstring', n, repr(data['string'])))
        try:
            e0 = np.zeros(2 ** n, dtype=complex)
            e0[0] = 1
            got = np.zeros(2 ** n, dtype=complex)
            for rr in range(2 ** n):
                er = np.zeros(2 ** n, dtype=complex)
                er[rr] = 1
                out = ipf(er, e0, [term, term[:1]])
                got[rr] = out[0]
            if core.gt(np.abs(got - want).max(), TOL):
                ctx.violation('C03:inner_product_psi0_O_psi1:operator-string', '<e_r| A B ... |e_0> differs from the matrix product of the embedded factors (left to right)', data)
            ctx.traces += 1
        except Exception as ex:
            ctx.violation('C03:exception:inner_product_psi0_O_psi1', type(ex).__name__ + ': ' + str(ex)[:160], data)


def run_graph(ctx, quick):
    """graph-state circuits: every simple graph on <= 4 (5) vertices; exact amplitudes and stabilizer circuits"""
    import numqi
    r = tlc.run('qsim/MC_Graph.tla', 'qsim/MC_Graph_%s.cfg' % ('q' if quick else 't'), dump=True, timeout=3000)
    ctx.add_model('MC_Graph(n<=%d)' % (4 if quick else 5), r)
    for st in tlc.parse_dump(r):
        n = st['n']
        if n < 2:
            continue
        ev = st['edges']
        E = [tuple(e) for e in (ev[1] if isinstance(ev, tuple) else ev)]
        A = np.zeros((n, n), dtype=np.uint8)
        for i, j in E:
            A[i - 1, j - 1] = A[j - 1, i - 1] = 1
        want = zo_vec(st['psi']['v'], st['psi']['e'])
        data = dict(n=n, edges=[[i - 1, j - 1] for i, j in sorted(E)])
        ctx.case(('graph', n, tuple(sorted(E))))
        try:
            q, circs = numqi.sim.build_graph_state(A, return_stabilizer_circ=True)
            if q.shape != want.shape or core.gt(np.abs(q - want).max(), TOL):
                ctx.violation('C03:build_graph_state:amplitudes', 'graph state differs from prod CZ_edges H^n |0..0>', data)
            for i, c in enumerate(circs):
                m = c.num_qubit   # the circuit only spans the qubits it touches; the rest are (MSB-first) trailing qubits
                out = (c.to_unitary() @ want.astype(complex).reshape(2 ** m, -1)).reshape(-1)
                if m > n or core.gt(np.abs(out - want).max(), TOL):
                    ctx.violation('C03:build_graph_state:stabilizer-circuit', 'stabilizer circuit K_%d does not fix the graph state' % i, data)
            ctx.traces += 1
        except Exception as ex:
            ctx.violation('C03:exception:build_graph_state', type(ex).__name__ + ': ' + str(ex)[:160], data)


def run(ctx):
    quick = ctx.tier == 'quick'
    ctx.rule = ('routing: every (n, ordered target tuple of size 1..3, control subset) for n<=%d with every matrix unit as gate, all basis columns; '
                'programs: TLC-simulated random circuits over the full Circuit vocabulary (fixed, parametrized, controlled, multi-controlled, generic-matrix, '
                'user-registered, append_gate, extend_circuit, shift_qubit_index_) on <=4 qubits; distinct by configuration / by operation word' % (3 if quick else 4))
    ctx.assumptions = ['TLC/SANY correct', 'comparison tolerance 1e-9 on complex128', 'linearity of einsum contractions extends agreement on matrix units x basis columns to all inputs (additionally exercised on random superpositions)']
    ctx.tolerances = {'complex128': TOL}
    ctx.not_covered = ['kraus-channel gates of Circuit (not part of C03)']
    r = tlc.run('qsim/MC_Embed.tla', 'qsim/MC_Embed_%s.cfg' % ('q' if quick else 't'), dump=True, timeout=3000)
    ctx.add_model('MC_Embed(n<=%d)' % (3 if quick else 4), r)
    ctx.traces += replay_routing(ctx, list(tlc.parse_dump(r)))
    run_graph(ctx, quick)
    run_opstring(ctx, quick)
    run_wide(ctx, quick)
    for cfg, num, with_u in [('3', 60 if quick else 600, True), ('4', 40 if quick else 400, False)]:
        r = tlc.run('qsim/Sim_Circuit.tla', 'qsim/Sim_Circuit_%s.cfg' % cfg, simulate=dict(num=num, file=True), depth=9, seed=ctx.seed + 1, workers=8, timeout=3000)
        ctx.add_model('Sim_Circuit(QN=%s)' % cfg, r, exhaustive=False)
        for f in r.sim_files:
            beh = tlc.parse_behaviour(f)
            replay_behaviour(ctx, beh, with_u)
            ctx.traces += 1
        if r.sim_files:
            b = tlc.parse_behaviour(r.sim_files[0])
            ctx.sample(dict(kind='program', qubits=b[-1][1]['obs']['n'], calls=[c['call'] + (':' + gate_str(c['g']) if c['call'] in ('add', 'reuse') else '') for c in b[-1][1]['ops']]))


def replay(ctx, rec):
    print('replay', rec['key'], rec['what'], rec['data'])
    return 0
