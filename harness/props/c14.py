"""C14 - finite-group tables are groups; partition and tableau counts are exact.
specs: specs/group/{FiniteGroup,Constructions,Partition,Young,MC_Young,Trace_Group}.tla"""
import numpy as np
from .. import tlc, core

li = lambda a: [int(x) for x in a]


def tables(tier):
    import numqi
    G = numqi.group
    out = []
    nsym = 4 if tier == 'quick' else 5
    for n in range(2, nsym + 1):
        out.append(('sym', n, lambda n=n: G.get_symmetric_group_cayley_table(n)))
    for n in range(3, nsym + 1):
        out.append(('alt', n, lambda n=n: G.get_symmetric_group_cayley_table(n, alternating=True)))
    for n in range(3, 13):
        out.append(('dih', n, lambda n=n: G.get_dihedral_group_cayley_table(n)))
    for n in range(2, 13):
        out.append(('cyc', n, lambda n=n: G.get_cyclic_group_cayley_table(n)))
    for n in range(3, 25):
        out.append(('mul', n, lambda n=n: G.get_multiplicative_group_cayley_table(n)))
    out.append(('klein', 0, G.get_klein_four_group_cayley_table))
    out.append(('quat', 0, G.get_quaternion_cayley_table))
    return out


def perm_of_left_regular(L):
    """projection: every matrix of the left regular form must be a 0/1 matrix with exactly one 1 per column"""
    N = L.shape[0]
    if L.shape != (N, N, N) or not np.array_equal(L, L.astype(bool).astype(L.dtype)):
        return None
    if not (np.all(L.sum(axis=1) == 1) and np.all(L.sum(axis=2) == 1)):
        return None
    return [[int(np.argmax(L[a][:, b])) + 1 for b in range(N)] for a in range(N)]


def validate_repo_tests(ctx):
    """group-theory results obtained by the repository's own tests (harness/recorder.py), validated by Trace_Group"""
    from .. import repotrace
    d = repotrace.record(repotrace.GROUP_TESTS, None)
    ev = d['group']
    if not ev:
        raise core.MachineryError('the repository tests produced no group events: ' + d['pytest_tail'])
    acc, rej, results = tlc.validate_events('group/Trace_Group.tla', 'group/Trace_Group.cfg', ev, shards=8)
    for r in results:
        ctx.states += r.distinct
        ctx.transitions += r.generated
    ctx.models.append(dict(model='Trace_Group[repository tests]', events=len(ev), accepted=acc, rejected=len(rej), pytest=d['pytest_tail'], exhaustive=False))
    ctx.traces += len(ev)
    for e in ev:
        ctx.case(('repo', e['op'], e.get('kind'), e.get('n'), e.get('N'), repr(e.get('shape')), repr(e.get('rows'))[:80]))
    for gi, info in rej:
        e = ev[gi]
        ctx.violation('C14:%s:repository-test' % e['op'], 'a result obtained by the repository tests is rejected by Trace_Group: ' + e['op'],
                      {k: v for k, v in e.items() if k not in ('T', 'perm')} if e['op'] in ('cayley', 'regular') else e)


def run(ctx):
    import numqi
    G = numqi.group
    quick = ctx.tier == 'quick'
    ctx.rule = ('every constructible Cayley table (S_2..S_%d, A_3..A_%d, D_3..D_12, C_2..C_12, (Z/n)^* n<=24, V4, Q8): axioms over ALL element triples, isomorphism invariants, left-regular '
                'form; irreducible blocks (order<=%d): dimensions, count = number of classes, integer characters where all characters are rational; partition counts N<=60 by the pentagonal '
                'recurrence; partition sets N<=%d; every standard tableau of every shape with N<=%d (Young-lattice model, both directions); distinct by table / N / shape / tableau'
                % (4 if quick else 5, 4 if quick else 5, 24 if quick else 60, 16 if quick else 25, 8 if quick else 10))
    ctx.assumptions = ['TLC/SANY correct', 'characters of rational groups are rounded to integers with residual <= 1e-7 (a larger residual is itself reported)']
    ctx.not_covered = ['unitarity / homomorphism of the irreducible blocks finer than the rounding tolerance (2.5 percent of the squared scale)', 'character values of groups with irrational characters']
    ev = []
    meta = []
    for kind, n, f in tables(ctx.tier):
        try:
            T = np.asarray(f())
            L = G.cayley_table_to_left_regular_form(T)
            perm = perm_of_left_regular(L)
            if perm is None:
                ctx.violation('C14:cayley_table_to_left_regular_form:permutation-matrices', 'left regular form is not a family of permutation matrices', dict(kind=kind, n=n))
                continue
            T1 = (T + 1).tolist()
            ev.append(dict(op='table', kind=kind, n=n, T=T1, perm=perm))
            meta.append((kind, n))
            ctx.case(('table', kind, n))
            if len(T) <= (24 if quick else 60):
                irr = G.reduce_group_representation(L)
                dims = [int(x.shape[1]) for x in irr]
                ch = np.stack([np.trace(x, axis1=1, axis2=2) for x in irr])
                integral = np.abs(ch - np.round(ch.real)).max() < 1e-7
                ev.append(dict(op='irreps', kind=kind, n=n, T=T1, dims=dims, chars=[li(np.round(r.real)) for r in ch] if integral else []))
                meta.append((kind, n))
                ev.append(dict(op='irrepmats', kind=kind, n=n, T=T1, S=2000, mats=[[[[[int(round(z.real * 2000)), int(round(z.imag * 2000))] for z in row] for row in Dg] for Dg in np.asarray(x)] for x in irr]))
                meta.append((kind, n))
                ch2, class_list, table = G.get_character_and_class(irr)
                ev.append(dict(op='classes', kind=kind, n=n, T=T1, classes=[[int(x) + 1 for x in c] for c in class_list]))
                meta.append((kind, n))
                if core.gt(np.abs(np.asarray(ch2) - ch).max(), 1e-9) or np.asarray(table).shape != (len(irr), len(class_list)) or \
                        core.gt(np.abs(np.asarray(table) - ch[:, [c[0] for c in class_list]]).max(), 1e-9):
                    ctx.violation('C14:get_character_and_class:table', 'characters are not the traces of the irreducible blocks / table columns are not class representatives', dict(kind=kind, n=n))
        except Exception as ex:
            ctx.violation('C14:exception:%s' % kind, type(ex).__name__ + ': ' + str(ex)[:160], dict(kind=kind, n=n))
    for N in range(1, 61):
        ev.append(dict(op='pcount', N=N, p=int(G.get_sym_group_num_irrep(N))))
        meta.append(('pcount', N))
        ctx.case(('pcount', N))
    for N in range(1, (16 if quick else 25) + 1):
        ev.append(dict(op='partitions', N=N, rows=[li(r) for r in G.get_sym_group_young_diagram(N)]))
        meta.append(('partitions', N))
        ctx.case(('partitions', N))
    # ---- hook-length numbers beyond the enumerable range: hooks and two-row shapes of up to 33 boxes (the number of tableaux stays below
    #      2^31 while the factorials in a naive evaluation leave 64 bits at 21 boxes)
    for N in (5, 9, 12, 13, 16, 20, 21, 22, 25, 28, 30, 33):
        shapes = [(N,), (1,) * N] + [(N - k,) + (1,) * k for k in (1, 2, 3) if N - k >= 2] + [(2,) + (1,) * (N - 2)] + [(N - k, k) for k in (1, 2, 3, 4) if N - k >= k and N <= 30]
        for shape in sorted(set(shapes)):
            ctx.case(('hookbig', shape))
            try:
                ev.append(dict(op='hookbig', shape=list(shape), f=int(G.get_hook_length(*shape))))
                meta.append(('hookbig', shape))
            except Exception as ex:
                ctx.violation('C14:exception:get_hook_length', type(ex).__name__ + ': ' + str(ex)[:160], dict(shape=list(shape)))
    # ---- Young lattice: TLC enumerates every standard filling; both directions against get_all_young_tableaux
    r = tlc.run('group/MC_Young.tla', 'group/MC_Young_%s.cfg' % ('q' if quick else 't'), dump=True, timeout=3000)
    ctx.add_model('MC_Young(N<=%d)' % (8 if quick else 10), r)
    byshape = {}
    for st in tlc.parse_dump(r):
        t = st['tab']
        if not t:
            continue
        byshape.setdefault(tuple(len(row) for row in t), set()).add(tuple(tuple(row) for row in t))
    ntab = 0
    for shape, want in sorted(byshape.items()):
        ctx.case(('shape', shape))
        try:
            arr = G.get_all_young_tableaux(shape)
            got = [tuple(tuple(int(x) for x in row[:shape[i]]) for i, row in enumerate(t)) for t in arr]
            f = int(G.get_hook_length(*shape))
            ev.append(dict(op='hook', shape=list(shape), f=f))
            meta.append(('hook', shape))
            if len(set(got)) != len(got):
                ctx.violation('C14:get_all_young_tableaux:distinct', 'enumerated tableaux are not pairwise distinct', dict(shape=shape))
            if set(got) != want:
                ctx.violation('C14:get_all_young_tableaux:set', 'enumerated tableaux differ from the standard fillings reached in the Young lattice (missing %d, extra %d)' % (len(want - set(got)), len(set(got) - want)), dict(shape=shape))
            if len(got) != f:
                ctx.violation('C14:get_all_young_tableaux:count', 'number of tableaux differs from the hook-length number', dict(shape=shape, count=len(got), hook=f))
            step = max(1, len(got) // (6 if quick else 40))
            for t in got[::step]:
                ev.append(dict(op='tableau', shape=list(shape), rows=[list(r) for r in t]))
                meta.append(('tableau', shape))
            ntab += len(got)
        except Exception as ex:
            ctx.violation('C14:exception:young', type(ex).__name__ + ': ' + str(ex)[:160], dict(shape=shape))
    ctx.traces += ntab
    # big tables first so that the shards are balanced
    order = sorted(range(len(ev)), key=lambda i: -len(ev[i].get('T', [])))
    shards = 16
    payloads = []
    idx = [[] for _ in range(shards)]
    for k, i in enumerate(order):
        idx[k % shards].append(i)
    for s in range(shards):
        if idx[s]:
            payloads.append((s * 10**6, [ev[i] for i in idx[s]], len(idx[s])))
    acc, rej, results = tlc.validate_payloads('group/Trace_Group.tla', 'group/Trace_Group.cfg', payloads, timeout=7000)
    for r in results:
        ctx.states += r.distinct
        ctx.transitions += r.generated
    ctx.models.append(dict(model='Trace_Group', events=len(ev), accepted=acc, rejected=len(rej), exhaustive=True))
    ctx.traces += len(ev)
    for gi, info in rej:
        i = idx[gi // 10**6][gi % 10**6]
        e = ev[i]
        if e['op'] == 'table':
            ctx.violation('C14:cayley-table:%s' % e['kind'], 'table is not a group table of the named group / left-regular form is not a faithful homomorphism (%s %s)' % (e['kind'], e['n']), dict(kind=e['kind'], n=e['n'], T=e['T']))
        elif e['op'] == 'irreps':
            ctx.violation('C14:reduce_group_representation:%s' % e['kind'], 'irreducible blocks: dimensions / count / integer characters rejected (%s %s)' % (e['kind'], e['n']), dict(kind=e['kind'], n=e['n'], dims=e['dims'], chars=e['chars']))
        elif e['op'] == 'irrepmats':
            ctx.violation('C14:reduce_group_representation:homomorphism:%s' % e['kind'], 'an irreducible block is not a unitary homomorphism D(g) D(h) = D(gh) (%s %s; rounded at scale 2000, tolerance 2.5%%)' % (e['kind'], e['n']), dict(kind=e['kind'], n=e['n']))
        elif e['op'] == 'classes':
            ctx.violation('C14:get_character_and_class:classes', 'reported conjugacy classes differ from the classes of the Cayley table (%s %s)' % (e['kind'], e['n']), dict(kind=e['kind'], n=e['n'], classes=e['classes']))
        elif e['op'] == 'pcount':
            ctx.violation('C14:get_sym_group_num_irrep:count', 'number of irreps of S_N differs from p(N)', dict(N=e['N'], got=e['p']))
        elif e['op'] == 'partitions':
            ctx.violation('C14:get_sym_group_young_diagram:set', 'list of Young diagrams is not the set of partitions', dict(N=e['N']))
        elif e['op'] in ('hook', 'hookbig'):
            ctx.violation('C14:get_hook_length:value', 'hook-length number differs from the %s' % ('hook length formula' if e['op'] == 'hook' else 'closed form for hooks / two-row shapes'), dict(shape=e['shape'], got=e['f']))
        else:
            ctx.violation('C14:get_all_young_tableaux:standard', 'enumerated array is not a standard Young tableau of the shape', dict(shape=e['shape'], rows=e['rows']))
    ctx.sample(dict(kind='table-event', group='sym 3', T=ev[1]['T'] if ev[1]['op'] == 'table' else None))
    ctx.sample(dict(kind='tableau-event', event=[e for e in ev if e['op'] == 'tableau'][5]))
    validate_repo_tests(ctx)


def replay(ctx, rec):
    print('replay', rec['key'], rec['what'], rec['data'])
    return 0
