"""pytest plugin (loaded with `-p harness.recorder`, PYTHONPATH=/verif) that records what the REPOSITORY'S OWN TESTS do with
the Pauli routines and with CliffordCircuit objects, in the event formats of the trace specifications:

  * every top-level public call of the Pauli conversion / algebra routines -> one independent event for Trace_Pauli.tla
  * every PauliOperator <-> dense-matrix conversion                        -> a two-event object trace for Trace_PauliObject.tla
  * every CliffordCircuit object: one trace with an event per public call  -> Trace_CliffordCircuit.tla
  * Cayley tables, left-regular forms, partition / hook / tableau results  -> Trace_Group.tla
  * spf2.find_transvection / inverse / from_int_tuple / to_int_tuple, rand_SpF2 -> Trace_Sp.tla

numqi is a sequential library: the linearization point of an operation is the return of the public call, so the recorder logs
there.  Nothing in /repo is touched - the wrappers are installed by monkey-patching in the test process only, nested library
calls (depth > 0) are not logged, and an exception in a wrapped call is re-raised unchanged.  Output: JSON at $NUMQI_VERIF_TRACE."""
import os, json, functools
import numpy as np

OUT = os.environ.get('NUMQI_VERIF_TRACE')
LET = 'IXYZ'
MAX_DENSE_QUBITS = 4
MAX_BATCH_ROWS = 8
state = dict(depth=0, pauli=[], pobj=[], cliff=[], group=[], sp=[], skipped=0, tests=0)
li = lambda a: [int(x) for x in np.asarray(a).reshape(-1)]


def sign_exp(sg):
    z = complex(sg)
    return {(1, 0): 0, (0, 1): 1, (-1, 0): 2, (0, -1): 3}.get((int(round(z.real)), int(round(z.imag))), -1)


def int_to_digits(i, n):
    i = int(i)
    return [(i >> (2 * (n - 1 - k))) & 3 for k in range(n)]


def top_level(fn, log):
    """wrap fn: call it, and when this is a top-level call hand (args, kwargs, result) to log"""
    @functools.wraps(fn)
    def w(*a, **kw):
        state['depth'] += 1
        try:
            ret = fn(*a, **kw)
        finally:
            state['depth'] -= 1
        if state['depth'] == 0:
            try:
                log(a, kw, ret)
            except Exception as ex:          # a recorder problem must never change the outcome of a repository test
                state['skipped'] += 1
        return ret
    return w


def rows(x, width=None):
    x = np.asarray(x)
    if width is None:
        return [x.reshape(-1)[i] for i in range(min(x.size, MAX_BATCH_ROWS))], x.ndim == 0
    single = x.ndim == 1
    x = x.reshape(-1, x.shape[-1])
    return [x[i] for i in range(min(len(x), MAX_BATCH_ROWS))], single


def install():
    import numqi
    G = numqi.gate
    PO = G.PauliOperator
    ev = state['pauli']

    def log_F2_to_str(a, kw, ret):
        f2, single = rows(a[0], True)
        strs = [ret[0]] if single else list(np.asarray(ret[0]).reshape(-1))
        sgs = [ret[1]] if single else list(np.asarray(ret[1]).reshape(-1))
        for x, s, g in zip(f2, strs, sgs):
            ev.append(dict(op='F2_to_str', a=li(x), letters=[LET.index(c) for c in str(s)], sign=sign_exp(g), mode='single' if single else 'batch'))

    def log_str_to_F2(a, kw, ret):
        s = a[0]
        sg = a[1] if len(a) > 1 else kw.get('sign', 1)
        if isinstance(s, str):
            ev.append(dict(op='str_to_F2', letters=[LET.index(c) for c in s], sign=sign_exp(sg), res=li(ret)))
        else:
            ss = list(np.asarray(s).reshape(-1))[:MAX_BATCH_ROWS]
            sgl = list(np.broadcast_to(np.asarray(sg), np.asarray(s).shape).reshape(-1))
            rr = np.asarray(ret).reshape(-1, np.asarray(ret).shape[-1])
            for x, g, r in zip(ss, sgl, rr):
                ev.append(dict(op='str_to_F2', letters=[LET.index(c) for c in str(x)], sign=sign_exp(g), res=li(r)))

    def log_F2_to_index(a, kw, ret):
        with_sign = a[1] if len(a) > 1 else kw.get('with_sign', True)
        if not with_sign:
            state['skipped'] += 1
            return
        f2, single = rows(a[0], True)
        idx = [ret] if single else list(np.asarray(ret).reshape(-1))
        for x, i in zip(f2, idx):
            n = (len(x) - 2) // 2
            if n <= 15:
                ev.append(dict(op='F2_to_index', a=li(x), digits=int_to_digits(i, n), mode='single' if single else 'batch', inrange=bool(0 <= int(i) < 4 ** n)))

    def log_index_to_F2(a, kw, ret):
        with_sign = a[2] if len(a) > 2 else kw.get('with_sign', True)
        n = a[1] if len(a) > 1 else kw['num_qubit']
        if not with_sign or n > 15:
            state['skipped'] += 1
            return
        idx, single = rows(a[0])
        rr = np.asarray(ret).reshape(-1, np.asarray(ret).shape[-1])
        for i, r in zip(idx, rr):
            ev.append(dict(op='index_to_F2', digits=int_to_digits(i, n), mode='single' if single else 'batch', res=li(r)))

    def log_index_to_str(a, kw, ret):
        n = a[1] if len(a) > 1 else kw['num_qubit']
        if n > 15:
            return
        idx, single = rows(a[0])
        ss = [ret] if isinstance(ret, str) else list(np.asarray(ret).reshape(-1))
        for i, s in zip(idx, ss):
            ev.append(dict(op='index_to_str', digits=int_to_digits(i, n), mode='single' if single else 'batch', letters=[LET.index(c) for c in str(s)]))

    def log_str_to_index(a, kw, ret):
        s = a[0]
        ss = [s] if isinstance(s, str) else list(np.asarray(s).reshape(-1))[:MAX_BATCH_ROWS]
        ii = [ret] if isinstance(s, str) else list(np.asarray(ret).reshape(-1))
        for x, i in zip(ss, ii):
            if len(str(x)) <= 15:
                ev.append(dict(op='str_to_index', letters=[LET.index(c) for c in str(x)], mode='single' if isinstance(s, str) else 'batch', digits=int_to_digits(i, len(str(x))), inrange=bool(0 <= int(i) < 4 ** len(str(x)))))

    for name, log in (('pauli_F2_to_str', log_F2_to_str), ('pauli_str_to_F2', log_str_to_F2), ('pauli_F2_to_index', log_F2_to_index),
                      ('pauli_index_to_F2', log_index_to_F2), ('pauli_index_to_str', log_index_to_str), ('pauli_str_to_index', log_str_to_index)):
        setattr(G, name, top_level(getattr(G, name), log))

    PO.__matmul__ = top_level(PO.__matmul__, lambda a, kw, ret: ev.append(dict(op='matmul', a=li(a[0].F2), b=li(a[1].F2), res=li(ret.F2))))
    PO.inverse = top_level(PO.inverse, lambda a, kw, ret: ev.append(dict(op='inverse', a=li(a[0].F2), res=li(ret.F2))))
    PO.commutate_with = top_level(PO.commutate_with, lambda a, kw, ret: ev.append(dict(op='commute', a=li(a[0].F2), b=li(a[1].F2), res=bool(ret))))

    def gauss(m):
        m = np.asarray(m)
        return [[[int(round(z.real)), int(round(z.imag))] for z in row] for row in m]

    def log_from_dense(a, kw, ret):
        m = np.asarray(a[0])
        if m.ndim == 2 and m.shape[0] <= 2 ** MAX_DENSE_QUBITS and np.abs(m - np.round(m)).max() < 1e-9:
            state['pobj'].append([dict(op='new', f2=li(ret.F2)), dict(op='view', v='dense', val=gauss(m))])
        else:
            state['skipped'] += 1
    PO.from_full_matrix = staticmethod(top_level(PO.from_full_matrix, log_from_dense))
    orig_full = PO.full_matrix.fget

    def full_matrix(self):
        state['depth'] += 1
        try:
            ret = orig_full(self)
        finally:
            state['depth'] -= 1
        if state['depth'] == 0 and len(self.F2) <= 2 * MAX_DENSE_QUBITS + 2:
            state['pobj'].append([dict(op='new', f2=li(self.F2)), dict(op='view', v='dense', val=gauss(ret))])
        return ret
    PO.full_matrix = property(full_matrix)

    def log_rand_pauli(a, kw, ret):
        n = a[0] if a else kw['num_qubit']
        h = a[1] if len(a) > 1 else kw.get('is_hermitian')
        ev.append(dict(op='rand_pauli', n=int(n), herm=str(h), seed=-1, res=li(ret.F2)))
    numqi.random.rand_pauli = top_level(numqi.random.rand_pauli, log_rand_pauli)

    # ---- CliffordCircuit objects
    from numqi.sim.clifford import CliffordCircuit as CC
    orig_init = CC.__init__

    def init(self, *a, **kw):
        orig_init(self, *a, **kw)
        self._vf_trace = []
        state['cliff'].append(self._vf_trace)
    CC.__init__ = init

    def gate1(k):
        return lambda a, kw, ret: a[0]._vf_trace.append(dict(op='app', k=k, a=int(a[1]) + 1, b=0))

    def gate2(k):
        return lambda a, kw, ret: a[0]._vf_trace.append(dict(op='app', k=k, a=int(a[1]) + 1, b=int(a[2]) + 1))
    for k in ('X', 'Y', 'Z', 'H', 'S'):
        setattr(CC, k, top_level(getattr(CC, k), gate1(k)))
    for k in ('CX', 'CY', 'CZ'):
        setattr(CC, k, top_level(getattr(CC, k), gate2(k)))
    CC.CNOT = CC.CX
    # random_one_qubit_gate / random_two_qubit_gate are left unwrapped: they pick a gate and call the public gate method, which is logged

    def log_qry(a, kw, ret):
        r, S = ret
        a[0]._vf_trace.append(dict(op='qry', n=int(a[0].num_qubit), r=li(r), S=[li(v) for v in S]))
    CC.to_symplectic_form = top_level(CC.to_symplectic_form, log_qry)

    def log_apply(a, kw, ret):
        p = np.asarray(a[1])
        if p.ndim == 1:
            a[0]._vf_trace.append(dict(op='apply', p=li(p), res=li(ret)))
        else:
            state['skipped'] += 1
    CC.apply_pauli_F2 = top_level(CC.apply_pauli_F2, log_apply)

    def log_export(a, kw, ret):
        from harness.props.c07 import export_gates
        a[0]._vf_trace.append(dict(op='export', gates=export_gates(ret)))
    CC.to_universal_circuit = top_level(CC.to_universal_circuit, log_export)


def install_group():
    """numqi.group: Cayley tables, left-regular forms, partition / tableau counts (Trace_Group) and spf2 routines (Trace_Sp)"""
    import numqi
    G = numqi.group
    gv, sv = state['group'], state['sp']

    def table_logger(kind, has_n):
        def log(a, kw, ret):
            T = np.asarray(ret)
            n = int(a[0] if a else kw.get('n', 0)) if has_n else 0
            k = kind
            if kind == 'sym' and (kw.get('alternating') or (len(a) > 1 and a[1])):
                k = 'alt'
            if len(T) <= 60:
                gv.append(dict(op='cayley', kind=k, n=n, T=(T + 1).tolist()))
            else:
                state['skipped'] += 1
        return log
    for name, kind, has_n in (('get_symmetric_group_cayley_table', 'sym', True), ('get_dihedral_group_cayley_table', 'dih', True), ('get_cyclic_group_cayley_table', 'cyc', True),
                              ('get_multiplicative_group_cayley_table', 'mul', True), ('get_klein_four_group_cayley_table', 'klein', False), ('get_quaternion_cayley_table', 'quat', False)):
        setattr(G, name, top_level(getattr(G, name), table_logger(kind, has_n)))

    def log_regular(a, kw, ret):
        T = np.asarray(a[0])
        L = np.asarray(ret)
        N = len(T)
        if N > 30 or L.shape != (N, N, N) or not (np.all(L.sum(axis=1) == 1) and np.all(L.sum(axis=2) == 1)):
            state['skipped'] += 1
            return
        gv.append(dict(op='regular', T=(T + 1).tolist(), perm=[[int(np.argmax(L[x][:, b])) + 1 for b in range(N)] for x in range(N)]))
    G.cayley_table_to_left_regular_form = top_level(G.cayley_table_to_left_regular_form, log_regular)
    G.get_sym_group_num_irrep = top_level(G.get_sym_group_num_irrep, lambda a, kw, ret: gv.append(dict(op='pcount', N=int(a[0]), p=int(ret))) if int(a[0]) <= 60 else None)
    G.get_sym_group_young_diagram = top_level(G.get_sym_group_young_diagram, lambda a, kw, ret: gv.append(dict(op='partitions', N=int(a[0]), rows=[li(r) for r in ret])) if int(a[0]) <= 12 else None)

    def log_hook(a, kw, ret):
        if sum(a) <= 12:
            gv.append(dict(op='hook', shape=[int(x) for x in a], f=int(ret)))
    G.get_hook_length = top_level(G.get_hook_length, log_hook)

    def log_tableaux(a, kw, ret):
        shape = [int(x) for x in a[0]]
        arr = np.asarray(ret)
        step = max(1, len(arr) // 12)
        for t in arr[::step]:
            gv.append(dict(op='tableau', shape=shape, rows=[[int(x) for x in row[:shape[i]]] for i, row in enumerate(t)]))
    G.get_all_young_tableaux = top_level(G.get_all_young_tableaux, log_tableaux)

    # ---- Sp(2n, F2)
    sp = G.spf2
    pack = lambda m: [int(sum(int(b) << k for k, b in enumerate(row))) for row in np.asarray(m)]
    seen = {}

    def log_ft(a, kw, ret):
        if len(a[0]) <= 16:
            sv.append(dict(op='ft', v0=li(a[0]), v1=li(a[1]), h0=li(ret[0]), h1=li(ret[1])))
    sp.find_transvection = top_level(sp.find_transvection, log_ft)

    def log_inv(a, kw, ret):
        m = np.asarray(a[0])
        if len(m) <= 20:
            sv.append(dict(op='inv', n=len(m) // 2, m=pack(m), mi=pack(ret)))
    sp.inverse = top_level(sp.inverse, log_inv)

    def log_from(a, kw, ret):
        m = np.asarray(ret)
        if len(m) <= 20:
            seen[m.tobytes()] = [int(x) for x in a[0]]
            sv.append(dict(op='from_int', n=len(m) // 2, t=[int(x) for x in a[0]], m=pack(m)))
    sp.from_int_tuple = top_level(sp.from_int_tuple, log_from)

    def log_to(a, kw, ret):
        m = np.asarray(a[0])
        if len(m) <= 20:
            # t0: the tuple this very matrix was built from earlier in the same test process (if any): the round trip must return it
            sv.append(dict(op='to_int', n=len(m) // 2, m=pack(m), b=[int(x) for x in ret], t0=seen.get(m.astype(np.uint8).tobytes(), [])))
    sp.to_int_tuple = top_level(sp.to_int_tuple, log_to)

    def log_rand(a, kw, ret):
        kind = kw.get('return_kind', a[1] if len(a) > 1 else 'matrix')
        n = int(a[0])
        if n > 10:
            return
        if kind == 'int_tuple-matrix':
            t, m = ret
            seen[np.asarray(m).astype(np.uint8).tobytes()] = [int(x) for x in t]
            sv.append(dict(op='from_int', n=n, t=[int(x) for x in t], m=pack(m)))
        elif kind == 'matrix':
            sv.append(dict(op='member', n=n, m=pack(ret)))
    numqi.random.rand_SpF2 = top_level(numqi.random.rand_SpF2, log_rand)


def pytest_configure(config):
    if OUT:
        install()
        install_group()


def pytest_runtest_logreport(report):
    if report.when == 'call':
        state['tests'] += 1


def pytest_sessionfinish(session, exitstatus):
    if OUT:
        with open(OUT, 'w') as f:
            json.dump(dict(pauli=state['pauli'], pobj=state['pobj'], cliff=[t for t in state['cliff'] if t], group=state['group'], sp=state['sp'], skipped=state['skipped'],
                           tests=state['tests'], exitstatus=int(exitstatus)), f)
